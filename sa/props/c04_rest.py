"""C04 rules D1 (no ambient inputs), D2 (key-order insensitivity), D4 (same functions on both paths),
D5 (commutative normalisation = the C12 rules)."""
from __future__ import annotations

import ast
from typing import Dict, List, Optional, Set, Tuple

from ..engine import (
    AnalysisError,
    FuncNode,
    Repo,
    ancestors,
    assigned_value,
    call_attr,
    call_name,
    calls_in,
    dotted_name,
    kwarg,
    norm,
    qualname_of,
    slice_text,
    stmt_of,
    walk_no_nested,
)
from ..normal import module_constants, nfunc, normalize
from ..report import Report

GRAPH = "semantiva/pipeline/graph_builder.py"
SEM = "semantiva/metadata/semantic_id.py"
SWEEP = "semantiva/data_processors/parametric_sweep_factory.py"
BUILDER = "semantiva/inspection/builder.py"
ORCH = "semantiva/execution/orchestrator/orchestrator.py"
IDENT = "semantiva/trace/runtime/run_space_identity.py"
PREP = "semantiva/pipeline/node_preprocess.py"
DESC = "semantiva/registry/descriptors.py"

AMBIENT_PREFIXES = ("time.", "random.", "secrets.", "datetime.", "os.environ", "os.getpid", "os.getcwd", "os.urandom", "socket.", "platform.", "getpass.")
AMBIENT_CALLS = {"uuid.uuid1", "uuid.uuid4", "uuid.uuid7", "uuid1", "uuid4", "id", "hash", "getpid", "getcwd", "time", "now", "utcnow", "today", "urandom", "random", "randint", "token_hex", "perf_counter", "monotonic"}
# hashing helpers and who may use which id prefix
PREFIX_OWNERS = {"plid-": (GRAPH, "compute_pipeline_id"), "plsemid-": (SEM, "compute_pipeline_semantic_id"), "plcid-": (SEM, "compute_pipeline_config_id")}


PER_RUN_PARAMS = {"payload", "transport", "logger", "trace", "run_metadata"}  # parameters of execute() that are not the configuration


def _ambient_call(c: ast.Call) -> bool:
    d = call_name(c) or ""
    tail = d.split(".")[-1]
    if not d:
        return call_attr(c) in ("getcwd", "getpid", "urandom", "uuid4", "uuid1", "perf_counter", "monotonic", "time_ns", "gethostname", "getenv")
    return d.startswith(AMBIENT_PREFIXES) or d in AMBIENT_CALLS or (tail in AMBIENT_CALLS and d.split(".")[0] in ("uuid", "time", "datetime", "random", "os", "secrets"))


def identity_slice(repo: Repo) -> List[Tuple[str, str, ast.AST]]:
    """Functions whose code determines an identity (call-graph closure inside the package)."""
    roots: List[Tuple[str, str]] = [
        (GRAPH, "build_canonical_spec"), (GRAPH, "_canonical_node"), (GRAPH, "compute_pipeline_id"), (GRAPH, "compute_upstream_map"),
        (SEM, "compute_node_semantic_id"), (SEM, "compute_pipeline_config_id"), (SEM, "compute_pipeline_semantic_id"),
        (SEM, "normalize_expression_sig_v1"), (SEM, "_dump_ast_commutative"), (SEM, "variable_domain_signature"), (SEM, "_sha256_json"), (SEM, "_strip_ui_only"),
        (BUILDER, "build_inspection_payload"), (BUILDER, "_compute_run_space_spec_id"), (BUILDER, "_normalize_run_space"), (BUILDER, "_collect_required_context_keys"), (BUILDER, "_build_sweep_payload"),
        (IDENT, "RunSpaceIdentityService._rscf_v1"), (IDENT, "RunSpaceIdentityService._hash"),
        (DESC, "descriptor_to_json"), (PREP, "preprocess_node_config"),
    ]
    out = []
    seen = set()
    missing: List[Tuple[str, str]] = []
    for rel, qn in roots:
        f = repo.maybe_func(rel, qn)
        if f is None:
            # a private helper may have moved (method <-> function, split, renamed): the code is still reached from the
            # public entry points of its file; a vanished public entry point is a vanished anchor
            if not qn.split(".")[-1].startswith("_"):
                raise AnalysisError(f"identity slice anchor vanished: {rel}:{qn}")
            missing.append((rel, qn))
            continue
        out.append((rel, qn, f))
        seen.add(id(f))
        # nested helpers
        for n in ast.walk(f):
            if isinstance(n, FuncNode) and n is not f and id(n) not in seen:
                seen.add(id(n))
                out.append((rel, qualname_of(n), n))
    for rel in sorted({rel for rel, _qn in missing}):
        for f in _moved_code(repo, rel):
            for n in ast.walk(f):
                if isinstance(n, FuncNode) and id(n) not in seen:
                    seen.add(id(n))
                    out.append((rel, qualname_of(n), n))
    pm, _factories = sweep_definition_anchors(repo)  # the builder of the published sweep definition, by role
    out.append((SWEEP, qualname_of(pm), pm))
    return out


# ---------------------------------------------------------------------------
# D3a process-lifetime state
# ---------------------------------------------------------------------------
STATE_EXEMPT = ("semantiva/registry/", "semantiva/logger/", "semantiva/exceptions/")  # name -> class resolution tables, logging
MUTABLE_CTORS = {"dict", "list", "set", "defaultdict", "OrderedDict", "WeakValueDictionary", "WeakKeyDictionary", "WeakSet", "deque", "Counter", "ChainMap", "bytearray"}


def _is_container_expr(v: Optional[ast.AST]) -> bool:
    if isinstance(v, (ast.Dict, ast.List, ast.Set, ast.DictComp, ast.ListComp, ast.SetComp)):
        return True
    return isinstance(v, ast.Call) and call_attr(v) in MUTABLE_CTORS


def _bindings(body: List[ast.stmt]) -> Dict[str, ast.AST]:
    out: Dict[str, ast.AST] = {}
    for st in body:
        if isinstance(st, (ast.If, ast.Try)):
            for blk in (st.body, st.orelse, getattr(st, "finalbody", [])):
                out.update(_bindings(blk))
            continue
        pairs = [(t, st.value) for t in st.targets] if isinstance(st, ast.Assign) else [(st.target, st.value)] if isinstance(st, ast.AnnAssign) else []
        for t, v in pairs:
            if isinstance(t, ast.Name) and _is_container_expr(v):
                out[t.id] = st
    return out


def _local_names(fn: ast.AST) -> Set[str]:
    """Names that are local to *fn* (parameters and stores without a global declaration), nested scopes excluded."""
    a = fn.args
    out = {x.arg for x in a.posonlyargs + a.args + a.kwonlyargs}
    out |= {x.arg for x in (a.vararg, a.kwarg) if x is not None}
    globs: Set[str] = set()
    for n in walk_no_nested(fn):
        if isinstance(n, (ast.Global, ast.Nonlocal)):
            globs |= set(n.names)
        elif isinstance(n, ast.Name) and isinstance(n.ctx, (ast.Store, ast.Del)):
            out.add(n.id)
        elif isinstance(n, ast.ExceptHandler) and n.name:
            out.add(n.name)
        elif isinstance(n, (ast.Import, ast.ImportFrom)):
            out |= {(al.asname or al.name).split(".")[0] for al in n.names}
    return out - globs


def _cell_of(container: ast.AST) -> Optional[Tuple[str, ...]]:
    """('name', X) / ('attr', receiver, X) for the object a mutated container expression is reached from."""
    e = container
    while True:
        if isinstance(e, ast.Subscript):
            e = e.value
        elif isinstance(e, ast.Call) and isinstance(e.func, ast.Attribute) and e.func.attr in ("get", "setdefault"):
            e = e.func.value
        else:
            break
    if isinstance(e, ast.Name):
        return ("name", e.id)
    if isinstance(e, ast.Attribute) and isinstance(e.value, ast.Name):
        return ("attr", e.value.id, e.attr)
    return None


def _imported_names(repo: Repo, mod) -> List[Tuple[str, str, object]]:
    """(alias, name, origin module) for `from <module of the package> import name [as alias]`."""
    cached = getattr(mod, "_c04_imported", None)
    if cached is None:
        cached = []
        for alias, target in mod.imports.items():
            head, _, nm = target.rpartition(".")
            origin = repo.by_dotted.get(head)
            if origin is not None and origin is not mod and nm:
                cached.append((alias, nm, origin))
        mod._c04_imported = cached  # type: ignore[attr-defined]
    return cached


def _static_classes(mod) -> Dict[str, ast.ClassDef]:
    """Classes of the module that exist once per process (not created inside a function)."""
    return {c.name: c for c in ast.walk(mod.tree) if isinstance(c, ast.ClassDef) and not any(isinstance(a, FuncNode) for a in ancestors(c))}


def _class_of_receiver(recv: str, fn: ast.AST, classes: Dict[str, ast.ClassDef], local: Set[str]) -> Optional[str]:
    if recv in ("cls", "self"):
        for a in ancestors(fn):
            if isinstance(a, ast.ClassDef):
                return a.name if classes.get(a.name) is a else None
            if isinstance(a, FuncNode):
                return None
        return None
    return recv if recv in classes and recv not in local else None


def process_state_cells(repo: Repo, mod) -> Dict[Tuple[str, ...], Tuple[ast.AST, str]]:
    """Module-level names and class-level attributes of *mod* that hold process-lifetime mutable state:
    a module-level name bound to a container (or rebound under ``global``) / an attribute of a class that exists
    once per process, written by some function at run time (store, delete, mutator call, rebinding).
    Keys ('name', X) / ('attr', Class, X); value: (a write site, writer qualname)."""
    from .c04 import mutation_targets

    cached = getattr(mod, "_c04_state_cells", None)
    if cached is not None:
        return cached
    names = dict(_bindings(mod.tree.body))
    for alias, origin_name, origin in _imported_names(repo, mod):  # a container imported from another module of the package
        if origin_name in _bindings(origin.tree.body):
            names.setdefault(alias, origin.tree)
    classes = _static_classes(mod)
    cells: Dict[Tuple[str, ...], Tuple[ast.AST, str]] = {}
    for f in ast.walk(mod.tree):
        if not isinstance(f, FuncNode):
            continue
        local = _local_names(f)
        for n in walk_no_nested(f):
            if isinstance(n, ast.Global):
                for nm in n.names:
                    cells.setdefault(("name", nm), (n, qualname_of(f)))
            # rebinding a class attribute at run time: cls.X = ... / Class.X = ...
            tgts = list(n.targets) if isinstance(n, ast.Assign) else [n.target] if isinstance(n, (ast.AugAssign, ast.AnnAssign)) else []
            for t in tgts:
                if isinstance(t, ast.Attribute) and isinstance(t.value, ast.Name) and t.value.id != "self" and not t.attr.startswith("__"):
                    owner = _class_of_receiver(t.value.id, f, classes, local)
                    if owner is not None:
                        cells.setdefault(("attr", owner, t.attr), (n, qualname_of(f)))
        muts = list(mutation_targets(f))
        for c in calls_in(f):
            if isinstance(c.func, ast.Attribute) and c.func.attr == "pop":
                muts.append((stmt_of(c), c.func.value))
        for st, container in muts:
            cell = _cell_of(container)
            if cell is None:
                continue
            if cell[0] == "name" and cell[1] in names and cell[1] not in local:
                cells.setdefault(cell, (st, qualname_of(f)))
            elif cell[0] == "attr":
                owner = _class_of_receiver(cell[1], f, classes, local)
                # a container created in the class body is shared by the class and all its instances
                if owner is not None and cell[2] in _bindings(classes[owner].body):
                    cells.setdefault(("attr", owner, cell[2]), (st, qualname_of(f)))
    mod._c04_state_cells = cells  # type: ignore[attr-defined]
    return cells


SINK_MUTATORS = {"append", "extend", "add", "update", "insert", "appendleft", "clear", "discard", "remove", "__setitem__"}


def _write_only_use(n: ast.AST) -> bool:
    """The occurrence *n* (a Name or `recv.attr`) only designates the cell being written: a store / delete target, or
    the receiver of a mutator whose result is discarded (`X[k] = v`, `del X[k]`, `X.append(v)` as a statement).
    Such an occurrence brings no earlier state into the computation."""
    if isinstance(getattr(n, "ctx", None), (ast.Store, ast.Del)):
        return True
    cur, par = n, getattr(n, "_parent", None)
    while isinstance(par, ast.Subscript) and par.value is cur:
        if isinstance(par.ctx, (ast.Store, ast.Del)):
            return not isinstance(getattr(par, "_parent", None), ast.AugAssign)
        cur, par = par, getattr(par, "_parent", None)
    if cur is n and isinstance(par, ast.Attribute) and par.value is n and par.attr in SINK_MUTATORS:
        call = getattr(par, "_parent", None)
        return isinstance(call, ast.Call) and call.func is par and isinstance(getattr(call, "_parent", None), ast.Expr)
    return False


def no_process_state(repo: Repo, R: Report, sl: List[Tuple[str, str, ast.AST]]) -> None:
    """C04-D3a: nothing the identities are computed from lives longer than the call."""
    r = R.rule("C04-D3a-no-process-state", "no function reachable from the identity slice reads a module-level name or class attribute that holds state written at run time (memo, cache, counter): an identity is a function of the configuration, not of what was built or run earlier in the process; registries that resolve names to classes are exempt", 40)
    roots = [(repo.module(rel), f) for rel, _qn, f in sl]
    clo = repo.call_graph_closure(roots, stop=lambda m, n: m.rel.startswith(STATE_EXEMPT))
    for m, f, _path in sorted(clo.values(), key=lambda t: (t[0].rel, getattr(t[1], "lineno", 0))):
        if m.rel.startswith(STATE_EXEMPT):
            continue
        cells = process_state_cells(repo, m)
        qn = qualname_of(f)
        bad: List[Tuple[ast.AST, str, Tuple[ast.AST, str]]] = []
        imported = {alias: (nm, origin) for alias, nm, origin in _imported_names(repo, m)}
        if cells or imported:
            local = _local_names(f)
            classes = _static_classes(m)
            for n in walk_no_nested(f):
                if _write_only_use(n):
                    continue
                if isinstance(n, ast.Name) and ("name", n.id) in cells and n.id not in local:
                    bad.append((n, n.id, cells[("name", n.id)]))
                elif isinstance(n, ast.Name) and n.id in imported and n.id not in local and ("name", imported[n.id][0]) in process_state_cells(repo, imported[n.id][1]):
                    bad.append((n, n.id, process_state_cells(repo, imported[n.id][1])[("name", imported[n.id][0])]))
                elif isinstance(n, ast.Attribute) and isinstance(n.value, ast.Name):
                    owner = _class_of_receiver(n.value.id, f, classes, local)
                    if owner is not None and ("attr", owner, n.attr) in cells:
                        bad.append((n, f"{owner}.{n.attr}", cells[("attr", owner, n.attr)]))
        if not bad:
            R.ok(r, m.rel, qn, f"{qn}: no process-lifetime state read", "", getattr(f, "lineno", 0))
            continue
        seen: Set[str] = set()
        for n, label, (site, writer) in bad:
            if label in seen:
                continue
            seen.add(label)
            st = stmt_of(n)
            R.violation(r, m.rel, qn, norm(st)[:110], f"`{label}` is process-lifetime mutable state (written by `{norm(site)[:70]}` in {writer}) and is read while an identity is computed: what was built or run earlier in the interpreter decides the value that is hashed, a fresh process gives another identity", getattr(n, "lineno", 0))


# ---------------------------------------------------------------------------
# D4 node fields written into the structure that compute_pipeline_semantic_id hashes
# ---------------------------------------------------------------------------
def _const_keys(fn: ast.AST, key: Optional[ast.AST]) -> List[str]:
    """Values a subscript key can take: the constant, the constants a loop variable ranges over, else '*'."""
    if isinstance(key, ast.Constant):
        return [str(key.value)]
    if isinstance(key, ast.Name):
        out: List[str] = []
        for n in ast.walk(fn):
            tgt, it = (n.target, n.iter) if isinstance(n, (ast.For, ast.comprehension)) else (None, None)
            if isinstance(tgt, ast.Name) and tgt.id == key.id:
                if isinstance(it, (ast.Tuple, ast.List, ast.Set)) and it.elts and all(isinstance(e, ast.Constant) for e in it.elts):
                    out.extend(str(e.value) for e in it.elts)
                else:
                    return ["*"]
        vals = assigned_value(fn, key.id)
        if vals and all(isinstance(v, ast.Constant) for v in vals) and not out:
            return [str(v.value) for v in vals]
        if out and not vals:
            return out
    return ["*"]


def _dict_expr_keys(fn: ast.AST, e: ast.AST) -> Optional[List[Tuple[str, ast.AST]]]:
    """Keys an expression adds on top of the mapping(s) it copies: {**node, 'k': v} -> k; dict(node, k=v) -> k;
    dict(node) / node.copy() / copy.deepcopy(node) -> none.  None when *e* is not a recognisable copy-and-extend."""
    if isinstance(e, ast.IfExp):
        a, b = _dict_expr_keys(fn, e.body), _dict_expr_keys(fn, e.orelse)
        return None if a is None or b is None else a + b
    if isinstance(e, ast.Dict):
        out = []
        for k, v in zip(e.keys, e.values):
            if k is None:
                if isinstance(v, (ast.Dict, ast.IfExp)):
                    sub = _dict_expr_keys(fn, v)
                    out.extend(sub or [])
                continue
            out.extend((kk, e) for kk in _const_keys(fn, k))
        return out
    if isinstance(e, ast.Call) and call_attr(e) in ("dict", "copy", "deepcopy", "OrderedDict"):
        return [(kw.arg or "*", e) for kw in e.keywords]
    if isinstance(e, ast.BinOp) and isinstance(e.op, ast.BitOr):
        a, b = _dict_expr_keys(fn, e.left), _dict_expr_keys(fn, e.right)
        return (a or []) + (b or [])
    return None


def hashed_node_fields(fn: ast.AST) -> Optional[Dict[str, ast.AST]]:
    """Fields this function writes into the node mappings of the spec it passes to compute_pipeline_semantic_id,
    on top of what build_canonical_spec put there.  {field: writing statement}; None when no such call exists.

    Roles, not names: <S> is the argument of compute_pipeline_semantic_id; <L> is what <S> holds under 'nodes';
    a node mapping is an element appended to <L>, the element of the comprehension that builds <L>, a loop variable
    over <L> / <S>['nodes'], or <S>['nodes'][i]."""
    from .c04 import mutation_targets

    calls = [c for c in calls_in(fn) if call_attr(c) == "compute_pipeline_semantic_id" and c.args]
    if not calls:
        return None
    fields: Dict[str, ast.AST] = {}
    spec_names: Set[str] = set()
    list_names: Set[str] = set()
    node_names: Set[str] = set()
    elem_exprs: List[ast.AST] = []

    def add_fields(e: ast.AST) -> None:
        for k, site in _dict_expr_keys(fn, e) or []:
            fields.setdefault(k, stmt_of(site))

    def nodes_value(e: ast.AST) -> None:  # the expression stored under 'nodes'
        if isinstance(e, ast.Name):
            if e.id not in list_names:
                list_names.add(e.id)
                for v in assigned_value(fn, e.id):
                    nodes_value(v)
        elif isinstance(e, (ast.ListComp, ast.GeneratorExp)):
            elem_exprs.append(e.elt)
        elif isinstance(e, (ast.List, ast.Tuple)):
            elem_exprs.extend(e.elts)
        elif isinstance(e, ast.Call) and call_attr(e) in ("list", "tuple") and e.args:
            nodes_value(e.args[0])
        elif isinstance(e, ast.IfExp):
            nodes_value(e.body)
            nodes_value(e.orelse)

    def spec_value(e: ast.AST) -> None:
        if isinstance(e, ast.Name):
            if e.id not in spec_names:
                spec_names.add(e.id)
                for v in assigned_value(fn, e.id):
                    spec_value(v)
        elif isinstance(e, ast.Dict):
            for k, v in zip(e.keys, e.values):
                if k is None:
                    spec_value(v)
                elif isinstance(k, ast.Constant) and k.value == "nodes":
                    nodes_value(v)
        elif isinstance(e, ast.IfExp):
            spec_value(e.body)
            spec_value(e.orelse)
        elif isinstance(e, ast.Call) and call_attr(e) in ("dict", "copy", "deepcopy") and (e.args or isinstance(e.func, ast.Attribute)):
            spec_value(e.args[0] if e.args else e.func.value)  # type: ignore[union-attr]
            for kw in e.keywords:
                if kw.arg == "nodes":
                    nodes_value(kw.value)

    for c in calls:
        spec_value(c.args[0])

    def is_nodes_expr(e: ast.AST) -> bool:
        if isinstance(e, ast.Name):
            return e.id in list_names
        if isinstance(e, ast.Subscript) and isinstance(e.slice, ast.Constant) and e.slice.value == "nodes":
            return isinstance(e.value, ast.Name) and e.value.id in spec_names
        if isinstance(e, ast.Call) and call_attr(e) == "get" and isinstance(e.func, ast.Attribute) and e.args and isinstance(e.args[0], ast.Constant) and e.args[0].value == "nodes":
            return isinstance(e.func.value, ast.Name) and e.func.value.id in spec_names
        if isinstance(e, ast.Call) and call_attr(e) in ("enumerate", "list", "iter", "reversed") and e.args:
            return is_nodes_expr(e.args[0])
        return False

    def is_node_expr(e: ast.AST) -> bool:
        if isinstance(e, ast.Name):
            return e.id in node_names
        return isinstance(e, ast.Subscript) and not isinstance(e.slice, ast.Slice) and is_nodes_expr(e.value)

    changed = True
    while changed:
        before = (len(list_names), len(node_names), len(elem_exprs))
        for n in walk_no_nested(fn):
            if isinstance(n, ast.Assign) and len(n.targets) == 1 and isinstance(n.targets[0], ast.Name):
                if is_nodes_expr(n.value) and not isinstance(n.value, ast.Name):
                    list_names.add(n.targets[0].id)
                if is_node_expr(n.value):
                    node_names.add(n.targets[0].id)
            if isinstance(n, (ast.For, ast.comprehension)) and is_nodes_expr(n.iter):
                tgt = n.target
                if isinstance(tgt, ast.Tuple) and isinstance(n.iter, ast.Call) and call_attr(n.iter) == "enumerate" and len(tgt.elts) == 2:
                    tgt = tgt.elts[1]
                if isinstance(tgt, ast.Name):
                    node_names.add(tgt.id)
            if isinstance(n, ast.Call) and isinstance(n.func, ast.Attribute) and n.func.attr in ("append", "insert") and is_nodes_expr(n.func.value) and n.args:
                el = n.args[-1]
                if el not in elem_exprs:
                    elem_exprs.append(el)
        for el in list(elem_exprs):
            if isinstance(el, ast.Name) and el.id not in node_names:
                node_names.add(el.id)
        changed = before != (len(list_names), len(node_names), len(elem_exprs))
    for el in elem_exprs:
        if not isinstance(el, ast.Name):
            add_fields(el)
    for nm in node_names:
        for v in assigned_value(fn, nm):
            add_fields(v)
    muts = list(mutation_targets(fn))
    for st, container in muts:
        if not is_node_expr(container):
            continue
        keys: List[str] = []
        tgts = list(st.targets) if isinstance(st, (ast.Assign, ast.Delete)) else [st.target] if isinstance(st, (ast.AugAssign, ast.AnnAssign)) else []
        for t in tgts:
            for el in (t.elts if isinstance(t, (ast.Tuple, ast.List)) else [t]):
                if isinstance(el, ast.Subscript) and el.value is container:
                    keys.extend(_const_keys(fn, el.slice))
        for c in calls_in(st):
            if isinstance(c.func, ast.Attribute) and c.func.value is container:
                if c.func.attr == "update":
                    got = [k for a in c.args for k, _s in (_dict_expr_keys(fn, a) or [("*", a)])] + [kw.arg or "*" for kw in c.keywords]
                    keys.extend(got or ["*"])
                elif c.func.attr == "setdefault" and c.args:
                    keys.extend(_const_keys(fn, c.args[0]))
                else:
                    keys.append("*")
        for k in keys or ["*"]:
            fields.setdefault(k, st)
    for c in calls_in(fn):  # removal of a field
        if isinstance(c.func, ast.Attribute) and c.func.attr == "pop" and is_node_expr(c.func.value) and c.args:
            for k in _const_keys(fn, c.args[0]):
                fields.setdefault(k, stmt_of(c))
    return fields


def same_node_fields(repo: Repo, R: Report) -> None:
    r = R.rule("C04-D4b-same-node-fields", "inspection and run time hand compute_pipeline_semantic_id node mappings with the same fields: whatever one path writes into the canonical nodes before hashing (preprocessor_metadata) the other path writes too, and nothing else", 2)
    paths = ((BUILDER, "build_inspection_payload", "inspection"), (ORCH, "SemantivaOrchestrator.execute", "run time"))
    got: List[Dict[str, ast.AST]] = []
    for rel, qn, _label in paths:
        fields = hashed_node_fields(nfunc(repo, rel, qn))
        if not fields:
            return  # no enrichment located on this path: instance shortfall -> ANALYSIS-ERROR (C05-D2 reports a dropped enrichment)
        got.append(fields)
    for i, (rel, qn, label) in enumerate(paths):
        other_label = paths[1 - i][2]
        for k, site in sorted(got[i].items()):
            ok = k in got[1 - i] and k != "*"
            R.check(ok, r, rel, qn, f"node[{k!r}] written before compute_pipeline_semantic_id: `{norm(site)[:70]}`",
                    f"{label} writes node field {k!r} into the structure hashed by compute_pipeline_semantic_id, {other_label} does not ({other_label} writes {sorted(got[1 - i])}): the semantic id printed by inspect differs from the one on pipeline_start for configurations where that field is set" if k != "*" else
                    f"{label} writes a node field whose name is not a constant into the structure hashed by compute_pipeline_semantic_id: agreement with {other_label} cannot be established", getattr(site, "lineno", 0))


def run(repo: Repo, R: Report) -> None:
    # ------------------------------------------------------------------ D1 ambient inputs
    r_amb = R.rule("C04-D1-no-ambient-input", "no function of the identity slice reads a clock, random source, process/host/environment value, object address or salted hash; the run id (uuid4) never flows into an identity", 20)
    sl = identity_slice(repo)
    for rel, qn, f in sl:
        bad = None
        for c in calls_in(f):
            if _ambient_call(c):
                bad = c
                break
        for n in walk_no_nested(f):
            if isinstance(n, ast.Attribute) and dotted_name(n) in ("os.environ", "sys.argv"):
                bad = bad or n
        R.check(bad is None, r_amb, rel, qn, f"{qn}: no ambient source", f"`{norm(bad)[:60]}` makes the identity depend on time / process / host / hash seed" if bad is not None else "", f.lineno)
    # execute: ids are computed from canonical + processor metadata only; run_id (uuid4) feeds pipeline_start/SER identity only
    ex = repo.func(ORCH, "SemantivaOrchestrator.execute")
    ex_flow = flow_of(repo, ORCH, "SemantivaOrchestrator.execute")
    ex_nf = ex_flow.fn
    # the identities of pipeline_start: id computations that can be followed by the on_pipeline_start call (the per-node
    # ids of the SER records, computed from the instantiated nodes afterwards, are not configuration identities)
    starts = [u for c in calls_in(ex_nf) if call_attr(c) == "on_pipeline_start" for u in ex_flow.g.nodes_for(stmt_of(c))]
    if not starts:
        raise AnalysisError("execute(): no on_pipeline_start call found (anchor of the pipeline_start identities)")
    for c in calls_in(ex_nf):
        if call_attr(c) in ("compute_pipeline_id", "compute_pipeline_semantic_id", "compute_pipeline_config_id", "compute_node_semantic_id"):
            if not any(set(starts) & set(ex_flow.g.reach([u])) for u in ex_flow.g.nodes_for(stmt_of(c))):
                continue
            # transitive data dependence of the hashed arguments: per-run parameters and ambient calls must not feed them
            tainted: Set[str] = set()
            for a in list(c.args) + [kw.value for kw in c.keywords]:
                names, fed_by = ex_flow.feeds(a)
                tainted |= names & PER_RUN_PARAMS
                tainted |= {norm(k)[:40] for k in fed_by if _ambient_call(k)}
            R.check(not tainted, r_amb, ORCH, "SemantivaOrchestrator.execute", norm(c)[:70], f"a volatile / per-run value ({sorted(tainted)}) is hashed into an identity", c.lineno)

    # ------------------------------------------------------------------ D1b ambient values upstream of the slice
    no_ambient_upstream(repo, R, sl)

    # ------------------------------------------------------------------ D3a no process-lifetime state
    no_process_state(repo, R, sl)

    # ------------------------------------------------------------------ D2 key-order insensitivity
    r_ord = R.rule("C04-D2-key-order-insensitive", "every value that reaches a hash comes from json.dumps(sort_keys=True) or from a normaliser that rebuilds dicts over sorted keys; no list inside a hashed structure inherits mapping or set order", 10)
    n_sites = 0
    # the slice and every package function it reaches (a digest fed piecewise by an extracted / new helper is a hashing site too)
    d2_funcs = sl + [(ORCH, "SemantivaOrchestrator.execute", ex)]
    d2_seen = {id(f) for _rel, _qn, f in d2_funcs} | {id(n) for _rel, _qn, f in d2_funcs for n in ast.walk(f) if isinstance(n, FuncNode)}
    for m_c, f_c in _closure_of(repo, sl):
        if id(f_c) not in d2_seen and isinstance(f_c, FuncNode):
            d2_seen.add(id(f_c))
            d2_funcs.append((m_c.rel, qualname_of(f_c), f_c))
    for rel, qn, f in d2_funcs:
        mod_f = repo.module(rel)
        for c in calls_in(f):
            d = _qualified(mod_f, c)
            if d in ("hashlib.sha256", "uuid.uuid5") or _is_hasher_update(f, c, mod_f):
                n_sites += 1
                arg = c.args[-1] if c.args else None
                dumps = _dumps_feeding(f, arg, mod=mod_f)
                for jd in dumps:
                    sk = kwarg(jd, "sort_keys")
                    if isinstance(sk, ast.Name) and sk.id not in _local_names(f):  # a module-level literal constant
                        sk = module_constants(repo.module(rel)).get(sk.id, sk)
                    sorted_ok = isinstance(sk, ast.Constant) and sk.value is True
                    why = "json.dumps without sort_keys on an unnormalised value"
                    if not sorted_ok:
                        # normalised input: the value that reaches json.dumps was produced by a function that rebuilds every
                        # mapping over sorted keys at every depth (through mappings and lists)
                        sorted_ok, why = _normalised_before_dump(repo, rel, f, jd)
                    R.check(sorted_ok, r_ord, rel, qn, norm(jd)[:90], f"bytes that are hashed depend on mapping key order ({why}): reordering YAML keys changes the identity", jd.lineno)
    if n_sites < 6:
        raise AnalysisError(f"only {n_sites} hashing sites found in the identity slice (10 confirmed by reading)")
    for rel, qn in _normaliser_anchors(repo):
        f0 = repo.func(rel, qn)
        # normal form of the function and of the functions nested in it (accumulate-loops as comprehensions, no inlining:
        # the normaliser is recursive)
        f = normalize(repo, repo.module(rel), f0, inline=False, loops=True)
        for sub in [n for n in ast.walk(f) if isinstance(n, FuncNode) and n is not f]:
            _loops_in_place(repo, rel, sub)
        # the normaliser: the function itself, a function nested in it, or a function / method of the module it calls
        cands = [n for n in ast.walk(f) if isinstance(n, FuncNode)]
        for c in calls_in(f0):
            for tm, tf in repo.resolve_call(repo.module(rel), c):
                if tm.rel == rel and tf is not f0 and isinstance(tf, FuncNode):
                    cands.append(normalize(repo, tm, tf, inline=False, loops=True))
        dcs = [n for cand in cands for n in ast.walk(cand) if isinstance(n, ast.DictComp)]
        ok = bool(dcs) and all(isinstance(dc.generators[0].iter, ast.Call) and call_attr(dc.generators[0].iter) == "sorted" for dc in dcs)
        nf = next((n for n in cands if order_normaliser_gap(n) is None), None)
        R.check(nf is not None, r_ord, rel, qn, "normaliser descends through mappings and lists", "the RSCF normaliser does not reach every mapping (" + "; ".join(sorted({order_normaliser_gap(n) or "" for n in cands})) + "): key order of a mapping nested in a list changes the run-space spec id", f0.lineno)
        R.check(ok, r_ord, rel, qn, "dicts rebuilt over sorted(keys)", "the RSCF normaliser keeps mapping order", f0.lineno)
    # list order provenance in the sweep metadata (anchors by role, order by value provenance)
    sweep_list_order(repo, R, r_ord)
    cpc = repo.func(SEM, "compute_pipeline_config_id")
    R.check(_param_sorted_before_use(repo, SEM, "compute_pipeline_config_id"), r_ord, SEM, "compute_pipeline_config_id", "pairs sorted before hashing", "config id depends on the order pairs were collected", cpc.lineno)
    required_keys_sorted(repo, R, r_ord)
    # set iteration anywhere in the slice
    for rel, qn, f in sl:
        for n in walk_no_nested(f):
            it = n.iter if isinstance(n, (ast.For, ast.comprehension)) else None
            if it is not None and isinstance(it, ast.Call) and call_attr(it) in ("set", "frozenset"):
                R.violation(r_ord, rel, qn, norm(it)[:70], "iteration over a set inside the identity slice: order depends on PYTHONHASHSEED", getattr(it, "lineno", f.lineno))

    sorts_of_sets_are_total(repo, R, r_ord, sl)
    derived_node_lists_order(repo, R)
    no_container_rendering(repo, R, sl)
    no_code_object_text_in_sweep_definition(repo, R)
    declared_scalars_type_fixed(repo, R)

    # ------------------------------------------------------------------ D4 same functions, same fields on both paths
    r_same = R.rule("C04-D4-inspect-equals-runtime", "inspection and run time compute the three pipeline-level ids with the same functions of semantiva.metadata.semantic_id / graph_builder, from the canonical nodes enriched with the same metadata and from (node_uuid, node semantic id) pairs built alike; each id prefix is produced in exactly one function", 9)
    bip = repo.func(BUILDER, "build_inspection_payload")
    for rel, qn, f0 in ((BUILDER, "build_inspection_payload", bip), (ORCH, "SemantivaOrchestrator.execute", ex)):
        mod = repo.module(rel)
        f = nfunc(repo, rel, qn)  # private helpers inlined: the id functions may be called from an extracted helper
        for fname, home in (("compute_pipeline_semantic_id", SEM), ("compute_pipeline_config_id", SEM), ("compute_node_semantic_id", SEM)):
            cs = [c for c in calls_in(f) if call_attr(c) == fname]
            ok = bool(cs)
            for c in cs:
                t = repo.resolve_call(mod, c)
                ok = ok and len(t) == 1 and t[0][0].rel == home
            R.check(ok, r_same, rel, qn, f"{fname} -> {home}", f"{qn} does not compute this id with {home}:{fname} (a private re-implementation or a missing call)", f0.lineno)
        ok, why = _config_id_pairs(repo, rel, qn)
        R.check(ok, r_same, rel, qn, "semantic_pairs.append((node_uuid, node_semantic_id))", f"the pairs hashed into config_id are not (node uuid, node semantic id): {why}", f0.lineno)
    same_node_fields(repo, R)
    node_configs_pass_through(repo, R)
    for prefix, (home_rel, home_fn) in PREFIX_OWNERS.items():
        owners = []
        for mod, qn, f in repo.all_functions():
            if mod.rel.startswith("semantiva/examples/"):
                continue
            # a string literal that opens with the prefix - the prefix itself (`"p-" + h`, f"p-{h}") or a template that
            # starts with it (`"p-%s" % h`, `"p-{}".format(h)`) -, or a module-level constant holding such a literal
            # (hoisted), also when imported from its module
            holders = _prefix_holders(repo, mod, prefix)
            local = _local_names(f) if holders else set()
            for n in walk_no_nested(f):
                if _opens_with(n, prefix):
                    owners.append((mod.rel, qn))
                elif isinstance(n, ast.Name) and isinstance(n.ctx, ast.Load) and n.id in holders and n.id not in local:
                    owners.append((mod.rel, qn))
        owners = sorted(set(owners))
        R.check(owners == [(home_rel, home_fn)], r_same, home_rel, home_fn, f"prefix {prefix!r} produced only here", f"id prefix {prefix!r} is produced in {owners}: a second, private hashing of the same identity exists", 0)

    # ------------------------------------------------------------------ D5 commutative normalisation (C12 rules)
    from . import c12

    R.rule_prefix = "C04-D5/"
    try:
        c12.run(repo, R)
    finally:
        R.rule_prefix = ""
    # the sweep payload shown by inspect is derived from the same metadata
    from . import c05

    R.rule_prefix = "C04-D4/"
    try:
        c05.sweep_metadata(repo, R)
    finally:
        R.rule_prefix = ""


def _opens_with(v, prefix: str) -> bool:
    """*v* is a string literal whose text begins with *prefix* (the prefix alone or a format template that starts with it)."""
    return isinstance(v, ast.Constant) and isinstance(v.value, str) and v.value.startswith(prefix)


def _prefix_holders(repo: Repo, mod, prefix: str) -> Set[str]:
    """Names that denote a string opening with *prefix* in *mod*: module-level constants bound to it, here or imported."""
    out = {k for k, v in module_constants(mod).items() if _opens_with(v, prefix)}
    for alias, nm, origin in _imported_names(repo, mod):
        v = module_constants(origin).get(nm)
        if _opens_with(v, prefix):
            out.add(alias)
    return out


def _qualified(mod, c: ast.Call) -> str:
    """Dotted callee name with the module's import aliases resolved (``sha256`` -> ``hashlib.sha256``)."""
    d = call_name(c) or ""
    head, _, rest = d.partition(".")
    target = getattr(mod, "imports", {}).get(head) if mod is not None and head else None
    return (target + ("." + rest if rest else "")) if target else d


def _is_hasher_update(f: ast.AST, c: ast.Call, mod=None) -> bool:
    """``<h>.update(...)`` where <h> is a local bound to ``hashlib.<algo>(...)`` (found by what it is, not how it is called)."""
    if not (isinstance(c.func, ast.Attribute) and c.func.attr == "update" and isinstance(c.func.value, ast.Name)):
        return False
    vals = assigned_value(f, c.func.value.id)
    return bool(vals) and all(isinstance(v, ast.Call) and _qualified(mod, v).startswith("hashlib.") for v in vals)


ELEMENTWISE = {"list", "tuple", "set", "frozenset", "iter"}


def _elementwise_top(x: ast.AST, stop: ast.AST) -> ast.AST:
    """Climb from *x* through wrappers that keep the multiset of elements (list(x), tuple(x), a comprehension
    iterating x): the outermost such expression."""
    cur = x
    while True:
        par = getattr(cur, "_parent", None)
        if par is None or par is stop:
            return cur
        if isinstance(par, ast.Call) and isinstance(par.func, ast.Name) and par.func.id in ELEMENTWISE and par.args and par.args[0] is cur and len(par.args) == 1:
            cur = par
            continue
        if isinstance(par, ast.Starred) and isinstance(getattr(par, "_parent", None), (ast.List, ast.Tuple)) and len(par._parent.elts) == 1:  # [*x]
            cur = par._parent
            continue
        if isinstance(par, ast.comprehension) and par.iter is cur and not par.ifs:
            owner = getattr(par, "_parent", None)
            if isinstance(owner, (ast.ListComp, ast.GeneratorExp, ast.SetComp)) and len(owner.generators) == 1:
                cur = owner
                continue
        return cur


def _param_sorted_before_use(repo: Repo, rel: str, qualname: str) -> bool:
    """Every read of the function's first parameter is the operand of ``sorted(...)`` - or of a copy that an
    unconditional ``<copy>.sort(...)`` orders before anything else reads it: the order in which the caller
    collected the elements cannot reach what is hashed.  Decided on the normal form, by role (no local names)."""
    fn = nfunc(repo, rel, qualname, copyprop="all", keep=("_sha256_json",))
    if not fn.args.args:
        return False
    p = fn.args.args[0].arg
    loads = [x for x in ast.walk(fn) if isinstance(x, ast.Name) and x.id == p and isinstance(x.ctx, ast.Load)]
    if not loads:
        return False
    for x in loads:
        top = _elementwise_top(x, fn)
        par = getattr(top, "_parent", None)
        if isinstance(par, ast.Call) and isinstance(par.func, ast.Name) and par.func.id == "sorted" and par.args and par.args[0] is top:
            continue
        # <copy> = list(param); <copy>.sort(...)  as consecutive top-level statements of the body
        if top is not x and isinstance(par, (ast.Assign, ast.AnnAssign)) and par in fn.body:
            tgt = par.targets[0] if isinstance(par, ast.Assign) and len(par.targets) == 1 else getattr(par, "target", None)
            i = fn.body.index(par)
            nxt = fn.body[i + 1] if i + 1 < len(fn.body) else None
            if (isinstance(tgt, ast.Name) and isinstance(nxt, ast.Expr) and isinstance(nxt.value, ast.Call) and isinstance(nxt.value.func, ast.Attribute)
                    and nxt.value.func.attr == "sort" and isinstance(nxt.value.func.value, ast.Name) and nxt.value.func.value.id == tgt.id):
                continue
        return False
    return True


# ---------------------------------------------------------------------------
# value origins: where can the value of an expression come from?
# ---------------------------------------------------------------------------
ANY = "*"  # accessor: an element / a value under a key that is not a constant
SEQ_COPIES = {"list", "tuple", "iter"}  # keep the elements and their positions
SEQ_REORDER = {"sorted", "reversed", "set", "frozenset"}  # keep the elements, not their positions
MAP_COPIES = {"dict", "OrderedDict"}
Leaf = Tuple[ast.AST, Tuple[str, ...]]
GROWING_METHODS = {"append", "add", "appendleft", "insert", "extend", "extendleft", "update", "setdefault", "__setitem__", "__iadd__"}


def _acc(key: ast.AST) -> str:
    if isinstance(key, ast.Constant) and isinstance(key.value, str):
        return "f:" + key.value
    if isinstance(key, ast.Constant) and isinstance(key.value, int) and not isinstance(key.value, bool) and key.value >= 0:
        return f"i:{key.value}"
    return ANY


def _acc_may_equal(a: str, b: str) -> bool:
    return a == b or ANY in (a, b)


class Flow:
    """Demand-driven value-origin query on one function (normally a normal form).

    ``origins(e, path)`` answers: which expressions can the value ``e<path>`` be (an equal copy of)?  *path* is a
    sequence of accessors ('f:key' mapping field, 'i:n' position, '*' any element).  The answer is a set of leaves
    ``(root expression, remaining path)``: the value is what *root* evaluates to, read along the remaining path.
    Locals are followed through their reaching definitions (CFG, so a name reused for something else elsewhere does
    not pollute the answer), tuple unpacking, loop / comprehension targets (enumerate, zip, items), conditional
    expressions, copies (dict(x), list(x), x.copy(), {**x}, sorted(x)), literals and comprehensions, `.get(k, d)`,
    and through what is put into a container after its creation (append / extend / insert / add / update /
    setdefault / subscript stores / +=), also through a plain alias of the container.  A store ``x['k'] = v`` that
    every path to the use passes after the last definition of ``x`` replaces what ``x['k']`` held before.

    With ``identity=True`` the question is "which object is it" rather than "which value": a shallow copy is a new
    object whose children are the children of the original (that is how the query treats copies anyway), a deep copy
    is new at every depth.  ``feeds(e)`` is the transitive data dependence of *e* (parameters and calls)."""

    def __init__(self, fn: ast.AST, budget: int = 20000, identity: bool = False, elem_alias: bool = False):
        from ..cfg import CFG

        self.fn = fn
        self.budget0 = budget
        self.identity = identity  # track object identity: a deep copy is a new object at every depth
        self.elem_alias = elem_alias  # a loop variable over a local list is an alias of its elements (stores through it count)
        self.g = CFG(fn)
        self.budget = budget
        a = fn.args
        self.params = {x.arg for x in a.posonlyargs + a.args + a.kwonlyargs} | {x.arg for x in (a.vararg, a.kwarg) if x is not None}
        self._defs_of: Dict[str, List[object]] = {}
        self._rd: Dict[Tuple[str, int], Tuple[Tuple[int, ...], bool]] = {}
        self._mut: Optional[List[Tuple[str, str, ast.AST, ast.AST]]] = None

    # -- definitions ------------------------------------------------------------------------------------
    def _all_defs(self, name: str) -> List[object]:
        if name not in self._defs_of:
            out = []
            for n in self.g.nodes:
                a = n.ast
                if a is None:
                    continue
                tg: List[ast.AST] = []
                if n.kind == "stmt" and isinstance(a, ast.Assign):
                    tg = list(a.targets)
                elif n.kind == "stmt" and isinstance(a, (ast.AnnAssign, ast.AugAssign)):
                    tg = [a.target] if not (isinstance(a, ast.AnnAssign) and a.value is None) else []
                elif n.kind == "for" and isinstance(a, (ast.For, ast.AsyncFor)):
                    tg = [a.target]
                elif n.kind == "with" and isinstance(a, (ast.With, ast.AsyncWith)):
                    tg = [it.optional_vars for it in a.items if it.optional_vars is not None]
                elif n.kind == "except" and isinstance(a, ast.ExceptHandler):
                    if a.name == name:
                        out.append(n)
                    continue
                elif n.kind == "stmt" and isinstance(a, (ast.Import, ast.ImportFrom)):
                    if any((al.asname or al.name).split(".")[0] == name for al in a.names):
                        out.append(n)
                    continue
                elif n.kind == "stmt" and isinstance(a, FuncNode + (ast.ClassDef,)):
                    if a.name == name:
                        out.append(n)
                    continue
                if any(isinstance(x, ast.Name) and x.id == name and isinstance(x.ctx, ast.Store) for t in tg for x in ast.walk(t)):
                    out.append(n)
            self._defs_of[name] = out
        return self._defs_of[name]

    def reaching(self, name: str, use: int) -> Tuple[Tuple[int, ...], bool]:
        """(ids of the definitions of *name* that reach CFG node *use*, does the value at function entry reach it)."""
        key = (name, use)
        if key not in self._rd:
            defs = self._all_defs(name)
            ids = {d.id for d in defs}
            out = []
            for d in defs:
                blocked = ids - {d.id, use}
                # (CFG.reach expands a start node even when it is blocked: a redefinition that directly follows kills)
                seen = self.g.reach([t for t, _l in self.g.succ[d.id] if t not in blocked], blocked=blocked)
                if use in seen:
                    out.append(d.id)
            entry = use == self.g.entry or use in self.g.reach([self.g.entry], blocked=ids - {use})
            self._rd[key] = (tuple(out), entry)
        return self._rd[key]

    def uses_of(self, e: ast.AST) -> List[int]:
        st = stmt_of(e)
        ids = self.g.nodes_for(st)
        cur = st
        while not ids and cur is not None and cur is not self.fn:  # inside a nested def / a clause header: the enclosing statement
            cur = getattr(cur, "_parent", None)
            ids = self.g.nodes_for(cur) if isinstance(cur, ast.stmt) else []
        if not ids:
            raise AnalysisError(f"value-origin analysis: no CFG node for `{norm(st)[:60]}`")
        return ids

    # -- query ------------------------------------------------------------------------------------------
    def origins(self, e: ast.AST, path: Tuple[str, ...] = ()) -> Set[Leaf]:
        out: Set[Leaf] = set()
        self.budget = self.budget0  # per query
        for use in self.uses_of(e):
            out |= self._q(e, tuple(path), use, frozenset())
        return out

    def _q(self, e: Optional[ast.AST], path: Tuple[str, ...], use: int, stack: frozenset) -> Set[Leaf]:
        self.budget -= 1
        if self.budget < 0:
            raise AnalysisError("value-origin analysis: budget exhausted")
        if e is None:
            return set()
        q = lambda x, p: self._q(x, p, use, stack)  # noqa: E731
        leaf: Set[Leaf] = {(e, path)}
        if isinstance(e, ast.Name):
            return self._name(e, path, use, stack)
        if isinstance(e, (ast.IfExp,)):
            return q(e.body, path) | q(e.orelse, path)
        if isinstance(e, ast.BoolOp):
            return set().union(*[q(v, path) for v in e.values])
        if isinstance(e, ast.NamedExpr):
            return q(e.value, path)
        if isinstance(e, ast.Starred):
            return q(e.value, path)
        if isinstance(e, ast.Subscript):
            if isinstance(e.slice, ast.Slice):
                return q(e.value, tuple(ANY if p.startswith("i:") else p for p in path[:1]) + path[1:])
            return q(e.value, (_acc(e.slice),) + path)
        if isinstance(e, ast.Dict):
            if not path:
                return leaf
            res: Set[Leaf] = set()
            for k, v in zip(e.keys, e.values):
                if k is None:
                    res |= q(v, path)
                elif _acc(k) == path[0] and path[0] != ANY:
                    res = q(v, path[1:])  # a later entry of the same key replaces what came before
                elif _acc_may_equal(_acc(k), path[0]):
                    res |= q(v, path[1:])
            return res
        if isinstance(e, (ast.List, ast.Tuple, ast.Set)):
            if not path:
                return leaf
            if path[0].startswith("f:"):
                return leaf
            if path[0].startswith("i:") and not isinstance(e, ast.Set):
                n = int(path[0][2:])
                if n < len(e.elts) and not any(isinstance(x, ast.Starred) for x in e.elts[: n + 1]):
                    return q(e.elts[n], path[1:])
            res = set()
            for x in e.elts:
                res |= q(x.value, (ANY,) + path[1:]) if isinstance(x, ast.Starred) else q(x, path[1:])
            return res
        if isinstance(e, (ast.ListComp, ast.SetComp, ast.GeneratorExp)):
            return q(e.elt, path[1:]) if path and not path[0].startswith("f:") else leaf
        if isinstance(e, ast.DictComp):
            return q(e.value, path[1:]) if path else leaf
        if isinstance(e, ast.BinOp) and isinstance(e.op, (ast.Add, ast.BitOr)) and path:
            p = (ANY,) + path[1:] if path[0].startswith("i:") else path
            return q(e.left, p) | q(e.right, p)
        if isinstance(e, ast.Call):
            return self._call(e, path, use, stack)
        return leaf

    def _call(self, e: ast.Call, path: Tuple[str, ...], use: int, stack: frozenset) -> Set[Leaf]:
        q = lambda x, p: self._q(x, p, use, stack)  # noqa: E731
        leaf: Set[Leaf] = {(e, path)}
        f = e.func
        fname = f.id if isinstance(f, ast.Name) else None
        meth = f.attr if isinstance(f, ast.Attribute) else None
        dn = dotted_name(f) or ""
        unpos = tuple(ANY if p.startswith("i:") else p for p in path[:1]) + path[1:]
        if any(isinstance(a, ast.Starred) for a in e.args) or any(kw.arg is None for kw in e.keywords):
            return leaf
        if fname in SEQ_COPIES | SEQ_REORDER and not e.keywords or fname == "sorted":
            if not e.args:
                return leaf if not path else set()
            return q(e.args[0], path if fname in SEQ_COPIES else unpos) if path else leaf
        if fname in MAP_COPIES:
            if not path:
                return leaf
            res = q(e.args[0], path) if e.args else set()
            for kw in e.keywords:
                if "f:" + str(kw.arg) == path[0]:
                    res = q(kw.value, path[1:])
                elif path[0] == ANY:
                    res |= q(kw.value, path[1:])
            return res
        if meth == "copy" and not e.args and not e.keywords and dn != "copy.copy":
            return q(f.value, path) if path else leaf
        if dn in ("copy.deepcopy", "deepcopy") and self.identity:
            return leaf
        if dn in ("copy.copy", "copy.deepcopy", "deepcopy") and len(e.args) == 1:
            return q(e.args[0], path) if path else leaf
        if dn in ("cast", "typing.cast") and len(e.args) == 2:
            return q(e.args[1], path)
        if meth in ("get", "pop", "setdefault") and e.args and len(e.args) <= 2 and not e.keywords:
            res = q(f.value, (_acc(e.args[0]),) + path)
            if len(e.args) == 2:
                res |= q(e.args[1], path)
            return res
        if fname == "enumerate" and e.args and len(path) >= 2 and not path[0].startswith("f:"):
            return q(e.args[0], (ANY,) + path[2:]) if path[1] == "i:1" else leaf
        if fname == "zip" and len(path) >= 2 and not path[0].startswith("f:") and path[1].startswith("i:") and int(path[1][2:]) < len(e.args):
            return q(e.args[int(path[1][2:])], (ANY,) + path[2:])
        if meth == "items" and not e.args and len(path) >= 2:
            return q(f.value, (ANY,) + path[2:]) if path[1] == "i:1" else leaf
        if meth == "values" and not e.args and path:
            return q(f.value, (ANY,) + path[1:])
        return leaf

    @staticmethod
    def _target_path(target: ast.AST, name: str) -> Optional[Tuple[str, ...]]:
        if isinstance(target, ast.Name):
            return () if target.id == name else None
        if isinstance(target, ast.Starred):
            sub = Flow._target_path(target.value, name)
            return None if sub is None else (ANY,) + sub  # a list of some of the elements
        if isinstance(target, (ast.Tuple, ast.List)):
            starred = False
            for i, t in enumerate(target.elts):
                sub = Flow._target_path(t, name)
                if sub is not None:
                    if isinstance(t, ast.Starred):
                        return sub  # the elements of the starred name are elements of the value
                    return ((ANY,) if starred else (f"i:{i}",)) + sub
                starred = starred or isinstance(t, ast.Starred)
        return None

    def _name(self, e: ast.Name, path: Tuple[str, ...], use: int, stack: frozenset) -> Set[Leaf]:
        name = e.id
        # bound by an enclosing comprehension / lambda of the same statement?
        cur = e
        while True:
            par = getattr(cur, "_parent", None)
            if par is None or isinstance(par, ast.stmt) or cur is self.fn:
                break
            if isinstance(par, (ast.ListComp, ast.SetComp, ast.GeneratorExp, ast.DictComp)):
                for gen in reversed(par.generators):
                    tp = self._target_path(gen.target, name)
                    if tp is not None and cur is not gen.iter:
                        return self._q(gen.iter, (ANY,) + tp + path, use, stack)
                    if cur is gen:
                        pass
            if isinstance(par, ast.Lambda):
                a = par.args
                if name in {x.arg for x in a.posonlyargs + a.args + a.kwonlyargs}:
                    return {(e, path)}
            cur = par
        key = (name, path, use)
        if key in stack:
            return set()
        stack = stack | {key}
        ids, entry = self.reaching(name, use)
        out: Set[Leaf] = set()
        objs = set(ids) | ({-1} if entry else set())
        if entry and not (path and self._overwritten(name, path[0], use, -1)):
            out.add((e, path))  # parameter / global / builtin: the name itself is the origin
        for did in ids:
            if path and self._overwritten(name, path[0], use, did):
                continue
            d = self.g.nodes[did]
            a = d.ast
            if isinstance(a, (ast.Assign, ast.AnnAssign)):
                for t in (a.targets if isinstance(a, ast.Assign) else [a.target]):
                    tp = self._target_path(t, name)
                    if tp is not None:
                        out |= self._q(a.value, tp + path, did, stack)
            elif isinstance(a, ast.AugAssign):
                out |= self._name(a.target, path, did, stack) if isinstance(a.target, ast.Name) else {(a, path)}
                out |= self._q(a.value, path, did, stack) if path else {(a, path)}
            elif isinstance(a, (ast.For, ast.AsyncFor)):
                tp = self._target_path(a.target, name)
                out |= self._q(a.iter, (ANY,) + (tp or ()) + path, did, stack)
            else:
                out.add((a, path))
        if path:
            out |= self._stored_into(name, objs, path, stack, 0, use)
        return out

    def _overwritten(self, name: str, acc: str, use: int, did: int) -> bool:
        """Every path from the definition *did* of *name* (-1: function entry) to *use* that keeps that definition
        alive completes some plain ``name[<the constant key>] = v``: what the field held when the object was created
        cannot be what is read at *use* (the stores themselves are collected by _stored_into)."""
        if not acc.startswith("f:"):
            return False
        key = ("ow", name, acc, use, did)
        if key in self._rd:
            return self._rd[key]  # type: ignore[return-value]
        res = False
        defs = {d.id for d in self._all_defs(name)}
        starts = [self.g.entry] if did == -1 else [t for t, _l in self.g.succ[did]]
        edges = set()
        for nm, kind, site, st in self._mutations():
            if nm != name or kind != "store" or not isinstance(st, (ast.Assign, ast.AnnAssign)):
                continue
            if not (isinstance(site.value, ast.Name) and _acc(site.slice) == acc and (site is getattr(st, "target", None) or any(site is t for t in getattr(st, "targets", [])))):
                continue
            edges |= {(s_id, "n") for s_id in self.g.nodes_for(st) if s_id != use}
        if edges and use not in starts:
            res = use not in self.g.reach(starts, blocked=defs - {use}, blocked_edges=edges)
        self._rd[key] = res  # type: ignore[assignment]
        return res

    # -- transitive data dependence ----------------------------------------------------------------------------
    def feeds(self, e: ast.AST) -> Tuple[Set[str], List[ast.Call]]:
        """(names that are not defined in the function - parameters, globals -, calls) the value of *e* depends on,
        through locals, loop targets and what is stored into the containers it reads."""
        names: Set[str] = set()
        calls: List[ast.Call] = []
        seen: Set[Tuple[str, int]] = set()
        seen_expr: Set[Tuple[int, int]] = set()

        def expr(x: Optional[ast.AST], use: int) -> None:
            if x is None or (id(x), use) in seen_expr:
                return
            seen_expr.add((id(x), use))
            bound: Set[str] = set()
            for n in ast.walk(x):
                if isinstance(n, ast.comprehension):
                    bound |= {t.id for t in ast.walk(n.target) if isinstance(t, ast.Name)}
                elif isinstance(n, ast.Lambda):
                    bound |= {a.arg for a in n.args.posonlyargs + n.args.args + n.args.kwonlyargs}
            for n in ast.walk(x):
                if isinstance(n, ast.Call):
                    calls.append(n)
                if isinstance(n, ast.Name) and isinstance(n.ctx, ast.Load) and n.id not in bound:
                    name(n.id, use)

        def name(nm: str, use: int) -> None:
            if (nm, use) in seen:
                return
            seen.add((nm, use))
            ids, entry = self.reaching(nm, use)
            if entry:
                names.add(nm)
            for did in ids:
                a = self.g.nodes[did].ast
                if isinstance(a, (ast.Assign, ast.AnnAssign)):
                    expr(a.value, did)
                elif isinstance(a, ast.AugAssign):
                    expr(a.value, did)
                    name(nm, did)
                elif isinstance(a, (ast.For, ast.AsyncFor)):
                    expr(a.iter, did)
                elif isinstance(a, (ast.With, ast.AsyncWith)):
                    for it in a.items:
                        expr(it.context_expr, did)
            objs = set(ids) | ({-1} if entry else set())
            for mn, kind, site, st in self._mutations():
                if mn != nm:
                    continue
                for u in self._same_object(nm, objs, st):
                    if kind == "alias":
                        continue
                    if kind in ("store", "estore"):
                        expr(getattr(st, "value", None), u)
                        cur = site
                        while isinstance(cur, ast.Subscript):
                            expr(cur.slice, u)
                            cur = cur.value
                    elif site.func.attr in GROWING_METHODS:
                        for a in list(site.args) + [kw.value for kw in site.keywords]:
                            expr(a, u)

        for use in self.uses_of(e):
            expr(e, use)
        return names, calls

    # -- what is put into a container after its creation ---------------------------------------------------
    def _mutations(self) -> List[Tuple[str, str, ast.AST, ast.AST]]:
        """(container name, kind, site, statement): method calls on a local and subscript stores rooted at a local."""
        if self._mut is None:
            out: List[Tuple[str, str, ast.AST, ast.AST]] = []
            for n in walk_no_nested(self.fn):
                if isinstance(n, ast.Call) and isinstance(n.func, ast.Attribute) and isinstance(n.func.value, ast.Name):
                    out.append((n.func.value.id, "call", n, stmt_of(n)))
                tg = list(n.targets) if isinstance(n, ast.Assign) else [n.target] if isinstance(n, (ast.AnnAssign, ast.AugAssign)) and getattr(n, "value", None) is not None else []
                for t in tg:
                    for el in (t.elts if isinstance(t, (ast.Tuple, ast.List)) else [t]):
                        root = el
                        while isinstance(root, ast.Subscript):
                            root = root.value
                        if isinstance(el, ast.Subscript) and isinstance(root, ast.Name):
                            out.append((root.id, "store", el, n))
                if isinstance(n, ast.Assign) and isinstance(n.value, ast.Name) and len(n.targets) == 1 and isinstance(n.targets[0], ast.Name):
                    out.append((n.value.id, "alias", n.targets[0], n))
            if self.elem_alias:
                # `for <t> in <X>` / `for i, <t> in enumerate(<X>)`: what is stored into / put into <t> inside the loop is
                # stored into an element of <X> (kinds "estore" / "ecall")
                elem_of: Dict[str, Set[str]] = {}
                for n in walk_no_nested(self.fn):
                    if not isinstance(n, (ast.For, ast.AsyncFor)):
                        continue
                    it, tgt = n.iter, n.target
                    if isinstance(it, ast.Call) and isinstance(it.func, ast.Name) and it.func.id == "enumerate" and it.args and isinstance(tgt, ast.Tuple) and len(tgt.elts) == 2:
                        it, tgt = it.args[0], tgt.elts[1]
                    while isinstance(it, ast.Call) and isinstance(it.func, ast.Name) and it.func.id in ("list", "tuple", "reversed", "iter") and len(it.args) == 1:
                        it = it.args[0]
                    if isinstance(it, ast.Name) and isinstance(tgt, ast.Name):
                        elem_of.setdefault(tgt.id, set()).add(it.id)
                for nm, kind, site, st in list(out):
                    if kind in ("store", "call") and nm in elem_of:
                        out += [(x, "e" + kind, site, st) for x in sorted(elem_of[nm])]
            self._mut = out
        return self._mut

    def _same_object(self, name: str, objs: Set[int], st: ast.AST) -> List[int]:
        """CFG nodes of statement *st* at which *name* can denote an object created by one of the definitions *objs*."""
        out = []
        for u in self.g.nodes_for(st):
            ids, entry = self.reaching(name, u)
            if set(ids) & objs or (entry and -1 in objs):
                out.append(u)
        return out

    def _can_precede(self, u: int, use: int) -> bool:
        """CFG node *u* can have completed before node *use* is evaluated."""
        key = ("after", u)
        if key not in self._rd:
            self._rd[key] = self.g.reach([t for t, _l in self.g.succ[u]])  # type: ignore[assignment]
        return use in self._rd[key]  # type: ignore[operator]

    def _stored_into(self, name: str, objs: Set[int], path: Tuple[str, ...], stack: frozenset, depth: int, use: Optional[int] = None) -> Set[Leaf]:
        out: Set[Leaf] = set()
        for nm, kind, site, st in self._mutations():
            if nm != name:
                continue
            uses = self._same_object(name, objs, st)
            if use is not None and kind != "alias":
                # what is put into the container only after the value was read cannot be what was read
                uses = [u for u in uses if self._can_precede(u, use)]
            if not uses:
                continue
            full_path = path
            for u in uses:
                q = lambda x, p: self._q(x, p, u, stack)  # noqa: E731
                path = full_path
                if kind in ("estore", "ecall"):  # through a loop variable: one level below the list
                    if path[0].startswith("f:") or len(path) < 2:
                        continue
                    path = path[1:]
                if kind == "alias":
                    if depth < 3:
                        alias_defs = {d.id for d in self._all_defs(site.id) if d.ast is st}
                        out |= self._stored_into(site.id, alias_defs, path, stack, depth + 1, use)
                elif kind in ("store", "estore"):
                    accs: List[str] = []
                    cur = site
                    while isinstance(cur, ast.Subscript):
                        accs.append(ANY if isinstance(cur.slice, ast.Slice) else _acc(cur.slice))
                        cur = cur.value
                    accs.reverse()
                    if len(accs) <= len(path) and all(_acc_may_equal(a, b) for a, b in zip(accs, path)):
                        if isinstance(st, ast.AugAssign):
                            out.add((st, path[len(accs):]))
                        elif isinstance(st, ast.Assign) and any(site is t for t in st.targets) or isinstance(st, ast.AnnAssign):
                            out |= q(st.value, path[len(accs):])
                        else:  # element of a tuple target
                            out.add((st, path[len(accs):]))
                else:
                    m = site.func.attr
                    args = site.args
                    elemwise = not path[0].startswith("f:")
                    if m in ("append", "add", "appendleft") and len(args) == 1 and elemwise:
                        out |= q(args[0], path[1:])
                    elif m == "insert" and len(args) == 2 and elemwise:
                        out |= q(args[1], path[1:])
                    elif m in ("extend", "extendleft", "__iadd__") and len(args) == 1 and elemwise:
                        out |= q(args[0], (ANY,) + path[1:])
                    elif m == "update":
                        for a in args:
                            out |= q(a, (ANY,) + path[1:] if elemwise and path[0] != ANY else path)
                        for kw in site.keywords:
                            if kw.arg is None:
                                out |= q(kw.value, path)
                            elif _acc_may_equal("f:" + kw.arg, path[0]):
                                out |= q(kw.value, path[1:])
                    elif m == "setdefault" and len(args) == 2 and _acc_may_equal(_acc(args[0]), path[0]):
                        out |= q(args[1], path[1:])
                    elif m == "__setitem__" and len(args) == 2 and _acc_may_equal(_acc(args[0]), path[0]):
                        out |= q(args[1], path[1:])
        return out


def flow_of(repo: Repo, rel: str, qualname: str, identity: bool = False, elem_alias: bool = False, **nf_opts) -> Flow:
    """The (cached) value-origin analysis of the normal form of a function."""
    cache = repo.__dict__.setdefault("_c04_flow_cache", {})
    key = (rel, qualname, identity, elem_alias, tuple(sorted(nf_opts.items())))
    if key not in cache:
        cache[key] = Flow(nfunc(repo, rel, qualname, **nf_opts), identity=identity, elem_alias=elem_alias)
    return cache[key]


def _show_leaf(leaf: Leaf) -> str:
    root, path = leaf
    txt = norm(root)[:50]
    for p in path:
        txt += "[*]" if p == ANY else f"[{p[2:]!r}]" if p.startswith("f:") else f"[{p[2:]}]"
    return txt


def _canonical_node_uuid(flow: Flow, leaf: Leaf) -> bool:
    """The leaf is <canonical spec>['nodes'][i]['node_uuid'] with <canonical spec> the first result of
    build_canonical_spec(...) or the canonical spec handed in by the caller (parameter ``canonical_spec``)."""
    root, path = leaf
    if len(path) < 3 or path[-1] != "f:node_uuid" or path[-2].startswith("f:") or path[-3] != "f:nodes":
        return False
    head = path[:-3]
    if isinstance(root, ast.Call) and call_attr(root) == "build_canonical_spec":
        return head == ("i:0",)
    return isinstance(root, ast.Name) and root.id == "canonical_spec" and root.id in flow.params and head == ()


def _config_id_pairs(repo: Repo, rel: str, qualname: str) -> Tuple[bool, str]:
    """The sequence handed to compute_pipeline_config_id holds exactly (canonical node uuid, node semantic id) pairs.

    Decided on the normal form by value origin (no local names, no statement shapes): every element that can be in
    the argument is a 2-tuple; every value its first component can take is the 'node_uuid' field of a node of the
    canonical spec (result of build_canonical_spec / the caller's canonical_spec) or the falsy "no uuid" default;
    every value its second component can take is compute_node_semantic_id(...) or a constant marker string."""
    flow = flow_of(repo, rel, qualname)
    fn = flow.fn
    calls = [c for c in calls_in(fn) if call_attr(c) == "compute_pipeline_config_id"]
    if len(calls) != 1:
        return False, "no single compute_pipeline_config_id(<pairs>) call"
    arg = calls[0].args[0] if calls[0].args else kwarg(calls[0], "pairs")
    if arg is None:
        return False, "compute_pipeline_config_id called without the pairs"
    elems = flow.origins(arg, (ANY,))
    if not elems:
        return False, "nothing is put into the pairs"
    for root, path in sorted(elems, key=lambda l: getattr(l[0], "lineno", 0)):
        if path or not (isinstance(root, ast.Tuple) and len(root.elts) == 2 and not any(isinstance(x, ast.Starred) for x in root.elts)):
            return False, f"element `{_show_leaf((root, path))}` is not a (node uuid, node semantic id) 2-tuple"
        a, b = root.elts
        firsts = flow.origins(a)
        for leaf in sorted(firsts, key=_show_leaf):
            r0, p0 = leaf
            if isinstance(r0, ast.Constant) and not p0 and not r0.value:
                continue  # the "node has no uuid" default
            if not _canonical_node_uuid(flow, leaf):
                return False, f"first component `{norm(a)[:50]}` is not read from the canonical node's 'node_uuid' (it can be `{_show_leaf(leaf)}`)"
        if not any(_canonical_node_uuid(flow, leaf) for leaf in firsts):
            return False, f"first component `{norm(a)[:50]}` is never the canonical node's 'node_uuid'"
        seconds = flow.origins(b)
        is_id = lambda l: isinstance(l[0], ast.Call) and not l[1] and call_attr(l[0]) == "compute_node_semantic_id"  # noqa: E731
        is_marker = lambda l: isinstance(l[0], ast.Constant) and not l[1] and isinstance(l[0].value, str)  # noqa: E731
        wrong = [l for l in seconds if not (is_id(l) or is_marker(l))]
        if wrong or not any(is_id(l) for l in seconds):
            return False, f"second component `{norm(b)[:50]}` is not compute_node_semantic_id(...) or a constant marker" + (f" (it can be `{_show_leaf(sorted(wrong, key=_show_leaf)[0])}`)" if wrong else "")
    return True, ""


def _loops_in_place(repo: Repo, rel: str, sub: ast.AST) -> None:
    """Replace the body of the nested def *sub* (inside a detached normal form) by its own loops=True normal form."""
    nf = normalize(repo, repo.module(rel), sub, inline=False, loops=True)
    sub.body = nf.body
    from ..engine import _attach_parents

    par = getattr(sub, "_parent", None)
    _attach_parents(sub)
    sub._parent = par  # type: ignore[attr-defined]


def order_normaliser_gap(fn: ast.AST) -> Optional[str]:
    """None when *fn* is a key-order normaliser: called on v it returns, for a mapping, a dict rebuilt over
    ``sorted(...)`` of its keys with the values normalised recursively, and for a list, the list of the recursively
    normalised items - so no mapping at any depth (also below lists) keeps insertion order.  Otherwise the reason."""
    pos = [a.arg for a in fn.args.args] if isinstance(fn, FuncNode) else []
    if pos and pos[0] in ("self", "cls") and isinstance(getattr(fn, "_parent", None), ast.ClassDef):
        pos = pos[1:]  # a method: the value is the first parameter after the receiver
    if not pos:
        return "not a function of one value"
    v = pos[0]
    name = fn.name

    def is_self_call(c: ast.AST) -> bool:
        if not isinstance(c, ast.Call):
            return False
        if isinstance(c.func, ast.Name):
            return c.func.id == name
        return isinstance(c.func, ast.Attribute) and c.func.attr == name and isinstance(c.func.value, ast.Name) and c.func.value.id in ("self", "cls")

    def recursive(e: ast.AST) -> bool:
        return any(is_self_call(c) for c in ast.walk(e))

    def over_param_sorted(it: ast.AST) -> bool:
        return isinstance(it, ast.Call) and isinstance(it.func, ast.Name) and it.func.id == "sorted" and bool(it.args) and v in {x.id for x in ast.walk(it.args[0]) if isinstance(x, ast.Name)}

    dict_ok = list_ok = False
    for n in walk_no_nested(fn):
        if isinstance(n, ast.DictComp):
            if not (len(n.generators) == 1 and over_param_sorted(n.generators[0].iter)):
                return f"{name}: a mapping is rebuilt in insertion order"
            if recursive(n.value):
                dict_ok = True
        elif isinstance(n, ast.Dict) and any(k is None for k in n.keys):
            return f"{name}: a mapping is copied in insertion order"
        elif isinstance(n, (ast.ListComp, ast.GeneratorExp)) and len(n.generators) == 1:
            it = n.generators[0].iter
            if isinstance(it, ast.Name) and it.id == v and recursive(n.elt) and not n.generators[0].ifs:
                list_ok = True
        elif isinstance(n, ast.Call) and isinstance(n.func, ast.Name) and n.func.id == "map" and len(n.args) == 2:
            if is_self_call(ast.Call(func=n.args[0], args=[], keywords=[])) and isinstance(n.args[1], ast.Name) and n.args[1].id == v:
                list_ok = True  # map(<itself>, v): every item normalised, in order
    if not dict_ok:
        return f"{name}: mappings are not rebuilt over sorted keys with normalised values"
    if not list_ok:
        return f"{name} does not descend into lists - a mapping inside a list keeps its key order"
    return None


def _normalised_before_dump(repo: Repo, rel: str, f: ast.AST, jd: ast.Call) -> Tuple[bool, str]:
    """The first argument of the json.dumps call *jd* is, on every path, the result of a key-order normaliser."""
    from ..cfg import CFG, reaching_defs

    a0 = jd.args[0] if jd.args else None
    if a0 is None:
        return False, "json.dumps without a value"
    vals: List[ast.AST] = [a0]
    if isinstance(a0, ast.Name):
        g = CFG(f, may_raise=lambda p: set())
        uses = g.nodes_for(stmt_of(jd))
        defs = reaching_defs(g, a0.id, uses[0]) if uses else []
        vals = [d.ast.value for d in defs if isinstance(d.ast, (ast.Assign, ast.AnnAssign)) and getattr(d.ast, "value", None) is not None]
        if not vals or len(vals) != len(defs):
            return False, f"json.dumps without sort_keys on `{a0.id}`, which is not the result of a key-order normaliser"
    mod = repo.module(rel)
    for val in vals:
        if not isinstance(val, ast.Call):
            return False, f"json.dumps without sort_keys on an unnormalised value `{norm(val)[:50]}`"
        target = None
        if isinstance(val.func, ast.Name):
            target = next((n for n in ast.walk(f) if isinstance(n, FuncNode) and n is not f and n.name == val.func.id), None) or mod.defs.get(val.func.id)
        else:  # a method of the same class / a function reached through the module
            res = [tf for tm, tf in repo.resolve_call(mod, val) if tm.rel == rel]
            target = res[0] if len(res) == 1 else None
        if not isinstance(target, FuncNode):
            return False, f"json.dumps without sort_keys on the result of `{norm(val.func)[:40]}`, which is not a function of this module"
        gap = order_normaliser_gap(normalize(repo, mod, target, inline=False, loops=True))
        if gap is not None:
            return False, f"json.dumps without sort_keys, and {gap}"
    return True, ""


def _dumps_feeding(f: ast.AST, arg: Optional[ast.AST], depth: int = 0, mod=None) -> List[ast.Call]:
    """json.dumps calls whose result flows into *arg* (through locals, .encode(), f-strings, +)."""
    if arg is None or depth > 3:
        return []
    out = []
    for c in ast.walk(arg):
        if isinstance(c, ast.Call) and _qualified(mod, c) == "json.dumps":
            out.append(c)
    for nm in {x.id for x in ast.walk(arg) if isinstance(x, ast.Name)}:
        for v in assigned_value(f, nm):
            out.extend(_dumps_feeding(f, v, depth + 1, mod))
    return out


# ---------------------------------------------------------------------------
# round 3: D1b ambient values upstream of the identities, D2b textual rendering of containers, D2 total orders
# ---------------------------------------------------------------------------
MESSAGE_METHODS = {"debug", "info", "warning", "warn", "error", "exception", "critical", "log"}


def _hashes_directly(mod, f: ast.AST) -> bool:
    return any(_qualified(mod, c) in ("hashlib.sha256", "hashlib.sha1", "hashlib.md5", "hashlib.blake2b", "uuid.uuid5", "uuid.uuid3") or _is_hasher_update(f, c, mod) for c in calls_in(f, include_nested=True))


def _reaches_hash(repo: Repo, tm, tf: ast.AST) -> bool:
    """Does *tf* (or a package function it calls, at any depth) compute a digest?"""
    cache = repo.__dict__.setdefault("_c04_reaches_hash", {})
    if id(tf) not in cache:
        cache[id(tf)] = any(_hashes_directly(m, f) for m, f, _p in repo.call_graph_closure([(tm, tf)]).values() if isinstance(f, FuncNode))
    return cache[id(tf)]


def display_roots(repo: Repo) -> Set[Tuple[str, str]]:
    """The functions of the inspection builder that only shape what the payload *shows* (by role, not by name): the public
    entry point itself, and every function of its file it calls whose result feeds no argument of a digest-computing
    call there and that (with the functions of the file it calls) computes no digest itself - today the builder of the
    sanitised sweep block and the collector of the required context keys."""
    cache = repo.__dict__.setdefault("_c04_display_roots", {})
    if "v" in cache:
        return cache["v"]
    out: Set[Tuple[str, str]] = set()
    mod = repo.module(BUILDER)
    for entry in PUBLIC_ENTRIES[BUILDER]:
        f0 = repo.maybe_func(BUILDER, entry)
        if f0 is None:
            raise AnalysisError(f"identity slice anchor vanished: {BUILDER}:{entry}")
        out.add((BUILDER, entry))
        flow = flow_of(repo, BUILDER, entry, inline=False)
        fn = flow.fn
        local: List[Tuple[ast.Call, ast.AST]] = []  # calls to functions of the file
        feeding: Set[int] = set()  # calls whose value feeds an argument of a digest-computing call
        for c in calls_in(fn):
            try:
                targets = [(tm, tf) for tm, tf in repo.resolve_call(mod, c) if isinstance(tf, FuncNode)]
            except AnalysisError:
                targets = []
            if _qualified(mod, c) in ("hashlib.sha256", "uuid.uuid5") or any(_reaches_hash(repo, tm, tf) for tm, tf in targets):
                for a in list(c.args) + [kw.value for kw in c.keywords]:
                    feeding |= {id(k) for k in flow.feeds(a)[1]}
            for tm, tf in targets:
                if tm.rel == BUILDER and tm.defs.get(qualname_of(tf)) is tf:
                    local.append((c, tf))
        for c, tf in local:
            if any(id(c2) in feeding for c2, tf2 in local if tf2 is tf):
                continue
            same_file = [f for m, f, _p in repo.call_graph_closure([(mod, tf)], stop=lambda m, n: m.rel != BUILDER).values() if m.rel == BUILDER and isinstance(f, FuncNode)]
            if any(_hashes_directly(mod, f) for f in same_file):
                continue
            out.add((BUILDER, qualname_of(tf)))
    cache["v"] = out
    return out


def _message_context(n: ast.AST, fn: ast.AST) -> bool:
    """*n* only contributes to a diagnostic text: it sits inside a raise / assert message, a logger or warnings call
    or the constructor of an exception."""
    for a in ancestors(n):
        if a is fn:
            return False
        if isinstance(a, ast.Raise):
            return True
        if isinstance(a, ast.Assert) and a.msg is not None and any(x is n for x in ast.walk(a.msg)):
            return True
        if isinstance(a, ast.Call):
            if isinstance(a.func, ast.Attribute) and a.func.attr in MESSAGE_METHODS and not any(x is n for x in ast.walk(a.func)):
                return True
            nm = call_attr(a) or ""
            if nm.endswith(("Error", "Exception", "Warning")) and not any(x is n for x in ast.walk(a.func)):
                return True
    return False


AMBIENT_EXEMPT = ("semantiva/logger/", "semantiva/exceptions/")  # what these return is diagnostic text only


def _closure_of(repo: Repo, sl: List[Tuple[str, str, ast.AST]], exempt: Tuple[str, ...] = STATE_EXEMPT):
    roots = [(repo.module(rel), f) for rel, _qn, f in sl]
    clo = repo.call_graph_closure(roots, stop=lambda m, n: m.rel.startswith(exempt))
    return [(m, f) for m, f, _path in sorted(clo.values(), key=lambda t: (t[0].rel, getattr(t[1], "lineno", 0))) if not m.rel.startswith(exempt)]


def _plain_name_targets(st: ast.AST) -> Optional[Set[str]]:
    """Names bound by *st* when it binds nothing but plain local names (assignment, loop header, with-as); else None."""
    tgts: List[ast.AST] = []
    if isinstance(st, ast.Assign):
        tgts = list(st.targets)
    elif isinstance(st, (ast.AnnAssign, ast.AugAssign)):
        tgts = [st.target]
    elif isinstance(st, (ast.For, ast.AsyncFor)):
        tgts = [st.target]
    elif isinstance(st, (ast.With, ast.AsyncWith)):
        tgts = [it.optional_vars for it in st.items if it.optional_vars is not None]
    else:
        return None
    out: Set[str] = set()
    for t in tgts:
        for el in ast.walk(t):
            if isinstance(el, (ast.Attribute, ast.Subscript)):
                return None
            if isinstance(el, ast.Name):
                out.add(el.id)
    return out


def ambient_escape(fn: ast.AST, call: ast.Call) -> Optional[ast.AST]:
    """The statement through which the value of the ambient call *call* leaves diagnostic use in *fn*: the value (or a
    local computed from it, followed to a fixpoint, also into nested defs that capture the local) is returned, stored
    into an attribute / container, passed to a call that is not a logger / exception, or decides a branch.
    None when it only ever reaches log / exception texts (timing a build for a debug line is not an identity input)."""
    tainted: Set[str] = set()
    while True:
        before = len(tainted)
        for n in ast.walk(fn):
            hit = n is call or (isinstance(n, ast.Name) and isinstance(n.ctx, ast.Load) and n.id in tainted)
            if not hit or _message_context(n, fn):
                continue
            st = stmt_of(n)
            names = _plain_name_targets(st)
            in_header = isinstance(st, (ast.For, ast.AsyncFor)) and any(x is n for x in ast.walk(st.iter)) or isinstance(st, (ast.With, ast.AsyncWith)) and any(x is n for it in st.items for x in ast.walk(it.context_expr))
            in_value = isinstance(st, (ast.Assign, ast.AnnAssign, ast.AugAssign)) and st.value is not None and any(x is n for x in ast.walk(st.value))
            if names is not None and (in_header or in_value):
                tainted |= names
                continue
            return st
        if len(tainted) == before:
            return None


def no_ambient_upstream(repo: Repo, R: Report, sl: List[Tuple[str, str, ast.AST]]) -> None:
    """C04-D1b: the functions the identity slice calls (node preprocessing, the sweep class factory, class / node
    factories, the inspection builder) hand it nothing that depends on the process."""
    r = R.rule("C04-D1b-no-ambient-upstream", "no function reachable from the identity slice lets a clock / random / process / object-address / salted-hash value (hash() of text, id(), uuid4, time, os.environ ...) leave it other than inside a log or exception text: what these functions return or attach to the classes they build (names, qualnames, metadata) is hashed into node uuids and ids, so it must be the same in every process", 40)
    in_slice = {id(f) for _rel, _qn, f in sl}
    # (the registry package is exempt from the process-state rule D3a - its tables resolve names to classes - but not from
    # this one: the canonicaliser passes every node's parameters through the registry's parameter resolution and hashes
    # what comes back, so an object address / clock / salted hash used there decides node uuids like anywhere else)
    for m, f in _closure_of(repo, sl, exempt=AMBIENT_EXEMPT):
        if id(f) in in_slice or getattr(f, "name", "") in ("__hash__", "__eq__"):
            continue  # the slice itself: C04-D1 (no ambient call at all)
        qn = qualname_of(f)
        bad: Optional[Tuple[ast.Call, ast.AST]] = None
        for c in calls_in(f, include_nested=True):
            if not _ambient_call(c):
                continue
            owner = next((a for a in ancestors(c) if isinstance(a, FuncNode)), f)
            if getattr(owner, "name", "") in ("__hash__", "__eq__"):
                continue
            esc = ambient_escape(f, c)
            if esc is not None:
                bad = (c, esc)
                break
        if bad is None:
            R.ok(r, m.rel, qn, f"{qn}: no ambient value leaves the function", "", getattr(f, "lineno", 0))
        else:
            c, esc = bad
            alias = " - an object address also tells one shared container (a YAML alias `*a` used twice) from two equal ones (the same value spelled out), a difference the configuration's meaning does not have" if call_name(c) == "id" else ""
            R.violation(r, m.rel, qn, norm(esc)[:110], f"`{norm(c)[:60]}` is a process-dependent value (hash seed / clock / address / environment{alias}) and it leaves {qn} through `{norm(esc)[:70]}`; {qn} is reachable from the identity slice (processor_ref, preprocessor metadata and node parameters are hashed into node uuid, pipeline id, semantic id and config id): a fresh process or another PYTHONHASHSEED gives other identities for the same configuration", getattr(c, "lineno", 0))


# -- D2b --------------------------------------------------------------------------------------------------------------
SCALAR_TYPES = {"str", "int", "float", "bool", "bytes", "complex", "Number", "Real", "Integral", "Decimal", "Fraction", "date", "datetime", "time", "timedelta", "Path", "PurePath", "Enum", "UUID", "NoneType", "type"}
MAPPING_TYPES = {"dict", "Mapping", "MutableMapping", "OrderedDict", "defaultdict"}
SEQUENCE_TYPES = {"list", "Sequence", "MutableSequence"}
SET_TYPES = {"set", "frozenset", "Set", "AbstractSet", "MutableSet"}
TEXT_CALLS = {"str", "int", "float", "bool", "len", "type", "join", "hexdigest", "dumps", "lower", "upper", "strip", "format", "hex", "dump", "unparse", "repr", "ascii", "encode", "decode"}
DUNDER_TEXT = {"__name__", "__qualname__", "__module__", "__doc__"}


def _type_names(e: ast.AST) -> Optional[Set[str]]:
    """Class names of the second argument of isinstance (a name, a dotted name, a tuple of them, `type(None)`)."""
    if isinstance(e, ast.Tuple):
        out: Set[str] = set()
        for x in e.elts:
            sub = _type_names(x)
            if sub is None:
                return None
            out |= sub
        return out
    if isinstance(e, ast.Call) and call_attr(e) == "type" and len(e.args) == 1 and isinstance(e.args[0], ast.Constant) and e.args[0].value is None:
        return {"NoneType"}
    d = dotted_name(e)
    return {d.split(".")[-1]} if d else None


def _isinstance_of(test: ast.AST, x_text: str) -> Optional[Set[str]]:
    if isinstance(test, ast.Call) and isinstance(test.func, ast.Name) and test.func.id == "isinstance" and len(test.args) == 2 and norm(test.args[0]) == x_text:
        return _type_names(test.args[1])
    return None


def _kind_atoms(x_text: str):
    """Atoms for cfg.edges_guaranteeing: 'X is a scalar', 'X is not a mapping', 'X is not a list', 'X is not a set'."""
    def scalar(test: ast.AST) -> Optional[bool]:
        t = _isinstance_of(test, x_text)
        if t is not None and t and t <= SCALAR_TYPES:
            return True
        if isinstance(test, ast.Compare) and len(test.ops) == 1 and isinstance(test.comparators[0], ast.Constant) and test.comparators[0].value is None and norm(test.left) == x_text:
            return True if isinstance(test.ops[0], ast.Is) else None
        return None

    def excludes(kinds: Set[str]):
        def atom(test: ast.AST) -> Optional[bool]:
            t = _isinstance_of(test, x_text)
            if t is not None and t & kinds:
                return False  # the test is the negation of 'X is not of this kind'
            return None
        return atom

    return scalar, [excludes(MAPPING_TYPES), excludes(SEQUENCE_TYPES), excludes(SET_TYPES)]


def _guarded(g, fn: ast.AST, site: ast.AST, atom) -> bool:
    """Every way to evaluate *site* passes a branch edge (if / while statement, conditional expression, and/or
    short-circuit is not modelled) on which *atom* holds."""
    from ..cfg import edges_guaranteeing

    cur = site
    for a in ancestors(site):  # expression-level guard: <a> if <test> else <b>
        if a is fn or isinstance(a, ast.stmt):
            break
        if isinstance(a, ast.IfExp) and cur is not a.test:
            e = edges_guaranteeing(a.test, atom)
            if ("T" in e and cur is a.body) or ("F" in e and cur is a.orelse):
                return True
        cur = a
    blocked: Set[Tuple[int, str]] = set()
    for nd in g.nodes:
        if nd.kind in ("if", "while") and nd.part is not None:
            for e in edges_guaranteeing(nd.part, atom):
                blocked.add((nd.id, e))
    if not blocked:
        return False
    st = stmt_of(site)
    ids = g.nodes_for(st)
    while not ids and st is not None and st is not fn:
        st = getattr(st, "_parent", None)
        ids = g.nodes_for(st) if isinstance(st, ast.stmt) else []
    if not ids:
        return False
    seen = g.reach([g.entry], blocked_edges=blocked)
    return not any(i in seen for i in ids)


def _dumps_param(repo: Repo, mod, c: ast.Call) -> Optional[ast.AST]:
    """The argument of call *c* that is handed to json.dumps: c is json.dumps(x, ...) itself, or a call of a function of
    the package whose body passes its first parameter to json.dumps."""
    if not c.args:
        return None
    if _qualified(mod, c) == "json.dumps":
        return c.args[0]
    for tm, tf in repo.resolve_call(mod, c):
        if isinstance(tf, FuncNode) and tf.args.args:
            p = tf.args.args[0].arg
            for k in calls_in(tf):
                if _qualified(tm, k) == "json.dumps" and k.args and isinstance(k.args[0], ast.Name) and (k.args[0].id == p or _element_of_param(tf, k.args[0].id, p)):
                    return c.args[0]
    return None


def _element_of_param(tf: ast.AST, name: str, p: str) -> bool:
    """*name* is bound, in *tf*, only as the loop / comprehension variable over the parameter *p* (directly or under
    enumerate): json.dumps(name) is applied element by element - it rejects an element exactly when json.dumps of the
    whole sequence rejects it."""
    binders = 0
    for n in ast.walk(tf):
        if isinstance(n, (ast.For, ast.comprehension)):
            tg, it = n.target, n.iter
            under_enum = isinstance(it, ast.Call) and isinstance(it.func, ast.Name) and it.func.id == "enumerate" and it.args
            src = it.args[0] if under_enum else it
            var = tg.elts[1] if under_enum and isinstance(tg, ast.Tuple) and len(tg.elts) == 2 else None if under_enum else tg
            if isinstance(var, ast.Name) and var.id == name:
                if not (isinstance(src, ast.Name) and src.id == p):
                    return False
                binders += 1
            elif any(isinstance(x, ast.Name) and x.id == name for x in ast.walk(tg)):
                return False
        elif isinstance(n, ast.Name) and n.id == name and isinstance(n.ctx, ast.Store) and not isinstance(getattr(n, "_parent", None), (ast.For, ast.comprehension, ast.Tuple)):
            return False
    return binders > 0


def _json_failed_fallback(repo: Repo, mod, fn: ast.AST, site: ast.AST, x_text: str) -> bool:
    """*site* is in the handler of a try whose body first hands the same value to json.dumps: the rendering is used
    only for values JSON cannot express (dates and the like), mappings of plain values never get here."""
    cur = site
    for a in ancestors(site):
        if a is fn:
            break
        if isinstance(a, ast.Try) and any(cur is h for h in a.handlers):
            for st in a.body:
                for c in ast.walk(st):
                    if isinstance(c, ast.Call):
                        arg = _dumps_param(repo, mod, c)
                        if arg is not None and norm(arg) == x_text:
                            return True
        cur = a
    return False


def _json_predicate(repo: Repo, mod, test: ast.AST, x_text: str) -> Optional[bool]:
    """*test* is `<is_json>(X)` with <is_json> a function of the package that answers whether json.dumps accepts its
    parameter (try json.dumps(p) -> True, handlers -> False): the extracted-predicate spelling of the fallback."""
    if not (isinstance(test, ast.Call) and len(test.args) == 1 and not test.keywords and norm(test.args[0]) == x_text):
        return None
    for tm, tf in repo.resolve_call(mod, test):
        if not (isinstance(tf, FuncNode) and len(tf.args.args) == 1):
            continue
        p = tf.args.args[0].arg
        tries = [n for n in walk_no_nested(tf) if isinstance(n, ast.Try)]
        if len(tries) != 1:
            continue
        t = tries[0]
        dumped = any(isinstance(c, ast.Call) and _qualified(tm, c) == "json.dumps" and c.args and isinstance(c.args[0], ast.Name) and c.args[0].id == p for st in t.body for c in ast.walk(st))
        in_handlers = {id(n) for h in t.handlers for n in ast.walk(h)}
        rets = [n for n in walk_no_nested(tf) if isinstance(n, ast.Return)]
        const = lambda n, v: isinstance(n.value, ast.Constant) and n.value.value is v  # noqa: E731
        if dumped and rets and t.handlers and all(const(n, False) if id(n) in in_handlers else const(n, True) for n in rets) and any(id(n) in in_handlers for n in rets):
            return False  # the test is the negation of 'json.dumps(X) failed'
    return None


def _never_container(x: ast.AST) -> bool:
    if isinstance(x, (ast.Constant, ast.JoinedStr)):
        return True
    if isinstance(x, ast.Name) and any(isinstance(a, ast.ExceptHandler) and a.name == x.id for a in ancestors(x)):
        return True  # the caught exception
    if isinstance(x, ast.Attribute) and x.attr in DUNDER_TEXT:
        return True
    if isinstance(x, ast.Call) and call_attr(x) in TEXT_CALLS:
        return True
    if isinstance(x, ast.BinOp) and isinstance(x.op, (ast.Add, ast.Mod)):
        return _never_container(x.left) or _never_container(x.right)
    return False


def _render_sites(fn: ast.AST) -> List[Tuple[ast.AST, ast.AST, bool]]:
    """(site, rendered value, is it the repr family) for every place in *fn* where a value is turned into text."""
    out: List[Tuple[ast.AST, ast.AST, bool]] = []
    for n in walk_no_nested(fn):
        if isinstance(n, ast.Call) and isinstance(n.func, ast.Name) and n.func.id in ("repr", "ascii", "str", "format") and len(n.args) >= 1 and not n.keywords:
            if n.func.id == "str" and len(n.args) > 1:
                continue  # str(bytes, encoding)
            out.append((n, n.args[0], n.func.id in ("repr", "ascii")))
        elif isinstance(n, ast.Call) and isinstance(n.func, ast.Attribute) and n.func.attr in ("__repr__", "__str__") and not n.args:
            out.append((n, n.func.value, n.func.attr == "__repr__"))
        elif isinstance(n, ast.FormattedValue):
            out.append((n, n.value, n.conversion in (114, 97)))
        elif isinstance(n, ast.BinOp) and isinstance(n.op, ast.Mod) and isinstance(n.left, ast.Constant) and isinstance(n.left.value, str):
            vals = n.right.elts if isinstance(n.right, ast.Tuple) else [n.right]
            for v in vals:
                out.append((n, v, "%r" in n.left.value or "%a" in n.left.value))
        elif isinstance(n, ast.Call) and isinstance(n.func, ast.Attribute) and n.func.attr == "format" and isinstance(n.func.value, ast.Constant) and isinstance(n.func.value.value, str):
            for v in list(n.args) + [kw.value for kw in n.keywords]:
                out.append((n, v, "!r" in n.func.value.value or "!a" in n.func.value.value))
    return out


def no_container_rendering(repo: Repo, R: Report, sl: List[Tuple[str, str, ast.AST]]) -> None:
    """C04-D2b: what is hashed holds no repr()/str() text of a mapping, set or list of mappings."""
    from ..cfg import CFG

    r = R.rule("C04-D2b-no-container-text-in-hashed-value", "in the functions that produce hashed values (canonical node, preprocessor metadata, domain signatures, id functions and what they call) a value is turned into text by repr()/ascii()/%r/!r only where it cannot be a mapping, set or list - it is a scalar on every path there (isinstance guard) or containers are routed elsewhere first (a rendering that is only the fallback after json.dumps failed on the same value is still such a rendering: reported under its own label) - and by str()/format()/f-string only where it has not just been proven to be a non-scalar: the repr of a mapping follows insertion (YAML key) order and the repr of a set follows the hash seed, and no later json.dumps(sort_keys=True) can reorder text", 12)
    hashed = [(rel, qn, f) for rel, qn, f in sl if not any(rel == drel and (qn == dqn or qn.startswith(dqn + ".")) for drel, dqn in display_roots(repo))]
    seen: Set[int] = set()
    for m, f0 in _closure_of(repo, hashed):
        for f in [n for n in ast.walk(f0) if isinstance(n, FuncNode)]:
            if id(f) in seen:
                continue
            seen.add(id(f))
            qn = qualname_of(f)
            g = None
            n_bad = 0
            for site, x, is_repr in _render_sites(f):
                if _message_context(site, f) or _never_container(x):
                    continue
                x_text = norm(x)
                if g is None:
                    g = CFG(f)
                scalar, excl = _kind_atoms(x_text)
                json_failed = lambda test, _t=x_text, _m=m: _json_predicate(repo, _m, test, _t)  # noqa: E731
                if is_repr:
                    ok = _guarded(g, f, site, scalar) or all(_guarded(g, f, site, a) for a in excl)
                    why = f"`{norm(site)[:60]}` renders `{x_text[:40]}` as text and nothing on the way there rules out a mapping / set / list (no isinstance guard for scalars, containers not routed elsewhere, not the fallback of a failed json.dumps of the same value): for a mapping the text follows the YAML key order, for a set the hash seed, and it is hashed as an opaque string - reordering keys inside that value changes node semantic id, semantic id and config id"
                else:
                    # str()/format()/f"{x}": only when the branch taken proves the value is NOT a scalar (the else-arm of a scalar test)
                    def non_scalar(test: ast.AST, _t=x_text) -> Optional[bool]:
                        t = _isinstance_of(test, _t)
                        return False if t is not None and "str" in t and t <= SCALAR_TYPES else None
                    ok = not _guarded(g, f, site, non_scalar) or all(_guarded(g, f, site, a) for a in excl)
                    why = f"`{norm(site)[:60]}` is reached only when `{x_text[:40]}` is not a scalar, and renders it as text: for a mapping the text follows the YAML key order, for a set the hash seed, and it is hashed as an opaque string"
                if not ok:
                    n_bad += 1
                    # the last-resort rendering of a value json.dumps rejected is reported under a spelling-independent
                    # label (it is a recorded finding on the pinned tree; renaming a local must not make it look new)
                    fallback = _json_failed_fallback(repo, m, f, site, x_text) or _guarded(g, f, site, json_failed)
                    label = norm(stmt_of(site))[:110]
                    where = qn
                    if fallback:
                        # role of the text: hashed (argument of a hashlib / _sha256 call) or handed on as a value
                        hashed_here = any(isinstance(a, ast.Call) and ("sha" in (call_name(a) or "").lower() or "md5" in (call_name(a) or "").lower()) for a in ancestors(site))
                        label = "last-resort text rendering of a value json.dumps rejected: " + ("hashed as a digest" if hashed_here else "handed on as a value")
                        where = "<domain-signature fallback>"
                        why += f" - in {qn}: this is the fallback taken when the value is not JSON-serialisable, exactly the values for which key order / hash seed leak into the ids"
                    R.violation(r, m.rel, where, label, why, getattr(site, "lineno", 0))
            if not n_bad:
                R.ok(r, m.rel, qn, f"{qn}: no container rendered as text", "", getattr(f, "lineno", 0))


# ---------------------------------------------------------------------------
# round 11: D1c - no text rendering of an object of the code (a signature default) inside the published sweep definition
# ---------------------------------------------------------------------------
CODE_OBJECT_ATTRS = {"default", "annotation", "return_annotation", "__defaults__", "__kwdefaults__", "__annotations__", "__dict__", "__code__", "__wrapped__"}
TYPE_FIXING_CALLS = {"bool", "int", "float", "len", "isinstance", "hasattr", "callable"}


def _renderer_params(repo: Repo, rel: str, qualname: str, depth: int = 0) -> Dict[str, str]:
    """{parameter: description of the rendering} for the parameters of a package function whose value (or a part of
    it) is turned into text by repr()/str()/ascii()/format()/f-string inside the function or a package function it
    hands the value to - outside log / exception texts."""
    cache = repo.__dict__.setdefault("_c04_renderer_params", {})
    key = (rel, qualname)
    if key in cache:
        return cache[key]
    cache[key] = {}  # recursion guard
    out: Dict[str, str] = {}
    try:
        flow = flow_of(repo, rel, qualname)
    except (AnalysisError, RecursionError, KeyError):
        return out
    fn = flow.fn
    mod = repo.module(rel)
    for f in [n for n in ast.walk(fn) if isinstance(n, FuncNode)]:
        nested = f is not fn
        for site, x, _is_repr in _render_sites(f):
            if _message_context(site, f) or _never_container(x):
                continue
            try:
                names = {n.id for n in ast.walk(x) if isinstance(n, ast.Name)} & flow.params if nested else flow.feeds(x)[0] & flow.params
            except AnalysisError:
                continue
            for pn in sorted(names):
                out.setdefault(pn, f"`{norm(site)[:40]}` in {qualname}")
    if depth < 3:
        for c in calls_in(fn):
            if call_attr(c) is None:
                continue
            try:
                targets = [(tm, tf) for tm, tf in repo.resolve_call(mod, c) if isinstance(tf, FuncNode) and tm.defs.get(qualname_of(tf)) is tf]
            except AnalysisError:
                continue
            for tm, tf in targets:
                sub = _renderer_params(repo, tm.rel, qualname_of(tf), depth + 1)
                if not sub:
                    continue
                from .c04 import _bind_args

                for pn2, a in _bind_args(tf, c):
                    if pn2 not in sub or _message_context(c, fn):
                        continue
                    try:
                        names = flow.feeds(a)[0] & flow.params
                    except AnalysisError:
                        continue
                    for pn in sorted(names):
                        out.setdefault(pn, sub[pn2])
    cache[key] = out
    return out


class Carried:
    """The values a structure carries: from an expression down through the containers the function builds (literals,
    comprehensions, copies, what is stored / appended into them), through conditional expressions and locals (value
    origins), into the arguments of the package functions whose result is placed there.  Collects the leaves - reads
    of something the function did not build (a member of the class it is handed, a parameter, an attribute, the result
    of an unknown call) - each with the text rendering it passed on the way, if any."""

    def __init__(self, repo: Repo, rel: str, flow: Flow):
        self.repo, self.rel, self.flow = repo, rel, flow
        self.mod = repo.module(rel)
        self.seen: Set[Tuple[int, Tuple[str, ...], bool]] = set()
        self.leaves: List[Tuple[ast.AST, Tuple[str, ...], Optional[str]]] = []

    def walk(self, e: Optional[ast.AST], path: Tuple[str, ...] = (), via: Optional[str] = None) -> None:
        from .c04 import _bind_args, _fresh_container

        if e is None or len(path) > 6:
            return
        key = (id(e), path, via is not None)
        if key in self.seen:
            return
        self.seen.add(key)
        try:
            leaves = self.flow.origins(e, path)
        except (AnalysisError, RecursionError):
            return
        for root, rest in sorted(leaves, key=lambda l: (getattr(l[0], "lineno", 0), getattr(l[0], "col_offset", 0), l[1])):
            if isinstance(root, ast.Constant):
                continue
            if rest:
                self.leaves.append((root, rest, via))
                continue
            if _fresh_container(root) or (isinstance(root, ast.Call) and isinstance(root.func, ast.Name) and root.func.id in SEQ_REORDER):
                self.walk(e, path + (ANY,), via)
                for dc in [n for n in [root] if isinstance(n, ast.DictComp)]:
                    self.walk(dc.key, (), via)
                continue
            if isinstance(root, ast.Call):
                nm = call_attr(root)
                if isinstance(root.func, ast.Name) and nm in TYPE_FIXING_CALLS:
                    continue
                if isinstance(root.func, ast.Name) and nm == "getattr":
                    self.leaves.append((root, (), via))
                    continue
                if isinstance(root.func, ast.Name) and nm in ("str", "repr", "ascii", "format") and root.args:
                    self.walk(root.args[0], (), via or f"`{norm(root)[:40]}`")
                    continue
                try:
                    targets = [(tm, tf) for tm, tf in self.repo.resolve_call(self.mod, root) if isinstance(tf, FuncNode) and tm.defs.get(qualname_of(tf)) is tf]
                except AnalysisError:
                    targets = []
                if not targets:
                    self.leaves.append((root, (), via))
                    continue
                for tm, tf in targets:
                    rp = _renderer_params(self.repo, tm.rel, qualname_of(tf))
                    for pn, a in _bind_args(tf, root):
                        self.walk(a, (), via or (f"{rp[pn]} (reached through `{norm(root)[:40]}`)" if pn in rp else None))
                continue
            if isinstance(root, ast.JoinedStr):
                for fv in root.values:
                    if isinstance(fv, ast.FormattedValue):
                        self.walk(fv.value, (), via or f"`{norm(root)[:40]}`")
                continue
            if isinstance(root, ast.Attribute):
                if root.attr not in DUNDER_TEXT:
                    self.leaves.append((root, (), via))
                continue
            if isinstance(root, (ast.Name, ast.Lambda)):
                self.leaves.append((root, (), via))
                continue
            for ch in ast.iter_child_nodes(root):
                if isinstance(ch, ast.expr):
                    self.walk(ch, (), via)


def _code_object_read(flow: Flow, root: ast.AST) -> Optional[str]:
    """*root* reads an object of the program rather than of the configuration: the default / annotation of a parameter
    of a Python signature (`inspect.signature(..).parameters[..].default`), a function's __defaults__ / __dict__ ..."""
    if not (isinstance(root, ast.Attribute) and root.attr in CODE_OBJECT_ATTRS):
        return None
    if root.attr.startswith("__"):
        return f"`{norm(root)[:50]}`"
    try:
        _names, calls = flow.feeds(root.value)
    except AnalysisError:
        return None
    src = next((c for c in calls if (call_name(c) or "").startswith("inspect.") or call_attr(c) in ("signature", "getfullargspec", "get_type_hints")), None)
    return f"`{norm(root)[:50]}` (of `{norm(src)[:50]}`)" if src is not None else None


def no_code_object_text_in_sweep_definition(repo: Repo, R: Report) -> None:
    """C04-D1c: the published sweep definition holds no text rendering of an arbitrary Python object."""
    r = R.rule("C04-D1c-no-code-object-text-in-sweep-definition", "nothing inside the mapping the sweep-definition builder returns (hashed into node semantic id, config id and semantic id) is the repr()/str() text - directly or through a JSON-safety helper that falls back to repr - of an object of the program: the default / annotation of a parameter of the wrapped element's Python signature, __defaults__, __dict__ (followed through the attributes the class factory binds on the generated class).  Such an object is arbitrary (a set, a sentinel `object()`, a callable, an instance without __repr__): its text shows the hash seed or a memory address, so the ids of the same configuration differ between processes; only configuration values and names written down in the program may be rendered", 3)
    builder0, factories0 = sweep_definition_anchors(repo)
    b_qn = qualname_of(builder0)
    bflow = flow_of(repo, SWEEP, b_qn)
    bparams = [p.arg for p in _params_list(bflow.fn)]
    recv = {"cls", "self"} | ({bparams[0]} if bparams else set())
    rets = [x for x in walk_no_nested(bflow.fn) if isinstance(x, ast.Return) and x.value is not None]
    if not rets:
        raise AnalysisError(f"{b_qn}: the sweep-definition builder returns nothing")
    w = Carried(repo, SWEEP, bflow)
    for ret in rets:
        w.walk(ret.value)
    n_members = 0
    for root, rest, via in w.leaves:
        member = None
        if isinstance(root, ast.Call) and call_attr(root) == "getattr" and len(root.args) >= 2 and isinstance(root.args[0], ast.Name) and root.args[0].id in recv and isinstance(root.args[1], ast.Constant):
            member = str(root.args[1].value)
        elif isinstance(root, ast.Attribute) and isinstance(root.value, ast.Name) and root.value.id in recv:
            member = root.attr
        direct = _code_object_read(bflow, root)
        if direct is not None and via is not None:
            R.violation(r, SWEEP, b_qn, norm(stmt_of(root))[:90], f"{direct} is an object of the program and its text ({via}) is part of the published sweep definition: the text of a set shows the hash seed, that of a plain object its address - node semantic id, config id and semantic id of the same configuration differ between processes", getattr(root, "lineno", 0))
            continue
        if member is None:
            continue
        n_members += 1
        bad: List[Tuple[str, ast.AST, str]] = []
        for f0 in factories0:
            f_qn = qualname_of(f0)
            fflow = flow_of(repo, SWEEP, f_qn)
            for c in [c for c in ast.walk(fflow.fn) if isinstance(c, ast.ClassDef)]:
                for st in c.body:
                    tg = st.targets if isinstance(st, ast.Assign) else [st.target] if isinstance(st, ast.AnnAssign) and st.value is not None else []
                    if not any(isinstance(x, ast.Name) and x.id == member for x in tg):
                        continue
                    fw = Carried(repo, SWEEP, fflow)
                    fw.walk(st.value, rest, via)
                    for root2, _rest2, via2 in fw.leaves:
                        what = _code_object_read(fflow, root2)
                        if what is not None and via2 is not None:
                            bad.append((f_qn, root2, f"{what}, bound to `{member}` of the generated class (`{norm(stmt_of(root2))[:60]}`), is an object of the program - any default the author of the wrapped element chose: a set, a sentinel, a callable - and the builder publishes its text ({via2}) in the sweep definition: the text of a set shows the hash seed, that of a plain object its address, so node semantic id, config id and semantic id of the same configuration differ between processes / PYTHONHASHSEED values"))
        label = f"{b_qn}: `{norm(root)[:50]}`" + (f" rendered by {via[:60]}" if via else " (not rendered as text)")
        if not bad:
            R.ok(r, SWEEP, b_qn, label)
        seen_msgs: Set[str] = set()
        for f_qn, root2, msg in bad:
            if msg in seen_msgs:
                continue
            seen_msgs.add(msg)
            R.violation(r, SWEEP, b_qn, norm(stmt_of(root))[:90], msg, getattr(root, "lineno", 0))
    if not n_members:
        raise AnalysisError(f"{b_qn}: the published sweep definition reads no member of the generated class (anchor of C04-D1c)")


# -- D2 total orders --------------------------------------------------------------------------------------------------
def _total_sort_key(key: Optional[ast.AST]) -> bool:
    """The sort key cannot tie two different elements: absent / None, `str` / `repr`, or a lambda returning its
    parameter, a serialisation of it, or a tuple that contains the bare parameter (case-folded first, exact second)."""
    if key is None or (isinstance(key, ast.Constant) and key.value is None):
        return True
    if isinstance(key, ast.Name) and key.id in ("str", "repr"):
        return True
    if isinstance(key, ast.Lambda) and len(key.args.args) == 1:
        p = key.args.args[0].arg
        b = key.body
        is_p = lambda e: isinstance(e, ast.Name) and e.id == p  # noqa: E731
        if is_p(b):
            return True
        if isinstance(b, ast.Tuple) and any(is_p(e) for e in b.elts):
            return True
        if isinstance(b, ast.Call) and call_attr(b) in ("str", "repr", "dump", "dumps") and b.args and is_p(b.args[0]):
            return True
    return False


def _set_valued(fn: ast.AST, e: ast.AST, depth: int = 0) -> bool:
    """*e* evaluates to a set (iteration order = hash seed): literal, comprehension, set()/frozenset(), set algebra,
    or a local every assignment of which is one of those."""
    if isinstance(e, (ast.Set, ast.SetComp)):
        return True
    if isinstance(e, ast.Call) and isinstance(e.func, ast.Name) and e.func.id in ("set", "frozenset"):
        return True
    if isinstance(e, ast.Call) and isinstance(e.func, ast.Attribute) and e.func.attr in ("union", "intersection", "difference", "symmetric_difference") and _set_valued(fn, e.func.value, depth):
        return True
    if isinstance(e, ast.BinOp) and isinstance(e.op, (ast.BitOr, ast.BitAnd, ast.Sub, ast.BitXor)):
        return _set_valued(fn, e.left, depth) or _set_valued(fn, e.right, depth)
    if isinstance(e, ast.Call) and isinstance(e.func, ast.Name) and e.func.id in ("list", "tuple", "iter") and len(e.args) == 1:
        return _set_valued(fn, e.args[0], depth)
    if isinstance(e, ast.Name) and depth < 3:
        vals = assigned_value(fn, e.id)
        return bool(vals) and all(_set_valued(fn, v, depth + 1) for v in vals)
    return False


def sorts_of_sets_are_total(repo: Repo, R: Report, rule: str, sl: List[Tuple[str, str, ast.AST]]) -> None:
    """Anywhere in the call-graph closure of the slice: sorting a set with a key that can tie different elements leaves
    the tied ones in set iteration order."""
    for m, f in _closure_of(repo, sl):
        nf = f
        for c in calls_in(f):
            src = None
            if isinstance(c.func, ast.Name) and c.func.id == "sorted" and c.args:
                src = c.args[0]
            elif isinstance(c.func, ast.Attribute) and c.func.attr == "sort" and isinstance(c.func.value, ast.Name):
                src = c.func.value
            if src is None or kwarg(c, "key") is None or not _set_valued(nf, src):
                continue
            R.check(_total_sort_key(kwarg(c, "key")), rule, m.rel, qualname_of(f), norm(c)[:90],
                    f"a set is sorted with key `{norm(kwarg(c, 'key'))[:40]}`, which can give two different elements the same key; sorted() is stable, so tied elements stay in set iteration order, which depends on PYTHONHASHSEED: the list differs between processes for the same configuration", c.lineno)


# ---------------------------------------------------------------------------
# round 4: order provenance (whose iteration order does a sequence show?) and the sweep-definition anchors by role
# ---------------------------------------------------------------------------
FIXED: Tuple[str, ...] = ("fixed",)
SORTED: Tuple[str, ...] = ("sorted",)
VIEW_METHODS = {"keys", "values", "items"}
ORDER_KEEPING = {"list", "tuple", "iter", "reversed", "enumerate", "zip", "range", "len", "map", "filter"}
ELEMENT_GROWERS = {"append", "add", "appendleft", "insert", "setdefault", "__setitem__"}
BULK_GROWERS = {"extend", "extendleft", "__iadd__", "update"}
MAPPING_ANNOTATION = ("Dict", "dict", "Mapping", "Set", "set", "frozenset")
Tag = Tuple[str, ...]


def _is_sequence_like(e: ast.AST) -> bool:
    if isinstance(e, (ast.List, ast.ListComp, ast.GeneratorExp)):
        return True
    if isinstance(e, ast.Call) and isinstance(e.func, ast.Name) and e.func.id in ("list", "tuple", "sorted", "reversed"):
        return True
    return isinstance(e, ast.BinOp) and isinstance(e.op, ast.Add) and (_is_sequence_like(e.left) or _is_sequence_like(e.right))


def _params_list(fn: ast.AST) -> List[ast.arg]:
    a = fn.args
    return list(a.posonlyargs + a.args + a.kwonlyargs)


def config_mappings(fn: ast.AST) -> Set[str]:
    """Parameters of *fn* that are mappings / sets: annotated so, or a mapping view (.keys/.values/.items) is taken of
    them somewhere in the function (nested scopes included).  Iterating such a parameter shows the caller's key order."""
    import re

    out: Set[str] = set()
    for p in _params_list(fn):
        if p.annotation is not None and set(re.findall(r"\w+", norm(p.annotation))) & set(MAPPING_ANNOTATION):
            out.add(p.arg)
    names = {p.arg for p in _params_list(fn)}
    for c in ast.walk(fn):
        if isinstance(c, ast.Call) and isinstance(c.func, ast.Attribute) and c.func.attr in VIEW_METHODS and not c.args:
            for x in ast.walk(c.func.value):
                if isinstance(x, ast.Name) and x.id in names and not isinstance(c.func.value, (ast.Attribute, ast.Subscript, ast.Call)):
                    out.add(x.id)
    return out


class Order:
    """Whose iteration order does a sequence / mapping expression show?  Demand-driven on a Flow (normal form + CFG).

    ``of(e, use, view)`` returns tags: ("sorted",) totally sorted; ("fixed",) written down in the program, or the order
    of an object obtained from outside the package (a signature, a constant); ("set", text) set iteration order;
    ("param", p, mode) the order of the function's parameter p - mode "view" when it is read through .keys() /
    .values() / .items() (so p, or the part of p that is read, is a mapping), "direct" when p itself is iterated;
    ("attr", p, name, mode) the same for attribute *name* of parameter p; ("unknown", text).
    A local is followed through its reaching definitions, tuple unpacking, copies, comprehensions (order of what
    they iterate), the loops that enclose the statements growing it (append / store / extend ...), aliases, an
    in-place .sort() every path to the use passes, and calls of package functions (their returned values, with the
    callee's parameters bound to the arguments)."""

    def __init__(self, repo: Repo, rel: str, flow: Flow, depth: int = 0):
        self.repo, self.rel, self.flow, self.depth = repo, rel, flow, depth
        self.mod = repo.module(rel)

    # -- helpers -----------------------------------------------------------------------------------------------
    def _use(self, e: ast.AST) -> int:
        return self.flow.uses_of(e)[0]

    def _mode(self, view: bool) -> str:
        return "view" if view else "direct"

    def _leaf(self, leaf: Leaf, view: bool, stack: frozenset, origin: Optional[ast.AST] = None) -> Set[Tag]:
        root, rest = leaf
        if isinstance(root, ast.Name):
            if root.id in self.flow.params:
                # an element of a parameter iterated directly is a value of the configuration (list order is meaning);
                # read through a mapping view it is a nested mapping of the caller
                return {("param", root.id, "view")} if view else ({("param", root.id, "direct")} if not rest else {FIXED})
            return {FIXED}
        if isinstance(root, ast.Call) and rest:
            if self.repo.resolve_call(self.mod, root):
                return self._callee(root, rest, self._use(root), view, stack)
            return {FIXED}
        if isinstance(root, (ast.Constant, ast.JoinedStr)):
            return {FIXED}
        if not rest and root is not origin and isinstance(root, ast.expr):
            return self.of(root, self._use(root), view, stack)
        if not rest and isinstance(root, ast.Attribute):
            return self._attr_of(root.value, root.attr, self._use(root), view, stack)
        return {("unknown", norm(root)[:40])}

    def _element(self, e: ast.AST, use: int, view: bool, stack: frozenset) -> Set[Tag]:
        out: Set[Tag] = set()
        for leaf in self.flow._q(e, (), use, frozenset()):
            if leaf[0] is e and not leaf[1] and not isinstance(e, ast.Name):
                out.add(FIXED if isinstance(e, ast.Call) and not self.repo.resolve_call(self.mod, e) else ("unknown", norm(e)[:40]))
            else:
                out |= self._leaf(leaf, view, stack, origin=e)
        return out or {FIXED}

    def _attr_of(self, base: ast.AST, attr: str, use: int, view: bool, stack: frozenset) -> Set[Tag]:
        if isinstance(base, ast.Name):
            ids, entry = self.flow.reaching(base.id, use)
            if entry and not ids and base.id in self.flow.params and not self._bound_in_expression(base):
                return {("attr", base.id, attr, self._mode(view))}
        out: Set[Tag] = set()
        for root, rest in self.flow._q(base, (), use, frozenset()):
            if isinstance(root, ast.Name) and root.id in self.flow.params:
                out.add(("param", root.id, self._mode(view)))
            elif isinstance(root, ast.Name):
                out.add(FIXED)
            elif isinstance(root, ast.Call) and not self.repo.resolve_call(self.mod, root):
                out.add(FIXED)  # an object made outside the package (inspect.signature(...)): its order is its own
            else:
                out.add(("unknown", f"{norm(root)[:30]}.{attr}"))
        return out or {FIXED}

    def _method_of(self, base: ast.AST, meth: str, use: int, view: bool) -> Set[Tag]:
        """("method", p, name, mode) when *base* is (an alias of) the parameter p of the function; else nothing."""
        out: Set[Tag] = set()
        if not isinstance(base, ast.Name) or self._bound_in_expression(base):
            return out
        for root, rest in self.flow._q(base, (), use, frozenset()):
            if isinstance(root, ast.Name) and not rest and root.id in self.flow.params:
                out.add(("method", root.id, meth, self._mode(view)))
        return out

    def _bound_in_expression(self, e: ast.Name) -> bool:
        cur: ast.AST = e
        while True:
            par = getattr(cur, "_parent", None)
            if par is None or isinstance(par, ast.stmt) or cur is self.flow.fn:
                return False
            if isinstance(par, (ast.ListComp, ast.SetComp, ast.GeneratorExp, ast.DictComp)):
                for gen in par.generators:
                    if Flow._target_path(gen.target, e.id) is not None and cur is not gen.iter:
                        return True
            if isinstance(par, ast.Lambda) and e.id in {x.arg for x in _params_list(par)}:
                return True
            cur = par

    # -- the query ---------------------------------------------------------------------------------------------
    def of(self, e: Optional[ast.AST], use: int, view: bool = False, stack: frozenset = frozenset()) -> Set[Tag]:
        if e is None:
            return set()
        key = (id(e), use, view)
        if key in stack or len(stack) > 60:
            return set()
        stack = stack | {key}
        rec = lambda x, v=view: self.of(x, use, v, stack)  # noqa: E731
        if isinstance(e, (ast.Constant, ast.JoinedStr)):
            return {FIXED}
        if isinstance(e, ast.Name):
            return self._name(e, use, view, stack)
        if isinstance(e, ast.IfExp):
            return rec(e.body) | rec(e.orelse)
        if isinstance(e, ast.BoolOp):
            return set().union(*[rec(v) for v in e.values])
        if isinstance(e, (ast.NamedExpr, ast.Starred, ast.Await)):
            return rec(e.value)
        if isinstance(e, (ast.List, ast.Tuple)):
            return {FIXED}.union(*[rec(x.value, False) for x in e.elts if isinstance(x, ast.Starred)])
        if isinstance(e, ast.Set):
            return {("set", norm(e)[:40])} if len(e.elts) > 1 or any(isinstance(x, ast.Starred) for x in e.elts) else {FIXED}
        if isinstance(e, ast.Dict):
            return {FIXED}.union(*[rec(v, True) for k, v in zip(e.keys, e.values) if k is None])
        if isinstance(e, (ast.ListComp, ast.GeneratorExp, ast.DictComp)):
            return set().union(*[rec(gen.iter, False) for gen in e.generators])
        if isinstance(e, ast.SetComp):
            return {("set", norm(e)[:40])}
        if isinstance(e, ast.BinOp):
            if isinstance(e.op, (ast.Sub, ast.BitAnd, ast.BitXor)):
                return {("set", norm(e)[:40])}
            return rec(e.left) | rec(e.right)
        if isinstance(e, ast.Subscript):
            return rec(e.value) if isinstance(e.slice, ast.Slice) else self._element(e, use, view, stack)
        if isinstance(e, ast.Attribute):
            return self._attr_of(e.value, e.attr, use, view, stack)
        if isinstance(e, ast.Call):
            return self._call(e, use, view, stack)
        return {("unknown", norm(e)[:40])}

    def _call(self, e: ast.Call, use: int, view: bool, stack: frozenset) -> Set[Tag]:
        rec = lambda x, v=view: self.of(x, use, v, stack)  # noqa: E731
        f = e.func
        fname = f.id if isinstance(f, ast.Name) else None
        meth = f.attr if isinstance(f, ast.Attribute) else None
        dn = dotted_name(f) or ""
        if fname == "sorted" and e.args:
            return {SORTED} if _total_sort_key(kwarg(e, "key")) else rec(e.args[0], False)
        if fname in ("set", "frozenset"):
            return {("set", norm(e)[:40])} if e.args else {FIXED}
        if fname in ORDER_KEEPING:
            args = e.args[1:] if fname in ("map", "filter") else e.args
            return {FIXED}.union(*[rec(a, False) for a in args])
        if fname in MAP_COPIES:
            return {FIXED}.union(*[rec(a, True) for a in e.args])
        if fname == "getattr" and len(e.args) >= 2 and isinstance(e.args[1], ast.Constant) and isinstance(e.args[1].value, str):
            return self._attr_of(e.args[0], e.args[1].value, use, view, stack) | (rec(e.args[2]) if len(e.args) == 3 else set())
        if meth in VIEW_METHODS and not e.args and not e.keywords:
            return rec(f.value, True)
        if meth == "copy" and not e.args and dn != "copy.copy":
            return rec(f.value)
        if dn in ("copy.copy", "copy.deepcopy", "deepcopy") and len(e.args) == 1:
            return rec(e.args[0])
        if dn in ("cast", "typing.cast") and len(e.args) == 2:
            return rec(e.args[1])
        if meth in ("get", "pop", "setdefault") and e.args and len(e.args) <= 2 and not e.keywords:
            return self._element(e, use, view, stack)
        if self.repo.resolve_call(self.mod, e):
            return self._callee(e, (), use, view, stack)
        # a method of an object the function was handed (cls.get_x(), spec.keys_in_order()): the order is whatever that
        # method returns - the receiver's class decides, the caller of this query resolves it (generated sweep classes)
        out: Set[Tag] = self._method_of(f.value, meth, use, view) if meth is not None else set()
        # a function from outside the package: assumed to keep the order of the iterables it is handed
        out = out or {FIXED}
        for a in list(e.args) + [kw.value for kw in e.keywords]:
            out |= {t for t in rec(a, False) if t[0] not in ("fixed", "sorted", "unknown")}
        return out

    def _callee(self, call: ast.Call, path: Tuple[str, ...], use: int, view: bool, stack: frozenset) -> Set[Tag]:
        if self.depth >= 3:
            return {("unknown", norm(call.func)[:40] + "(...)")}
        out: Set[Tag] = set()
        for tm, tf in self.repo.resolve_call(self.mod, call):
            if not isinstance(tf, FuncNode) or self.repo.module(tm.rel).defs.get(qualname_of(tf)) is not tf:
                out.add(("unknown", norm(call.func)[:40] + "(...)"))
                continue
            try:
                sub = Order(self.repo, tm.rel, flow_of(self.repo, tm.rel, qualname_of(tf)), self.depth + 1)
            except AnalysisError:
                out.add(("unknown", norm(call.func)[:40] + "(...)"))
                continue
            rets = [n for n in walk_no_nested(sub.flow.fn) if isinstance(n, ast.Return) and n.value is not None]
            if not rets or any(isinstance(n, (ast.Yield, ast.YieldFrom)) for n in walk_no_nested(sub.flow.fn)):
                out.add(("unknown", norm(call.func)[:40] + "(...)"))
                continue
            got: Set[Tag] = set()
            for ret in rets:
                u = sub._use(ret.value)
                if path:
                    for leaf in sub.flow._q(ret.value, path, u, frozenset()):
                        got |= sub._leaf(leaf, view, frozenset())
                else:
                    got |= sub.of(ret.value, u, view)
            # the callee's parameters are the caller's arguments
            pos = [p.arg for p in tf.args.posonlyargs + tf.args.args]
            if pos and pos[0] in ("self", "cls") and isinstance(getattr(tf, "_parent", None), ast.ClassDef) and isinstance(call.func, ast.Attribute):
                pos = pos[1:]
            for t in got:
                if t[0] not in ("param", "attr", "method"):
                    out.add(t)
                    continue
                p, mode = t[1], t[-1]
                arg = kwarg(call, p)
                if arg is None and p in pos and pos.index(p) < len(call.args) and not any(isinstance(a, ast.Starred) for a in call.args):
                    arg = call.args[pos.index(p)]
                if arg is None:
                    out.add(FIXED if p in {x.arg for x in _params_list(tf)} and p not in ("self", "cls") else ("unknown", f"{p} of {tf.name}"))
                elif t[0] == "attr":
                    out |= self._attr_of(arg, t[2], use, mode == "view", stack)
                elif t[0] == "method":
                    out |= self._method_of(arg, t[2], use, mode == "view") or {("unknown", f"{norm(arg)[:30]}.{t[2]}()")}
                else:
                    out |= self.of(arg, use, mode == "view", stack)
        return out or {("unknown", norm(call.func)[:40] + "(...)")}

    def _name(self, e: ast.Name, use: int, view: bool, stack: frozenset) -> Set[Tag]:
        fl = self.flow
        name = e.id
        if self._bound_in_expression(e):
            return self._element(e, use, view, stack)
        ids, entry = fl.reaching(name, use)
        out: Set[Tag] = set()
        if entry:
            out.add(("param", name, self._mode(view)) if name in fl.params else FIXED)
        origins: List[int] = list(ids) + ([-1] if entry else [])
        for did in ids:
            a = fl.g.nodes[did].ast
            if isinstance(a, (ast.Assign, ast.AnnAssign)):
                for t in (a.targets if isinstance(a, ast.Assign) else [a.target]):
                    tp = Flow._target_path(t, name)
                    if tp is None:
                        continue
                    if not tp:
                        out |= self.of(a.value, did, view, stack)
                    else:
                        for leaf in fl._q(a.value, tp, did, frozenset()):
                            out |= self._leaf(leaf, view, stack)
            elif isinstance(a, ast.AugAssign):
                if isinstance(a.target, ast.Name):
                    out |= self._name(a.target, did, view, stack)
                out |= self.of(a.value, did, False, stack)
            elif isinstance(a, (ast.For, ast.AsyncFor)):
                tp = Flow._target_path(a.target, name) or ()
                for leaf in fl._q(a.iter, (ANY,) + tp, did, frozenset()):
                    out |= self._leaf(leaf, view, stack)
            else:
                out.add(FIXED)
        objs = set(ids) | ({-1} if entry else set())
        grown, sites = self._growth(name, objs, stack, 0)
        out |= grown
        # an in-place total sort that every path from the creation / last growth to the use passes
        sorts = {u for nm, kind, site, st in fl._mutations() if nm == name and kind == "call" and site.func.attr == "sort" and _total_sort_key(kwarg(site, "key"))
                 for u in fl._same_object(name, objs, st)}
        if sorts and use not in sorts:
            def escapes(o: int) -> bool:
                starts = [fl.g.entry] if o == -1 else [t for t, _l in fl.g.succ[o] if t not in sorts]
                return use in starts or use in fl.g.reach(starts, blocked=sorts - {use})
            if not any(escapes(o) for o in origins + [s for s in sites if s not in sorts]):
                return {SORTED}
        return out or {FIXED}

    def _growth(self, name: str, objs: Set[int], stack: frozenset, depth: int) -> Tuple[Set[Tag], List[int]]:
        """Order contributed by what is put into the object after its creation, and the CFG nodes where that happens."""
        fl = self.flow
        out: Set[Tag] = set()
        sites: List[int] = []
        def_asts = [fl.g.nodes[d].ast for d in objs if d != -1]

        def loops(st: ast.AST) -> Set[Tag]:
            res: Set[Tag] = set()
            for a in ancestors(st):
                if a is fl.fn:
                    break
                if isinstance(a, (ast.For, ast.AsyncFor)):
                    # a loop around the creation of the object as well does not order its content
                    if def_asts and all(any(x is d for x in ast.walk(a)) and d is not a for d in def_asts):
                        continue
                    ids = fl.g.nodes_for(a)
                    if ids:
                        res |= self.of(a.iter, ids[0], False, stack)
            return res

        for nm, kind, site, st in fl._mutations():
            if nm != name:
                continue
            uses = fl._same_object(name, objs, st)
            if not uses:
                continue
            if kind in ("estore", "ecall"):
                continue  # writes into an element: the order of the list is not touched
            if kind == "alias":
                if depth < 3:
                    alias_defs = {d.id for d in fl._all_defs(site.id) if d.ast is st}
                    g2, s2 = self._growth(site.id, alias_defs, stack, depth + 1)
                    out |= g2
                    sites += s2
                continue
            if kind == "store":
                out |= loops(st)
                sites += uses
                continue
            m = site.func.attr
            if m in ELEMENT_GROWERS:
                out |= loops(st)
                sites += uses
            elif m in BULK_GROWERS:
                out |= loops(st)
                for a in list(site.args) + [kw.value for kw in site.keywords if kw.arg is None]:
                    out |= self.of(a, uses[0], m == "update", stack)
                sites += uses
        return out, sites


def order_of(repo: Repo, rel: str, flow: Flow, e: ast.AST, view: bool = False) -> Set[Tag]:
    o = Order(repo, rel, flow)
    return o.of(e, o._use(e), view)


def _show_tag(t: Tag) -> str:
    if t[0] == "param":
        return f"order of the caller's mapping `{t[1]}`" if t[2] == "view" else f"order of parameter `{t[1]}`"
    if t[0] == "attr":
        return f"order of `{t[1]}.{t[2]}`" + (" (a mapping)" if t[3] == "view" else "")
    if t[0] == "method":
        return f"order of what `{t[1]}.{t[2]}()` returns"
    if t[0] == "set":
        return f"set iteration order of `{t[1]}`"
    if t[0] == "unknown":
        return f"unknown order of `{t[1]}`"
    return t[0]


def _stores_under_key(tree: ast.AST, key: str) -> List[Tuple[ast.AST, ast.AST]]:
    """(site, value) for every place in *tree* where a value is put under the constant mapping key *key*."""
    out: List[Tuple[ast.AST, ast.AST]] = []
    for n in ast.walk(tree):
        if isinstance(n, (ast.Assign, ast.AnnAssign)) and getattr(n, "value", None) is not None:
            for t in (n.targets if isinstance(n, ast.Assign) else [n.target]):
                if isinstance(t, ast.Subscript) and isinstance(t.slice, ast.Constant) and t.slice.value == key:
                    out.append((n, n.value))
        elif isinstance(n, ast.Dict):
            out += [(n, v) for k, v in zip(n.keys, n.values) if isinstance(k, ast.Constant) and k.value == key]
        elif isinstance(n, ast.Call):
            out += [(n, kw.value) for kw in n.keywords if kw.arg == key and call_attr(n) in ("dict", "update")]
            if call_attr(n) in ("setdefault", "__setitem__") and len(n.args) == 2 and isinstance(n.args[0], ast.Constant) and n.args[0].value == key:
                out.append((n, n.args[1]))
    return out


def sweep_definition_anchors(repo: Repo) -> Tuple[ast.AST, List[ast.AST]]:
    """(the function that builds the published sweep definition, the functions inside which sweep classes are
    generated), found by role in the sweep factory module: the generated classes put the result of a call under
    'preprocessor' of their metadata - the callee is the builder (a nested def, a module-level function or a method,
    whatever its name), the outermost function around such a class is a generator of sweep classes."""
    cached = repo.__dict__.get("_c04_sweep_anchors")
    if cached is not None:
        return cached
    mod = repo.module(SWEEP)
    builders: List[ast.AST] = []
    factories: List[ast.AST] = []
    hooks: List[ast.AST] = []
    for site, v in _stores_under_key(mod.tree, "preprocessor"):
        if not isinstance(v, ast.Call):
            continue
        targets = [tf for tm, tf in repo.resolve_call(mod, v) if tm.rel == SWEEP and isinstance(tf, FuncNode)]
        if not targets and isinstance(v.func, ast.Attribute):  # cls.<builder>() / self.<builder>(): a method of the generated class
            owner = next((a for a in ancestors(site) if isinstance(a, ast.ClassDef)), None)
            targets = [n for n in (owner.body if owner is not None else []) if isinstance(n, FuncNode) and n.name == v.func.attr]
        for tf in targets:
            if not any(tf is b for b in builders):
                builders.append(tf)
        if targets:
            hook = next((a for a in ancestors(site) if isinstance(a, FuncNode)), None)
            if hook is not None:
                hooks.append(hook)
    # generated classes: created inside a function, holding the hook or referring to it (classmethod(<hook>))
    for c in ast.walk(mod.tree):
        if not isinstance(c, ast.ClassDef):
            continue
        fs = [a for a in ancestors(c) if isinstance(a, FuncNode)]  # innermost first
        if not fs:
            continue
        inner = list(ast.walk(c))
        if any(h is x for h in hooks for x in inner) or any(isinstance(x, ast.Name) and isinstance(x.ctx, ast.Load) and any(x.id == h.name for h in hooks) for x in inner):
            if not any(fs[-1] is x for x in factories):
                factories.append(fs[-1])
    if len(builders) != 1 or not factories:
        raise AnalysisError(f"sweep definition builder not found by role in {SWEEP} ({len(builders)} functions stored under 'preprocessor', {len(factories)} class factories)")
    repo.__dict__["_c04_sweep_anchors"] = (builders[0], factories)
    return builders[0], factories


def _is_member_call(flow: Flow, e: ast.AST) -> bool:
    """`<p>.<method>(...)` with <p> a parameter of the function: whatever the class of the object handed in returns -
    possibly a list (cls.get_context_requirements()), so its order has to be accounted for."""
    return (isinstance(e, ast.Call) and isinstance(e.func, ast.Attribute) and isinstance(e.func.value, ast.Name) and e.func.value.id in flow.params
            and e.func.attr not in VIEW_METHODS | {"get", "pop", "setdefault", "copy"})


def _hashed_sequences(flow: Flow, e: ast.AST) -> List[ast.AST]:
    """Expressions that can evaluate to a list / tuple somewhere inside the structure *e* evaluates to (through
    mappings, sequences, locals, stores and updates)."""
    out: List[ast.AST] = []
    seen: Set[int] = set()

    def collect(x: ast.AST, depth: int) -> None:
        if id(x) in seen or depth > 5 or not isinstance(x, ast.expr):
            return
        seen.add(id(x))
        try:
            top = flow.origins(x)
            below = flow.origins(x, (ANY,))
        except AnalysisError:
            return
        if any(not rest and (_is_sequence_like(root) or _is_member_call(flow, root)) for root, rest in top):
            out.append(x)
        for root, rest in sorted(below, key=lambda l: (getattr(l[0], "lineno", 0), getattr(l[0], "col_offset", 0))):
            if not rest:
                collect(root, depth + 1)

    collect(e, 0)
    return out


def _entry_contexts(repo: Repo, fn0: ast.AST) -> List[Tuple[ast.AST, Optional[ast.Call]]]:
    """Where the parameters of the class factory *fn0* get their values: [(fn0, None)] when it is called from outside
    the module (public name / no caller here), else one (caller, call) per call site in the module."""
    mod = repo.module(SWEEP)
    if not fn0.name.startswith("_") or fn0.name.startswith("__"):
        return [(fn0, None)]
    out: List[Tuple[ast.AST, Optional[ast.Call]]] = []
    for qn, caller in mod.defs.items():
        if not isinstance(caller, FuncNode) or caller is fn0:
            continue
        nf = nfunc(repo, SWEEP, qn)
        for c in calls_in(nf):
            if call_attr(c) == fn0.name and any(tf is fn0 for _tm, tf in repo.resolve_call(mod, c)):
                out.append((caller, c))
    return out or [(fn0, None)]


def _bad_order_tags(repo: Repo, fn0: ast.AST, tags: Set[Tag], depth: int = 0) -> List[str]:
    """Descriptions of the tags that make a hashed list depend on a cosmetic order.  Parameters of a private class
    factory are followed to the arguments at its call sites."""
    bad: List[str] = []
    param_tags = [t for t in tags if t[0] in ("param", "attr")]
    bad += [_show_tag(t) for t in tags if t[0] in ("set", "unknown")]
    if not param_tags:
        return sorted(set(bad))
    for ctx_fn, call in _entry_contexts(repo, fn0):
        if call is None or depth >= 2:
            cm = config_mappings(fn0)
            bad += [_show_tag(t) for t in param_tags if t[-1] == "view" or t[1] in cm]
            continue
        flow = flow_of(repo, SWEEP, qualname_of(ctx_fn))
        o = Order(repo, SWEEP, flow)
        pos = [p.arg for p in fn0.args.posonlyargs + fn0.args.args]
        for t in param_tags:
            arg = kwarg(call, t[1])
            if arg is None and t[1] in pos and pos.index(t[1]) < len(call.args):
                arg = call.args[pos.index(t[1])]
            if arg is None:
                continue  # the default value
            use = o._use(arg)
            sub = o._attr_of(arg, t[2], use, t[-1] == "view", frozenset()) if t[0] == "attr" else o.of(arg, use, t[-1] == "view")
            bad += _bad_order_tags(repo, ctx_fn, sub, depth + 1)
    return sorted(set(bad))


def _generated_classes(repo: Repo, factories0: List[ast.AST]) -> List[Tuple[ast.AST, ast.ClassDef]]:
    """(factory, class) for every class created inside a sweep class factory (original tree)."""
    return [(f0, c) for f0 in factories0 for c in ast.walk(f0) if isinstance(c, ast.ClassDef)]


def _class_member_orders(repo: Repo, factories0: List[ast.AST], tags: Set[Tag], recv: Set[str], depth: int = 0) -> Tuple[List[str], Set[str], Set[Tag]]:
    """Resolve the order tags that name a member of the generated sweep class (the receiver *recv* of the builder / of
    one of the class's methods): an attribute is followed to the value the class factory binds in the class body (in the
    factory's frame), a method to what it returns (looked up in the class body, then along the bases), recursively.
    Returns (descriptions of cosmetic orders found, kinds of order seen, the tags that are not class members)."""
    bad: List[str] = []
    shown: Set[str] = set()
    rest: Set[Tag] = set()
    mod = repo.module(SWEEP)
    for t in sorted(tags):
        if t[0] == "attr" and t[1] in recv:
            # attribute of the generated class: the value bound in the class body, in the factory's frame
            found = False
            for f0 in factories0:
                fflow = flow_of(repo, SWEEP, qualname_of(f0))
                for c in [c for c in ast.walk(fflow.fn) if isinstance(c, ast.ClassDef)]:
                    for st in c.body:
                        tg = st.targets if isinstance(st, ast.Assign) else [st.target] if isinstance(st, ast.AnnAssign) and st.value is not None else []
                        if any(isinstance(x, ast.Name) and x.id == t[2] for x in tg):
                            found = True
                            sub = order_of(repo, SWEEP, fflow, st.value, view=t[3] == "view")
                            shown |= {x[0] for x in sub}
                            bad += _bad_order_tags(repo, f0, sub)
            if not found:
                shown.add("fixed")  # never bound by a generated class: the default of the read
        elif t[0] == "method" and t[1] in recv:
            # method of the generated class: the order of what it returns, for every generated class that has it
            label = f"{t[1]}.{t[2]}()"
            targets: List[Tuple[object, ast.AST]] = []
            for _f0, c in _generated_classes(repo, factories0):
                hit = repo.method(mod, c, t[2])
                if hit is not None and not any(hit[1] is x[1] for x in targets):
                    targets.append(hit)
            if not targets or depth >= 3:
                bad.append(f"unknown order of `{label}` (no generated sweep class defines or inherits it)" if not targets else f"unknown order of `{label}`")
                continue
            for tm, tf in targets:
                try:
                    mflow = flow_of(repo, tm.rel, qualname_of(tf))
                except AnalysisError:
                    bad.append(f"unknown order of `{label}`")
                    continue
                rets = [n for n in walk_no_nested(mflow.fn) if isinstance(n, ast.Return) and n.value is not None]
                if not rets or any(isinstance(n, (ast.Yield, ast.YieldFrom)) for n in walk_no_nested(mflow.fn)):
                    bad.append(f"unknown order of `{label}`")
                    continue
                static = any(isinstance(d, ast.Name) and d.id == "staticmethod" for d in tf.decorator_list)
                mpos = [a.arg for a in tf.args.posonlyargs + tf.args.args]
                mrecv = {mpos[0]} if mpos and not static else set()
                for ret in rets:
                    sub = order_of(repo, tm.rel, mflow, ret.value, view=t[3] == "view")
                    b2, s2, r2 = _class_member_orders(repo, factories0, sub, mrecv, depth + 1)
                    bad += [f"{x} (returned by `{qualname_of(tf)}`)" for x in b2]
                    shown |= s2 | {x[0] for x in r2 if x[0] in ("sorted", "fixed", "set", "unknown")}
                    # what the method's own parameters show was accounted for at the call (its arguments)
                    bad += [f"{_show_tag(x)} (returned by `{qualname_of(tf)}`)" for x in r2 if x[0] in ("set", "unknown")]
        else:
            rest.add(t)
    return bad, shown, rest


def sweep_list_order(repo: Repo, R: Report, rule: str) -> None:
    """C04-D2 list-order provenance of the published sweep definition: every list inside the mapping the builder
    returns is sorted, written down in the program, or in an order the configuration text cannot change (the
    declaration order of the wrapped element's parameters) - never the key order of a mapping the caller supplied
    (vars, parametric_expressions) or of a set.  Lists that copy an attribute of the generated class are followed
    to the value the class factory binds to that attribute."""
    builder0, factories0 = sweep_definition_anchors(repo)
    b_qn = qualname_of(builder0)
    bflow = flow_of(repo, SWEEP, b_qn)
    bfn = bflow.fn
    bparams = [p.arg for p in _params_list(bfn)]
    n = 0
    for ret in [x for x in walk_no_nested(bfn) if isinstance(x, ast.Return) and x.value is not None]:
        for seq in _hashed_sequences(bflow, ret.value):
            n += 1
            tags = order_of(repo, SWEEP, bflow, seq)
            recv = {"cls", "self"} | ({bparams[0]} if bparams else set())
            bad, shown, rest = _class_member_orders(repo, factories0, tags, recv)
            shown |= {x[0] for x in rest}
            bad += _bad_order_tags(repo, builder0, rest)
            par = getattr(seq, "_parent", None)
            key = next((k.value for k, v in zip(par.keys, par.values) if v is seq and isinstance(k, ast.Constant)), None) if isinstance(par, ast.Dict) else None
            kind = "sorted" if shown <= {"sorted"} and shown else "fixed" if not bad else "caller-dependent"
            label = (f"{key!r}: " if key is not None else "") + f"{norm(seq)[:60]} [{kind} order]"
            R.check(not bad, rule, SWEEP, b_qn, label,
                    f"a list hashed into the node semantic id inherits {'; '.join(sorted(set(bad)))[:200]}: reordering the keys of the sweep's mapping (or another hash seed) changes config_id", getattr(seq, "lineno", bfn.lineno))
    if n == 0:
        raise AnalysisError("no list found inside the published sweep definition (dependencies.required_external_parameters / context_keys expected)")


# ---------------------------------------------------------------------------
# round 12: D2e - what node preprocessing adds to a node mapping (on its way to the canonicaliser) has no list in the
# key order of a configuration mapping
# ---------------------------------------------------------------------------
def _generated_class_locals(repo: Repo, rel: str, flow: Flow) -> Dict[int, str]:
    """{id of a member call `<x>.<m>(..)`: x} for the calls of *flow*'s function whose receiver is a local that holds
    what a function of the sweep factory module returned (the generated sweep class)."""
    mod = repo.module(rel)
    out: Dict[int, str] = {}
    for c in calls_in(flow.fn):
        if not (isinstance(c.func, ast.Attribute) and isinstance(c.func.value, ast.Name)) or c.func.value.id in flow.params:
            continue
        try:
            leaves = flow.origins(c.func.value)
        except AnalysisError:
            continue
        for root, rest in leaves:
            if rest or not isinstance(root, ast.Call):
                continue
            try:
                targets = repo.resolve_call(mod, root)
            except AnalysisError:
                targets = []
            if any(tm.rel == SWEEP for tm, _tf in targets):
                out[id(c)] = c.func.value.id
    return out


def derived_node_lists_order(repo: Repo, R: Report) -> None:
    """C04-D2e: the node mapping node preprocessing returns is what the canonicaliser copies its fields from (ports,
    parameters, derive ..) into the hashed canonical node; json.dumps(sort_keys=True) orders mapping keys but cannot
    reorder a list.  So every list the preprocessing step itself puts into the returned mapping is sorted, written down
    in the program, or in an order the configuration text cannot change - never the key order of a configuration
    mapping or a set, also not through a method of the generated sweep class (whose lists follow the key order of
    `variables`)."""
    r = R.rule("C04-D2e-derived-node-lists-order", "no list that node preprocessing puts into the node mapping it hands to the canonicaliser follows the key order of a configuration mapping (directly, or through a method / attribute of the generated sweep class) or the iteration order of a set: the canonical node copies node fields verbatim and sort_keys cannot reorder a list, so the order in which the keys of `variables:` / `parameters:` are written would enter the node UUID, pipeline id, semantic id and config id", 1)
    _builder0, factories0 = sweep_definition_anchors(repo)
    for entry in PUBLIC_ENTRIES[PREP]:
        f0 = repo.func(PREP, entry)
        flow = flow_of(repo, PREP, entry)
        fn = flow.fn
        members = _generated_class_locals(repo, PREP, flow)
        n = 0
        seen: Set[int] = set()

        def collect(x: ast.AST, depth: int, out: List[ast.AST]) -> None:
            if id(x) in seen or depth > 5 or not isinstance(x, ast.expr):
                return
            seen.add(id(x))
            try:
                top = flow.origins(x)
                below = flow.origins(x, (ANY,))
            except AnalysisError:
                return
            for root, rest in top:
                if not rest and (_is_sequence_like(root) or id(root) in members or isinstance(root, (ast.Set, ast.SetComp))) and not any(root is o for o in out):
                    out.append(root)
            for root, rest in sorted(below, key=lambda l: (getattr(l[0], "lineno", 0), getattr(l[0], "col_offset", 0))):
                if not rest:
                    collect(root, depth + 1, out)

        for ret in [x for x in walk_no_nested(fn) if isinstance(x, ast.Return) and x.value is not None]:
            seqs: List[ast.AST] = []
            collect(ret.value, 0, seqs)
            for seq in seqs:
                n += 1
                if id(seq) in members:
                    recv = members[id(seq)]
                    tags: Set[Tag] = {("method", recv, seq.func.attr, "direct")}
                    bad, _shown, rest = _class_member_orders(repo, factories0, tags, {recv})
                else:
                    tags = order_of(repo, PREP, flow, seq)
                    member_tags = {t for t in tags if t[0] == "method"}
                    bad, _shown, rest = _class_member_orders(repo, factories0, member_tags, {t[1] for t in member_tags}) if member_tags else ([], set(), set())
                    rest = set(rest) | (tags - member_tags)
                cm = config_mappings(f0)
                bad = list(bad) + [_show_tag(t) for t in rest if t[0] in ("set", "unknown") or (t[0] in ("param", "attr") and (t[-1] == "view" or (t[0] == "param" and t[1] in cm and t[-1] == "direct")))]
                R.check(not bad, r, PREP, entry, f"{norm(seq)[:70]} [list inside the returned node mapping]",
                        f"a list inside the node mapping handed to the canonicaliser inherits {'; '.join(sorted(set(bad)))[:220]}: the canonical node copies the field verbatim and sort_keys cannot reorder a list, so reordering the keys of that mapping in the YAML changes node UUID, pipeline id, semantic id and config id on all three paths", getattr(seq, "lineno", f0.lineno))
        if n == 0:
            R.ok(r, PREP, entry, f"{entry}: the returned node mapping holds no list built by the preprocessing step", "", f0.lineno)


# ---------------------------------------------------------------------------
# round 5: D4c - the node configurations reach canonicalisation as they were parsed, on every path
# ---------------------------------------------------------------------------
COPY_CALLS = MAP_COPIES | SEQ_COPIES | {"copy", "deepcopy"}
NON_CARRIER_CALLS = {"isinstance", "len", "all", "any", "print", "type", "hasattr", "callable", "str", "repr", "bool"}


def _schema_keys_read(fn: ast.AST) -> Set[str]:
    """Constant mapping keys *fn* reads (subscripts, .get, `in` tests), nested scopes included."""
    out: Set[str] = set()
    for n in ast.walk(fn):
        if isinstance(n, ast.Subscript) and isinstance(n.slice, ast.Constant) and isinstance(n.slice.value, str):
            out.add(n.slice.value)
        elif isinstance(n, ast.Call) and isinstance(n.func, ast.Attribute) and n.func.attr == "get" and n.args and isinstance(n.args[0], ast.Constant) and isinstance(n.args[0].value, str):
            out.add(n.args[0].value)
    return out


def _is_node_field_of_raw_config(rest: Tuple[str, ...], depth: int) -> bool:
    """The remaining path of a leaf says "field (to *depth*-1 levels) of an element of pipeline.nodes"."""
    return len(rest) >= depth + 2 and rest[-depth - 2:-depth] == ("f:pipeline", "f:nodes") and not rest[-depth].startswith("f:")


def _rewritten_leaves(repo: Repo, rel: str, flow: Flow, e: ast.AST, depth: int, level: int = 0) -> Optional[List[Tuple[ast.AST, str]]]:
    """None when *e* does not carry node configurations read from `<config>['pipeline']['nodes']`; else the values a
    field (*depth* levels below the node list) can hold that are NOT what the parsed configuration held there:
    [(expression that makes the value, description)].  A copy (dict(x), list(x), x.copy(), deepcopy) is looked through;
    a value returned by a function of the package is followed into it."""
    path = (ANY,) * depth
    try:
        leaves = flow.origins(e, path)
    except AnalysisError:
        return None
    if level == 0 and not any(_is_node_field_of_raw_config(rest, depth) for _root, rest in leaves):
        return None
    bad: List[Tuple[ast.AST, str]] = []
    todo = [(root, rest, 0) for root, rest in leaves]
    seen: Set[Tuple[int, Tuple[str, ...]]] = set()
    while todo:
        root, rest, peeled = todo.pop()
        if (id(root), rest) in seen:
            continue
        seen.add((id(root), rest))
        if not rest:
            # a value made here: a copy of something is that something
            is_copy = isinstance(root, ast.Call) and call_attr(root) in COPY_CALLS and not root.keywords and (len(root.args) == 1 or (not root.args and isinstance(root.func, ast.Attribute) and root.func.attr == "copy"))
            if is_copy and peeled < 4:
                inner = root.args[0] if root.args else root.func.value  # type: ignore[union-attr]
                try:
                    todo += [(r2, p2, peeled + 1) for r2, p2 in flow.origins(inner)]
                    continue
                except AnalysisError:
                    pass
            if isinstance(root, ast.Name) and peeled:
                continue  # a copy of a whole raw object was made above: nothing to look through
            bad.append((root, f"`{norm(root)[:60]}`"))
            continue
        if len(rest) < depth or rest[-depth].startswith("f:"):
            bad.append((root, f"`{_show_leaf((root, rest))}` (not a field of a node of the parsed configuration)"))
            continue
        if isinstance(root, ast.Call) and level < 2:
            targets = [(tm, tf) for tm, tf in repo.resolve_call(repo.module(rel), root) if isinstance(tf, FuncNode) and tm.defs.get(qualname_of(tf)) is tf]
            for tm, tf in targets:
                try:
                    sub = flow_of(repo, tm.rel, qualname_of(tf))
                except AnalysisError:
                    continue
                for ret in [n for n in walk_no_nested(sub.fn) if isinstance(n, ast.Return) and n.value is not None]:
                    try:
                        sub_leaves = sub.origins(ret.value, rest)
                    except AnalysisError:
                        continue
                    for r2, p2 in sub_leaves:
                        if not p2 and not (isinstance(r2, ast.Call) and call_attr(r2) in COPY_CALLS):
                            bad.append((root, f"`{norm(r2)[:50]}` made in {qualname_of(tf)}"))
    return bad


def node_configs_pass_through(repo: Repo, R: Report) -> None:
    """C04-D4c: between the parsed YAML mapping and the consumers of the node list (Pipeline construction, inspection,
    canonicalisation) nobody rewrites a node."""
    r = R.rule("C04-D4c-node-configs-pass-through", "every function of the package that takes the node list out of a parsed configuration (`<config>['pipeline']['nodes']`: the YAML loader, the CLI, the inspection and graph builders) hands the node mappings on as they were parsed - each field of each node it returns or passes to a call holds the value the parsed configuration held there (a copy is fine, a validated / defaulted / coerced replacement is not): inspect, Pipeline(...) and `semantiva run` canonicalise the same YAML through different such functions, so a value that one of them rewrites (None -> {}, a default filled in) gives the same configuration different node uuids and ids on different paths", 3)
    for mod, qn, f in sorted(repo.all_functions(), key=lambda t: (t[0].rel, getattr(t[2], "lineno", 0))):
        if mod.rel.startswith(("semantiva/examples/", "semantiva/trace/")) or mod.defs.get(qn) is not f:
            continue
        if not {"pipeline", "nodes"} <= _schema_keys_read(f):
            continue
        try:
            flow = flow_of(repo, mod.rel, qn, elem_alias=True)
        except AnalysisError:
            continue
        fn = flow.fn
        cands: List[ast.AST] = []
        for n in walk_no_nested(fn):
            if isinstance(n, ast.Call) and call_attr(n) not in NON_CARRIER_CALLS and not _message_context(n, fn):
                cands += [a for a in list(n.args) + [kw.value for kw in n.keywords] if not isinstance(a, ast.Starred)]
            elif isinstance(n, ast.Return) and n.value is not None:
                cands += list(n.value.elts) if isinstance(n.value, ast.Tuple) else [n.value]
        done: Set[str] = set()
        for e in cands:
            if isinstance(e, (ast.Constant, ast.JoinedStr, ast.Lambda, ast.Compare, ast.BoolOp, ast.UnaryOp)) or norm(e) in done:
                continue
            found: Optional[List[Tuple[ast.AST, str]]] = None
            for depth in (2, 3):
                got = _rewritten_leaves(repo, mod.rel, flow, e, depth)
                if got is not None:
                    found = (found or []) + got
            if found is None:
                continue
            done.add(norm(e))
            site = found[0][0] if found else e
            st = stmt_of(site) if found else stmt_of(e)
            R.check(not found, r, mod.rel, qn, f"node configurations handed on: `{norm(e)[:70]}`",
                    f"`{norm(st)[:90]}`: a field of a node mapping taken from `['pipeline']['nodes']` is replaced by " + "; ".join(sorted({d for _x, d in found or []}))[:200] + " before the node list is handed on: this function stands between the parsed YAML and the identity functions on one of the paths (loader / CLI run / inspect / Pipeline), the others canonicalise the node as parsed - the same configuration gets different node uuids, semantic id and config id on the two paths whenever the replacement differs from the parsed value (an empty `parameters:` block, an omitted key)", getattr(st, "lineno", 0))


PUBLIC_ENTRIES = {
    GRAPH: ("build_canonical_spec", "compute_pipeline_id", "compute_upstream_map"),
    SEM: ("compute_node_semantic_id", "compute_pipeline_config_id", "compute_pipeline_semantic_id", "normalize_expression_sig_v1", "variable_domain_signature"),
    BUILDER: ("build_inspection_payload",),
    IDENT: ("RunSpaceIdentityService.compute",),
    DESC: ("descriptor_to_json",),
    PREP: ("preprocess_node_config",),
}


def _moved_code(repo: Repo, rel: str) -> List[ast.AST]:
    """Functions of file *rel* reached (call graph, inside the file) from its public identity entry points."""
    mod = repo.module(rel)
    roots = []
    for qn in PUBLIC_ENTRIES.get(rel, ()):
        f = repo.maybe_func(rel, qn)
        if f is None:
            raise AnalysisError(f"identity slice anchor vanished: {rel}:{qn}")
        roots.append((mod, f))
    clo = repo.call_graph_closure(roots, stop=lambda m, n: m.rel != rel)
    return [f for m, f, _p in sorted(clo.values(), key=lambda t: getattr(t[1], "lineno", 0)) if m.rel == rel and isinstance(f, FuncNode)]


def _normaliser_anchors(repo: Repo) -> List[Tuple[str, str]]:
    """The two hand-written key-order normalisers of the run-space spec id (run time: RSCF bytes; inspection): the named
    functions, or - when one moved - the functions of its file reached from the public entry point that call a
    recursive function / are recursive themselves (a normaliser walks the value recursively)."""
    out: List[Tuple[str, str]] = []
    for rel, qn in ((IDENT, "RunSpaceIdentityService._rscf_v1"), (BUILDER, "_normalize_run_space")):
        if repo.maybe_func(rel, qn) is not None:
            out.append((rel, qn))
            continue
        mod = repo.module(rel)
        found = []
        for f in _moved_code(repo, rel):
            if mod.defs.get(qualname_of(f)) is not f:
                continue
            own = [c for c in calls_in(f) if call_attr(c) == f.name]
            if own and order_normaliser_gap(normalize(repo, mod, f, inline=False, loops=True)) is None:
                found.append((rel, qualname_of(f)))
        if not found:  # no complete normaliser anywhere on the path: report on every recursive candidate
            found = [(rel, qualname_of(f)) for f in _moved_code(repo, rel) if mod.defs.get(qualname_of(f)) is f and any(call_attr(c) == f.name for c in calls_in(f))]
        if not found:
            raise AnalysisError(f"key-order normaliser of the run-space spec id not found in {rel}")
        out += found
    return out


def required_keys_sorted(repo: Repo, R: Report, rule: str) -> None:
    """C04-D2: what the inspection payload carries under 'required_context_keys' is, on every path, sorted(...) under a
    total order or an empty list.  Anchored at the public entry point (build_inspection_payload) and the payload key;
    the helper that computes the list is inlined by the normal form wherever it lives."""
    flow = flow_of(repo, BUILDER, "build_inspection_payload")
    fn = flow.fn
    returned: Set[Leaf] = set()
    for n in walk_no_nested(fn):
        if isinstance(n, ast.Return) and n.value is not None:
            returned |= flow.origins(n.value, ("f:required_context_keys",))
    # a helper the normal form could not inline: its returned values
    expanded: Set[Leaf] = set()
    where = "build_inspection_payload"
    for root, rest in returned:
        targets = repo.resolve_call(repo.module(BUILDER), root) if isinstance(root, ast.Call) and not rest else []
        targets = [(tm, tf) for tm, tf in targets if isinstance(tf, FuncNode) and tm.defs.get(qualname_of(tf)) is tf]
        if not targets or (isinstance(root.func, ast.Name) and root.func.id == "sorted"):
            expanded.add((root, rest))
            continue
        for tm, tf in targets:
            sub = flow_of(repo, tm.rel, qualname_of(tf))
            where = qualname_of(tf)
            for n in walk_no_nested(sub.fn):
                if isinstance(n, ast.Return) and n.value is not None:
                    expanded |= sub.origins(n.value)
    if not expanded:
        raise AnalysisError("build_inspection_payload: no value found under 'required_context_keys' of the payload")
    # sorted(...) under a total order: a key that can tie two different names leaves them in set iteration order
    is_sorted = lambda l: isinstance(l[0], ast.Call) and not l[1] and isinstance(l[0].func, ast.Name) and l[0].func.id == "sorted" and _total_sort_key(kwarg(l[0], "key"))  # noqa: E731
    is_empty = lambda l: not l[1] and ((isinstance(l[0], (ast.List, ast.Tuple)) and not l[0].elts) or (isinstance(l[0], ast.Call) and call_attr(l[0]) in ("list", "tuple") and not l[0].args))  # noqa: E731
    unsorted = sorted(_show_leaf(l) for l in expanded if not (is_sorted(l) or is_empty(l)))
    R.check(any(is_sorted(l) for l in expanded) and not unsorted, rule, BUILDER, where, "required context keys returned sorted", f"the required-key list of the inspection payload follows set iteration order (hash-seed dependent), entirely or among names the sort key ties: it can be `{unsorted[0] if unsorted else 'nothing sorted'}`", fn.lineno)


# ---------------------------------------------------------------------------
# round 9: D2c - declared scalar fields of a sweep-variable spec reach the hashed signature with a type fixed by the code
# ---------------------------------------------------------------------------
TYPE_FIXERS = {"float", "int", "str", "bool", "len"}
DECLARED_SCALARS = {"float", "int", "str", "bool"}
TYPE_QUERIES = {"type", "isinstance", "issubclass", "hasattr", "callable", "id", "is_dataclass"}


def _declared_scalar_fields(cls: ast.ClassDef) -> Dict[str, Tuple[str, int]]:
    """field -> (declared scalar type, position) of the class-level annotated fields (dataclass style) whose annotation
    is float / int / str / bool, or a Literal of text constants (str)."""
    out: Dict[str, Tuple[str, int]] = {}
    pos = 0
    for st in cls.body:
        if not (isinstance(st, ast.AnnAssign) and isinstance(st.target, ast.Name)):
            continue
        ann = st.annotation
        if isinstance(ann, ast.Constant) and isinstance(ann.value, str):
            try:
                ann = ast.parse(ann.value, mode="eval").body
            except SyntaxError:
                ann = st.annotation
        t: Optional[str] = None
        d = dotted_name(ann)
        if d is not None and d.split(".")[-1] in DECLARED_SCALARS:
            t = d.split(".")[-1]
        elif isinstance(ann, ast.Subscript) and (dotted_name(ann.value) or "").split(".")[-1] == "Literal":
            elts = ann.slice.elts if isinstance(ann.slice, ast.Tuple) else [ann.slice]
            if elts and all(isinstance(x, ast.Constant) and isinstance(x.value, str) for x in elts):
                t = "str"
        if d is None or d.split(".")[-1] != "ClassVar":
            if t is not None:
                out[st.target.id] = (t, pos)
            pos += 1
    return out


def _membership_validated(cls: ast.ClassDef) -> Set[str]:
    """Fields the class itself refuses (raise in __post_init__ / __init__) unless they equal one of some text constants."""
    out: Set[str] = set()
    for m in cls.body:
        if not (isinstance(m, FuncNode) and m.name in ("__post_init__", "__init__")):
            continue
        for n in walk_no_nested(m):
            if not (isinstance(n, ast.If) and any(isinstance(b, ast.Raise) for b in n.body)):
                continue
            t = n.test
            if isinstance(t, ast.Compare) and len(t.ops) == 1 and isinstance(t.ops[0], ast.NotIn) and isinstance(t.left, ast.Attribute) and isinstance(t.left.value, ast.Name) and t.left.value.id == "self":
                c = t.comparators[0]
                if isinstance(c, (ast.Tuple, ast.List, ast.Set)) and c.elts and all(isinstance(x, ast.Constant) and isinstance(x.value, str) for x in c.elts):
                    out.add(t.left.attr)
    return out


def _in_test_position(e: ast.AST, top: ast.AST) -> bool:
    """The expression is only compared / tested (its value does not become part of what the statement produces)."""
    cur = e
    for a in ancestors(e):
        if isinstance(a, ast.Compare):
            return True
        if isinstance(a, (ast.If, ast.While, ast.IfExp, ast.Assert)) and cur is a.test:
            return True
        if isinstance(a, ast.stmt) or a is top:
            return False
        cur = a
    return False


def spec_field_reads(repo: Repo, rel: str, fn: ast.AST, pname: str, depth: int = 0, seen: Optional[Set[Tuple[str, str, str]]] = None) -> List[Tuple[str, ast.AST, Optional[str], str, str]]:
    """How *fn* (nested functions included) reads the object bound to *pname*:
    [(field or '*', expression, name of the type conversion the read value is the argument of / None, file, function)].
    '*' = the whole object leaves the package (asdict(spec), vars(spec), spec.__dict__): every field, as it is.  A
    package function that is handed the object is followed."""
    seen = seen if seen is not None else set()
    names = {pname}
    for n in ast.walk(fn):  # plain aliases
        if isinstance(n, ast.Assign) and isinstance(n.value, ast.Name) and n.value.id in names:
            names |= {t.id for t in n.targets if isinstance(t, ast.Name)}
    out: List[Tuple[str, ast.AST, Optional[str], str, str]] = []
    mod = repo.module(rel)
    qn = getattr(fn, "name", "?")

    def fixed_by(e: ast.AST) -> Optional[str]:
        par = getattr(e, "_parent", None)
        if isinstance(par, ast.Call) and isinstance(par.func, ast.Name) and par.func.id in TYPE_FIXERS and len(par.args) == 1 and par.args[0] is e and not par.keywords:
            return par.func.id
        return None

    for n in ast.walk(fn):
        if not (isinstance(n, ast.Name) and isinstance(n.ctx, ast.Load) and n.id in names):
            continue
        par = getattr(n, "_parent", None)
        if isinstance(par, ast.Attribute) and par.value is n:
            if par.attr == "__dict__":
                out.append(("*", par, None, rel, qn))
            elif not par.attr.startswith("__") and not (isinstance(getattr(par, "_parent", None), ast.Call) and par._parent.func is par):
                if not _in_test_position(par, fn):
                    out.append((par.attr, par, fixed_by(par), rel, qn))
            continue
        if isinstance(par, ast.keyword):
            par = getattr(par, "_parent", None)
        if not isinstance(par, ast.Call) or par.func is n:
            continue
        cname = call_attr(par)
        if cname == "getattr" and len(par.args) >= 2 and par.args[0] is n and isinstance(par.args[1], ast.Constant) and isinstance(par.args[1].value, str):
            if not par.args[1].value.startswith("__") and not _in_test_position(par, fn):
                out.append((par.args[1].value, par, fixed_by(par), rel, qn))
            continue
        if cname in TYPE_QUERIES:
            continue
        targets = [(tm, tf) for tm, tf in repo.resolve_call(mod, par) if isinstance(tf, FuncNode) and tm.defs.get(qualname_of(tf)) is tf]
        if not targets:
            if not _in_test_position(par, fn):
                out.append(("*", par, None, rel, qn))
            continue
        for tm, tf in targets:
            pos = [a.arg for a in tf.args.posonlyargs + tf.args.args]
            bound = [pos[i] for i, a in enumerate(par.args) if a is n and i < len(pos)] + [kw.arg for kw in par.keywords if kw.value is n and kw.arg]
            for p2 in bound:
                key = (tm.rel, qualname_of(tf), p2)
                if key in seen or depth >= 2:
                    continue
                seen.add(key)
                try:
                    sub = nfunc(repo, tm.rel, qualname_of(tf), copyprop="all")
                except AnalysisError:
                    continue
                out += spec_field_reads(repo, tm.rel, sub, p2, depth + 1, seen)
    return out


def _constructor_sites(repo: Repo, cls_mod, cls: ast.ClassDef) -> List[Tuple[object, str, ast.Call, Optional[Flow]]]:
    """(module, function, call, value-origin analysis) of the package code (examples aside) that constructs *cls*; the
    call is the one of the normal form of the function where that can be analysed."""
    out: List[Tuple[object, str, ast.Call, Optional[Flow]]] = []

    def constructs(mod, c: ast.Call) -> bool:
        if (call_attr(c) or "") != cls.name and not (isinstance(c.func, ast.Name) and mod.imports.get(c.func.id, "").endswith("." + cls.name)):
            return False
        try:
            r = repo.resolve_name(mod, c.func, c)
        except AnalysisError:
            return False
        return r is not None and r[1] is cls

    for mod, qn, f in sorted(repo.all_functions(), key=lambda t: (t[0].rel, getattr(t[2], "lineno", 0))):
        if mod.rel.startswith("semantiva/examples/") or mod.defs.get(qn) is not f:
            continue
        raw_sites = [c for c in calls_in(f) if constructs(mod, c)]
        if not raw_sites:
            continue
        try:
            flow: Optional[Flow] = flow_of(repo, mod.rel, qn)
        except AnalysisError:
            flow = None
        nf_sites = [c for c in calls_in(flow.fn) if constructs(mod, c)] if flow is not None else []
        if flow is not None and len(nf_sites) >= len(raw_sites):
            out += [(mod, qn, c, flow) for c in nf_sites]
        else:
            out += [(mod, qn, c, None) for c in raw_sites]
    return out


def _type_fixed_value(flow: Optional[Flow], site: ast.Call, v: ast.AST) -> Tuple[bool, str]:
    """The value handed to the constructor has a type chosen by the code on every path: a constant, the result of
    float()/int()/str()/bool(), or a value the function refuses (isinstance of exactly one scalar type) otherwise."""
    if flow is None:
        return True, ""  # not analysable: the benefit of the doubt (the other rules report unknown shapes)
    try:
        leaves = flow.origins(v)
    except AnalysisError:
        return True, ""
    raw = []
    for root, rest in leaves:
        if not rest and isinstance(root, ast.Constant):
            continue
        if not rest and isinstance(root, ast.Call) and isinstance(root.func, ast.Name) and root.func.id in TYPE_FIXERS:
            continue
        raw.append((root, rest))
    if not raw:
        return True, ""
    # validated: every way to the call passes `isinstance(<v>, <one scalar type>)`
    texts = {norm(v)}
    if isinstance(v, ast.Name):
        texts |= {norm(d.ast.value) for d in flow._all_defs(v.id) if isinstance(d.ast, ast.Assign) and len(d.ast.targets) == 1 and isinstance(d.ast.targets[0], ast.Name)}
    for x_text in sorted(texts):
        def one_type(test: ast.AST, _t=x_text) -> Optional[bool]:
            t = _isinstance_of(test, _t)
            return True if t is not None and len(t) == 1 and t <= DECLARED_SCALARS else None
        if _guarded(flow.g, flow.fn, site, one_type):
            return True, ""
    return False, _show_leaf(sorted(raw, key=lambda l: (getattr(l[0], "lineno", 0), getattr(l[0], "col_offset", 0)))[0])


def declared_scalars_type_fixed(repo: Repo, R: Report) -> None:
    """C04-D2c."""
    r = R.rule("C04-D2c-declared-scalar-type-fixed", "a field of a sweep-variable specification that the class declares as a scalar (lo: float, steps: int, scale: Literal[..], endpoint: bool) enters the hashed domain signature with a type chosen by the code, not by the YAML spelling: the signature converts what it reads (`float(spec.lo)`), or every place of the package that constructs the specification converts / validates what it stores there (float(..), a constant, isinstance of one type).  Python does not enforce the declaration, json.dumps writes 2 and 2.0 (1 and true) differently, and the range means the same points either way - a bound that is stored as parsed and signed as stored gives `[0, 2]`, `[0.0, 2.0]` and `{lo: 0, hi: 2, steps: 10}` different node semantic / semantic / config ids", 3)
    sig = repo.maybe_func(SEM, "variable_domain_signature")
    if sig is None:
        raise AnalysisError(f"identity slice anchor vanished: {SEM}:variable_domain_signature")
    fn = nfunc(repo, SEM, "variable_domain_signature", copyprop="all")
    params = [a.arg for a in fn.args.posonlyargs + fn.args.args]
    if not params:
        raise AnalysisError("variable_domain_signature takes no specification parameter")
    reads = spec_field_reads(repo, SEM, fn, params[0])
    # the specification classes: named in the signature function (it dispatches on the class), or defined in a module
    # whose code hands specifications to the signature function
    named = {n.value for n in ast.walk(fn) if isinstance(n, ast.Constant) and isinstance(n.value, str)} | {n.id for n in ast.walk(fn) if isinstance(n, ast.Name)} | {n.attr for n in ast.walk(fn) if isinstance(n, ast.Attribute)}
    caller_mods = set()
    for mod, qn, f in repo.all_functions():
        if mod.rel.startswith("semantiva/examples/"):
            continue
        for c in calls_in(f):
            if call_attr(c) == "variable_domain_signature":
                caller_mods.add(mod.rel)
    classes = []
    for mod, qn, c in repo.all_classes():
        if mod.rel.startswith("semantiva/examples/") or mod.defs.get(qn) is not c:
            continue
        fields = _declared_scalar_fields(c)
        if fields and (c.name in named or mod.rel in caller_mods):
            classes.append((mod, c, fields))
    all_fields = {f for _m, _c, fields in classes for f in fields}
    whole = [x for x in reads if x[0] == "*"]
    for mod, c, fields in classes:
        # a class whose declared fields the signature never reads (and that never leaves whole) is not a specification it signs
        if not any(x[0] in fields for x in reads) and not (whole and (c.name in named or not any(c2.name in named for _m2, c2, _f2 in classes))):
            continue
        validated = _membership_validated(c)
        sites = _constructor_sites(repo, mod, c)
        order = sorted(fields, key=lambda f: fields[f][1])
        all_ann = [st.target.id for st in c.body if isinstance(st, ast.AnnAssign) and isinstance(st.target, ast.Name)]
        for f in order:
            t = fields[f][0]
            mine = [x for x in reads if x[0] == f] + (whole if c.name in named or not any(c2.name in named for _m2, c2, _f2 in classes) else [])
            raw = [x for x in mine if x[2] is None]
            if not mine:
                continue
            if not raw:
                R.ok(r, SEM, "variable_domain_signature", f"{c.name}.{f}: converted where it is signed ({', '.join(sorted({x[2] for x in mine}))})")
                continue
            if f in validated:
                R.ok(r, mod.rel, c.name, f"{c.name}.{f}: the class accepts text constants only")
                continue
            where = raw[0]
            bad = None
            for smod, sqn, call, sflow in sites:
                v = next((kw.value for kw in call.keywords if kw.arg == f), None)
                if v is None and f in all_ann and all_ann.index(f) < len(call.args) and not any(isinstance(a, ast.Starred) for a in call.args):
                    v = call.args[all_ann.index(f)]
                if v is None:
                    continue  # the declared default (a constant of the class)
                ok, what = _type_fixed_value(sflow, call, v)
                if not ok:
                    bad = (smod, sqn, call, v, what)
                    break
            if bad is None:
                R.ok(r, SEM, "variable_domain_signature", f"{c.name}.{f}: signed as stored; converted / validated at each of the {len(sites)} construction site(s)")
                continue
            smod, sqn, call, v, what = bad
            R.violation(r, smod.rel, sqn, norm(stmt_of(call))[:110],
                        f"`{c.name}.{f}` is declared `{t}` but holds here whatever the configuration spelled (`{what}` - no float()/int()/str()/bool(), no isinstance of one type on the way), and the domain signature signs it as stored (`{norm(where[1])[:60]}` in {where[4]}, {where[3]}: " + ("the whole object is serialised field by field" if where[0] == "*" else "read without a conversion") + f"): json.dumps writes an integer and a float (a number and a boolean) of the same value differently, so two spellings of the same {c.name} (`2` / `2.0`, shorthand / long form) get different node semantic ids, semantic id and config id, in the inspection payload and on pipeline_start", getattr(call, "lineno", 0))
    if not all_fields:
        raise AnalysisError("no sweep-variable specification class with declared scalar fields found (named in variable_domain_signature or defined next to its callers)")
