"""C04 rules D1 (no ambient inputs), D2 (key-order insensitivity), D4 (same functions on both paths),
D5 (commutative normalisation = the C12 rules)."""
from __future__ import annotations

import ast
from typing import Dict, List, Optional, Set, Tuple

from ..engine import (
    AnalysisError,
    FuncNode,
    Repo,
    ancestors,
    assigned_value,
    call_attr,
    call_name,
    calls_in,
    dotted_name,
    kwarg,
    norm,
    qualname_of,
    stmt_of,
    walk_no_nested,
)
from ..report import Report

GRAPH = "semantiva/pipeline/graph_builder.py"
SEM = "semantiva/metadata/semantic_id.py"
SWEEP = "semantiva/data_processors/parametric_sweep_factory.py"
BUILDER = "semantiva/inspection/builder.py"
ORCH = "semantiva/execution/orchestrator/orchestrator.py"
IDENT = "semantiva/trace/runtime/run_space_identity.py"
PREP = "semantiva/pipeline/node_preprocess.py"
DESC = "semantiva/registry/descriptors.py"

AMBIENT_PREFIXES = ("time.", "random.", "secrets.", "datetime.", "os.environ", "os.getpid", "os.getcwd", "os.urandom", "socket.", "platform.", "getpass.")
AMBIENT_CALLS = {"uuid.uuid1", "uuid.uuid4", "uuid.uuid7", "uuid1", "uuid4", "id", "hash", "getpid", "getcwd", "time", "now", "utcnow", "today", "urandom", "random", "randint", "token_hex", "perf_counter", "monotonic"}
# hashing helpers and who may use which id prefix
PREFIX_OWNERS = {"plid-": (GRAPH, "compute_pipeline_id"), "plsemid-": (SEM, "compute_pipeline_semantic_id"), "plcid-": (SEM, "compute_pipeline_config_id")}


def identity_slice(repo: Repo) -> List[Tuple[str, str, ast.AST]]:
    """Functions whose code determines an identity (call-graph closure inside the package)."""
    roots: List[Tuple[str, str]] = [
        (GRAPH, "build_canonical_spec"), (GRAPH, "_canonical_node"), (GRAPH, "compute_pipeline_id"), (GRAPH, "compute_upstream_map"),
        (SEM, "compute_node_semantic_id"), (SEM, "compute_pipeline_config_id"), (SEM, "compute_pipeline_semantic_id"),
        (SEM, "normalize_expression_sig_v1"), (SEM, "_dump_ast_commutative"), (SEM, "variable_domain_signature"), (SEM, "_sha256_json"), (SEM, "_strip_ui_only"),
        (BUILDER, "build_inspection_payload"), (BUILDER, "_compute_run_space_spec_id"), (BUILDER, "_normalize_run_space"), (BUILDER, "_collect_required_context_keys"), (BUILDER, "_build_sweep_payload"),
        (IDENT, "RunSpaceIdentityService._rscf_v1"), (IDENT, "RunSpaceIdentityService._hash"),
        (DESC, "descriptor_to_json"), (PREP, "preprocess_node_config"),
    ]
    out = []
    seen = set()
    for rel, qn in roots:
        f = repo.maybe_func(rel, qn)
        if f is None:
            raise AnalysisError(f"identity slice anchor vanished: {rel}:{qn}")
        out.append((rel, qn, f))
        seen.add(id(f))
        # nested helpers
        for n in ast.walk(f):
            if isinstance(n, FuncNode) and n is not f and id(n) not in seen:
                seen.add(id(n))
                out.append((rel, qualname_of(n), n))
    create = repo.func(SWEEP, "ParametricSweepFactory.create")
    pm = next((n for n in ast.walk(create) if isinstance(n, FuncNode) and n.name == "_preprocessor_metadata"), None)
    if pm is None:
        raise AnalysisError("_preprocessor_metadata vanished")
    out.append((SWEEP, qualname_of(pm), pm))
    return out


def run(repo: Repo, R: Report) -> None:
    # ------------------------------------------------------------------ D1 ambient inputs
    r_amb = R.rule("C04-D1-no-ambient-input", "no function of the identity slice reads a clock, random source, process/host/environment value, object address or salted hash; the run id (uuid4) never flows into an identity", 20)
    sl = identity_slice(repo)
    for rel, qn, f in sl:
        bad = None
        for c in calls_in(f):
            d = call_name(c) or ""
            tail = d.split(".")[-1]
            if not d and call_attr(c) in ("getcwd", "getpid", "urandom", "uuid4", "uuid1", "perf_counter", "monotonic", "time_ns", "gethostname", "getenv"):
                bad = c
                break
            if d.startswith(AMBIENT_PREFIXES) or d in AMBIENT_CALLS or (tail in AMBIENT_CALLS and d.split(".")[0] in ("uuid", "time", "datetime", "random", "os", "secrets")):
                bad = c
                break
        for n in walk_no_nested(f):
            if isinstance(n, ast.Attribute) and dotted_name(n) in ("os.environ", "sys.argv"):
                bad = bad or n
        R.check(bad is None, r_amb, rel, qn, f"{qn}: no ambient source", f"`{norm(bad)[:60]}` makes the identity depend on time / process / host / hash seed" if bad is not None else "", f.lineno)
    # execute: ids are computed from canonical + processor metadata only; run_id (uuid4) feeds pipeline_start/SER identity only
    ex = repo.func(ORCH, "SemantivaOrchestrator.execute")
    for c in calls_in(ex):
        if call_attr(c) in ("compute_pipeline_id", "compute_pipeline_semantic_id", "compute_pipeline_config_id", "compute_node_semantic_id"):
            names = {x.id for a in c.args for x in ast.walk(a) if isinstance(x, ast.Name)}
            tainted = {"run_id", "run_token", "payload", "data", "context", "trace", "logger", "transport"} & names
            R.check(not tainted, r_amb, ORCH, "SemantivaOrchestrator.execute", norm(c)[:70], f"a volatile / per-run value ({sorted(tainted)}) is hashed into an identity", c.lineno)

    # ------------------------------------------------------------------ D2 key-order insensitivity
    r_ord = R.rule("C04-D2-key-order-insensitive", "every value that reaches a hash comes from json.dumps(sort_keys=True) or from a normaliser that rebuilds dicts over sorted keys; no list inside a hashed structure inherits mapping or set order", 10)
    n_sites = 0
    for rel, qn, f in sl + [(ORCH, "SemantivaOrchestrator.execute", ex)]:
        for c in calls_in(f):
            d = call_name(c) or ""
            if d in ("hashlib.sha256", "uuid.uuid5") or (d.endswith(".update") and "digest" in d):
                n_sites += 1
                arg = c.args[-1] if c.args else None
                dumps = _dumps_feeding(f, arg)
                for jd in dumps:
                    sk = kwarg(jd, "sort_keys")
                    sorted_ok = isinstance(sk, ast.Constant) and sk.value is True
                    if not sorted_ok:
                        # normalised input: argument produced by a function that rebuilds dicts over sorted(...)
                        a0 = jd.args[0] if jd.args else None
                        vals = assigned_value(f, a0.id) if isinstance(a0, ast.Name) else [a0]
                        sorted_ok = bool(vals) and all(isinstance(v, ast.Call) and call_attr(v) in ("normalize", "_normalize_run_space") for v in vals)
                    R.check(sorted_ok, r_ord, rel, qn, norm(jd)[:90], "bytes that are hashed depend on mapping key order (json.dumps without sort_keys on an unnormalised value): reordering YAML keys changes the identity", jd.lineno)
    if n_sites < 6:
        raise AnalysisError(f"only {n_sites} hashing sites found in the identity slice (10 confirmed by reading)")
    for rel, qn in ((IDENT, "RunSpaceIdentityService._rscf_v1"), (BUILDER, "_normalize_run_space")):
        f = repo.func(rel, qn)
        dcs = [n for n in ast.walk(f) if isinstance(n, ast.DictComp)]
        ok = bool(dcs) and all(isinstance(dc.generators[0].iter, ast.Call) and call_attr(dc.generators[0].iter) == "sorted" for dc in dcs)
        R.check(ok, r_ord, rel, qn, "dicts rebuilt over sorted(keys)", "the RSCF normaliser keeps mapping order", f.lineno)
    # list order provenance in the sweep metadata
    create = repo.func(SWEEP, "ParametricSweepFactory.create")
    pm = next(n for n in ast.walk(create) if isinstance(n, FuncNode) and n.name == "_preprocessor_metadata")
    for n in ast.walk(pm):
        if isinstance(n, ast.Dict):
            for k, v in zip(n.keys, n.values):
                if isinstance(k, ast.Constant) and isinstance(v, ast.Call) and call_attr(v) in ("list", "tuple", "sorted") and v.args:
                    src_attr = None
                    for x in ast.walk(v.args[0]):
                        if isinstance(x, ast.Constant) and isinstance(x.value, str) and x.value.startswith("_"):
                            src_attr = x.value
                    if call_attr(v) == "sorted":
                        R.ok(r_ord, SWEEP, qualname_of(pm), f"{k.value!r}: sorted(...)", "", v.lineno)
                        continue
                    prov = _class_attr_order(create, src_attr) if src_attr else "unknown"
                    R.check(prov in ("fixed", "sorted"), r_ord, SWEEP, qualname_of(pm), f"{k.value!r}: list(cls.{src_attr}) [{prov} order]",
                            f"a list hashed into the node semantic id inherits {prov} order: reordering the keys of the sweep's mapping changes config_id", v.lineno)
    cpc = repo.func(SEM, "compute_pipeline_config_id")
    R.check(any(isinstance(v, ast.Call) and call_attr(v) == "sorted" for v in assigned_value(cpc, "ordered")), r_ord, SEM, "compute_pipeline_config_id", "pairs sorted before hashing", "config id depends on the order pairs were collected", cpc.lineno)
    crk = repo.func(BUILDER, "_collect_required_context_keys")
    rets = [n for n in walk_no_nested(crk) if isinstance(n, ast.Return) and n.value is not None and not (isinstance(n.value, ast.List) and not n.value.elts)]
    R.check(bool(rets) and all(isinstance(r.value, ast.Call) and call_attr(r.value) == "sorted" for r in rets), r_ord, BUILDER, "_collect_required_context_keys", "required context keys returned sorted", "the required-key list of the inspection payload follows set iteration order (hash-seed dependent)", crk.lineno)
    # set iteration anywhere in the slice
    for rel, qn, f in sl:
        for n in walk_no_nested(f):
            it = n.iter if isinstance(n, (ast.For, ast.comprehension)) else None
            if it is not None and isinstance(it, ast.Call) and call_attr(it) in ("set", "frozenset"):
                R.violation(r_ord, rel, qn, norm(it)[:70], "iteration over a set inside the identity slice: order depends on PYTHONHASHSEED", getattr(it, "lineno", f.lineno))

    # ------------------------------------------------------------------ D4 same functions, same fields on both paths
    r_same = R.rule("C04-D4-inspect-equals-runtime", "inspection and run time compute the three pipeline-level ids with the same functions of semantiva.metadata.semantic_id / graph_builder, from the canonical nodes enriched with the same metadata and from (node_uuid, node semantic id) pairs built alike; each id prefix is produced in exactly one function", 9)
    bip = repo.func(BUILDER, "build_inspection_payload")
    for rel, qn, f in ((BUILDER, "build_inspection_payload", bip), (ORCH, "SemantivaOrchestrator.execute", ex)):
        mod = repo.module(rel)
        for fname, home in (("compute_pipeline_semantic_id", SEM), ("compute_pipeline_config_id", SEM), ("compute_node_semantic_id", SEM)):
            cs = [c for c in calls_in(f) if call_attr(c) == fname]
            ok = bool(cs)
            for c in cs:
                t = repo.resolve_call(mod, c)
                ok = ok and len(t) == 1 and t[0][0].rel == home
            R.check(ok, r_same, rel, qn, f"{fname} -> {home}", f"{qn} does not compute this id with {home}:{fname} (a private re-implementation or a missing call)", f.lineno)
        pairs = [c for c in calls_in(f) if call_attr(c) == "append" and dotted_name(c.func.value) == "semantic_pairs"]
        ok = len(pairs) == 1 and isinstance(pairs[0].args[0], ast.Tuple) and len(pairs[0].args[0].elts) == 2
        if ok:
            a, b = pairs[0].args[0].elts
            ok = "uuid" in ast.unparse(a) and "semantic_id" in ast.unparse(b)
        R.check(ok, r_same, rel, qn, "semantic_pairs.append((node_uuid, node_semantic_id))", "the pairs hashed into config_id are not (node uuid, node semantic id)", f.lineno)
    for prefix, (home_rel, home_fn) in PREFIX_OWNERS.items():
        owners = []
        for mod, qn, f in repo.all_functions():
            if mod.rel.startswith("semantiva/examples/"):
                continue
            for n in walk_no_nested(f):
                if isinstance(n, ast.Constant) and isinstance(n.value, str) and n.value == prefix:
                    owners.append((mod.rel, qn))
        R.check(owners == [(home_rel, home_fn)], r_same, home_rel, home_fn, f"prefix {prefix!r} produced only here", f"id prefix {prefix!r} is produced in {owners}: a second, private hashing of the same identity exists", 0)

    # ------------------------------------------------------------------ D5 commutative normalisation (C12 rules)
    from . import c12

    R.rule_prefix = "C04-D5/"
    try:
        c12.run(repo, R)
    finally:
        R.rule_prefix = ""
    # the sweep payload shown by inspect is derived from the same metadata
    from . import c05

    R.rule_prefix = "C04-D4/"
    try:
        c05.sweep_metadata(repo, R)
    finally:
        R.rule_prefix = ""


def _dumps_feeding(f: ast.AST, arg: Optional[ast.AST], depth: int = 0) -> List[ast.Call]:
    """json.dumps calls whose result flows into *arg* (through locals, .encode(), f-strings, +)."""
    if arg is None or depth > 3:
        return []
    out = []
    for c in ast.walk(arg):
        if isinstance(c, ast.Call) and call_name(c) == "json.dumps":
            out.append(c)
    for nm in {x.id for x in ast.walk(arg) if isinstance(x, ast.Name)}:
        for v in assigned_value(f, nm):
            out.extend(_dumps_feeding(f, v, depth + 1))
    return out


def _class_attr_order(create: ast.AST, attr: str) -> str:
    """Order kind of the value assigned to class attribute *attr* in the generated sweep classes."""
    locals_assigned = set()
    for n in ast.walk(create):
        if isinstance(n, ast.Assign) and any(isinstance(t, ast.Name) and t.id == attr for t in n.targets):
            v = n.value
            if isinstance(v, ast.Call) and call_attr(v) in ("list", "tuple") and v.args and isinstance(v.args[0], ast.Name):
                locals_assigned.add(v.args[0].id)
            elif isinstance(v, ast.Name):
                locals_assigned.add(v.id)
            elif isinstance(v, ast.Call) and call_attr(v) == "sorted":
                return "sorted"
    kinds = set()
    for nm in locals_assigned:
        for v in assigned_value(create, nm):
            if isinstance(v, ast.Call) and call_attr(v) == "sorted":
                kinds.add("sorted")
            elif isinstance(v, ast.ListComp):
                it = v.generators[0].iter
                if isinstance(it, ast.Call) and call_attr(it) in ("values", "items", "keys"):
                    kinds.add("mapping")
                elif isinstance(it, ast.Call) and call_attr(it) == "sorted":
                    kinds.add("sorted")
                else:
                    kinds.add("fixed")
            elif isinstance(v, ast.List):
                # appended to inside a loop over the element's signature parameters -> declaration order of the element
                kinds.add("fixed")
            else:
                kinds.add("unknown")
    if not kinds:
        return "unknown"
    for bad in ("mapping", "unknown"):
        if bad in kinds:
            return bad
    return "sorted" if kinds == {"sorted"} else "fixed"
