"""C06 - every run leaves a well-formed, schema-valid trace, whatever node fails.

D1 lifecycle bracket on every path of SemantivaOrchestrator.execute (CFG with EXC/BASE
   exception edges, analysed under *trace is present*),
D2 writer/schema agreement of the JSONL driver and the SER builder,
D3 shared ids, canonical order and upstream edges,
D4 one JSON object per line.
"""
from __future__ import annotations

import ast
import json
from pathlib import Path
from typing import Dict, List, Optional, Set, Tuple

from ..cfg import BASE, CFG, EXC, reaching_defs
from ..engine import (
    AnalysisError,
    FuncNode,
    Repo,
    ancestors,
    assigned_value,
    call_attr,
    call_name,
    calls_in,
    dotted_name,
    kwarg,
    norm,
    qualname_of,
    stmt_of,
    walk_no_nested,
)
from .. import pat
from ..normal import clone, nfunc
from ..report import Report
from . import _orch
from ._orch import ORCH, EXECUTE

JSONL = "semantiva/trace/drivers/jsonl.py"
MODEL = "semantiva/trace/model.py"
GRAPH = "semantiva/pipeline/graph_builder.py"
SCHEMA_DIR = "semantiva/trace/schema"


def run(repo: Repo, R: Report) -> None:
    fn = repo.func(ORCH, EXECUTE)
    R.assume(
        "trace driver methods themselves do not raise (disk faults are outside the quantifier)",
        "asynchronous BaseException delivery between two bytecodes is not modelled: KeyboardInterrupt-class aborts are raised at call sites",
        "typing.cast/isinstance/bool/type/id and the Payload constructor do not raise",
        "for the per-node rule only node execution (_submit_and_wait / node.process), explicit raise statements and _publish are failure points; the orchestrator's own bookkeeping helpers are covered by C10's containment rules",
    )
    R.undecided("schema validity of free-form content (meta, summaries, error text)", "disk faults while writing")
    tainted = _orch.trace_tainted(fn)
    drivers = _orch.driver_vars(fn)
    if not drivers:
        raise AnalysisError("execute(): no trace driver calls found")
    fold = _orch.make_fold(tainted)

    # ------------------------------------------------------------------ D1a pipeline bracket
    r_end = R.rule("C06-D1a-pipeline-bracket", "from the return of on_pipeline_start to every exit of execute (return, Exception-class raise, BaseException-class raise): exactly one on_pipeline_end, with status ok iff the exit is a return, followed by exactly one flush and one close", 6)
    g = CFG(fn, fold=fold, may_raise=_orch.full_may_raise(drivers, {"Payload"}))
    starts_nodes = [n for n in g.nodes if _orch.node_has_driver_call(n, drivers, "on_pipeline_start")]
    if len(starts_nodes) != 1:
        raise AnalysisError(f"execute(): expected one on_pipeline_start site, found {len(starts_nodes)}")
    sn = starts_nodes[0]
    after_start = [t for t, lab in g.succ[sn.id] if lab in ("n", "T", "F")]
    exits = {"return": g.ret_exit, "raise(Exception)": g.exc_exit, "raise(BaseException)": g.base_exit}
    for method in ("on_pipeline_end", "flush", "close"):
        cnt = g.counts(after_start, lambda n, m=method: _orch.node_has_driver_call(n, drivers, m), count_start=True)
        for label, ex in exits.items():
            got = cnt.get(ex)
            if got is None:
                if label == "return":
                    raise AnalysisError("execute(): normal return unreachable after on_pipeline_start")
                R.ok(r_end, ORCH, EXECUTE, f"{method} on exit {label}", "exit not reachable")
                continue
            ok = got == {1}
            path = None
            if not ok:
                # exhibit a path with the wrong count (0): avoid all nodes with the call
                blocked = {n.id for n in g.nodes if _orch.node_has_driver_call(n, drivers, method)}
                seen = g.reach(after_start, blocked=blocked)
                if ex in seen:
                    path = g.path_to(seen, ex)
            R.check(ok, r_end, ORCH, EXECUTE, f"{method} on exit {label}",
                    f"after pipeline_start, {method} is called {sorted(got)} time(s) on paths to {label}: the trace is left without pipeline_end / unflushed / unclosed" + (f" (e.g. via `{_last(path)}`)" if path else ""),
                    sn.line, path)
    # status literal vs exit kind, ordering end -> flush -> close
    end_nodes = [n for n in g.nodes if _orch.node_has_driver_call(n, drivers, "on_pipeline_end")]
    r_stat = R.rule("C06-D1a-end-status", "pipeline_end says ok exactly on the path that returns; error ends re-raise; end precedes flush precedes close", 2)
    for n in end_nodes:
        call = next(c for c in calls_in(n.ast) if _orch.is_driver_call(c, drivers, "on_pipeline_end"))
        status = _orch.status_of_end(call)
        other_ends = {m.id for m in end_nodes if m.id != n.id}
        seen = g.reach([t for t, _l in g.succ[n.id]], blocked=other_ends)
        if status == "ok":
            bad = [ex for lab, ex in exits.items() if lab != "return" and ex in seen]
            R.check(not bad and g.ret_exit in seen, r_stat, ORCH, EXECUTE, norm(call), "pipeline_end(ok) is followed by an exceptional exit (or never returns)", n.line, g.path_to(seen, bad[0]) if bad else None)
        elif status == "error":
            R.check(g.ret_exit not in seen, r_stat, ORCH, EXECUTE, norm(call)[:100], "pipeline_end(error) can be followed by a normal return: the failure is swallowed", n.line, g.path_to(seen, g.ret_exit) if g.ret_exit in seen else None)
        else:
            R.violation(r_stat, ORCH, EXECUTE, norm(call)[:100], f"pipeline_end status is not a literal ok/error ({status!r})", n.line)
        # first argument is the run token of pipeline_start
    flush_nodes = [n for n in g.nodes if _orch.node_has_driver_call(n, drivers, "flush")]
    close_nodes = [n for n in g.nodes if _orch.node_has_driver_call(n, drivers, "close")]
    later = g.reach([t for c in close_nodes for t, _l in g.succ[c.id]])
    wrong = [n for n in flush_nodes + end_nodes if n.id in later]
    R.check(not wrong, r_stat, ORCH, EXECUTE, "order: on_pipeline_end < flush < close", "a record can be written / flushed after the driver was closed", close_nodes[0].line if close_nodes else 0)
    later_f = g.reach([t for c in flush_nodes for t, _l in g.succ[c.id]])
    wrong = [n for n in end_nodes if n.id in later_f]
    R.check(not wrong, r_stat, ORCH, EXECUTE, "order: on_pipeline_end < flush", "pipeline_end can be written after the final flush", flush_nodes[0].line if flush_nodes else 0)

    # ------------------------------------------------------------------ D1b per-node SER
    r_ser = R.rule("C06-D1b-ser-per-started-node", "from the statement that runs a node to the next iteration or any exit: exactly one on_node_event; `succeeded` on the fall-through path, `error` on exception paths (Exception and BaseException class), and the exception is re-raised unchanged", 4)

    def node_failure_points(part: ast.AST) -> Set[str]:
        for n in walk_no_nested(part):
            if isinstance(n, ast.Raise):
                return {EXC, BASE}
            if isinstance(n, ast.Call):
                a = call_attr(n)
                if a in ("_submit_and_wait", "_publish", "process"):
                    return {EXC, BASE}
        return set()

    g2 = CFG(fn, fold=fold, may_raise=node_failure_points)
    submit = [n for n in g2.nodes if n.ast is not None and n.kind == "stmt" and any(call_attr(c) == "_submit_and_wait" for c in calls_in(n.ast))]
    if len(submit) != 1:
        raise AnalysisError(f"execute(): expected one _submit_and_wait site, found {len(submit)}")
    sub = submit[0]
    loop = next((a for a in ancestors(sub.ast) if isinstance(a, ast.For)), None)
    if loop is None:
        raise AnalysisError("execute(): node execution is not inside a for loop")
    heads = g2.nodes_for(loop)
    event_nodes = [n for n in g2.nodes if _orch.node_has_driver_call(n, drivers, "on_node_event")]
    if not event_nodes:
        R.violation(r_ser, ORCH, EXECUTE, "on_node_event", "no SER is ever emitted", fn.lineno)

    def event_status(n) -> Optional[str]:
        call = next(c for c in calls_in(n.ast) if _orch.is_driver_call(c, drivers, "on_node_event"))
        arg = call.args[0] if call.args else None
        if isinstance(arg, ast.Name):
            # nearest preceding assignment of that name in the same block
            blk = _enclosing_block(n.ast)
            idx = blk.index(n.ast) if n.ast in blk else len(blk)
            for st in reversed(blk[:idx]):
                if isinstance(st, ast.Assign) and any(isinstance(t, ast.Name) and t.id == arg.id for t in st.targets) and isinstance(st.value, ast.Call):
                    s = kwarg(st.value, "status")
                    return s.value if isinstance(s, ast.Constant) else None
        if isinstance(arg, ast.Call):
            s = kwarg(arg, "status")
            return s.value if isinstance(s, ast.Constant) else None
        return None

    by_status: Dict[str, List] = {}
    for n in event_nodes:
        by_status.setdefault(str(event_status(n)), []).append(n)
    sinks = list(heads) + [g2.ret_exit, g2.exc_exit, g2.base_exit]
    saved = {h: g2.succ[h] for h in heads}
    for h in heads:
        g2.succ[h] = []
    try:
        for label, labs in (("fall-through", {"n"}), ("Exception", {EXC}), ("BaseException", {BASE})):
            starts = [t for t, lab in g2.succ[sub.id] if lab in labs]
            if not starts:
                R.violation(r_ser, ORCH, EXECUTE, f"node run -> {label}", "no such successor of the node-running statement", sub.line)
                continue
            want = "succeeded" if label == "fall-through" else "error"
            cnt_all = g2.counts(starts, lambda n: n in event_nodes, count_start=True)
            cnt_want = g2.counts(starts, lambda n: n in by_status.get(want, []), count_start=True)
            got_all: Set[int] = set()
            got_want: Set[int] = set()
            reached = []
            for s in sinks:
                if s in cnt_all:
                    got_all |= cnt_all[s]
                    reached.append(s)
                    # the status is pinned on paths that stay in the same regime: a fall-through
                    # path that later hits an explicit failure point legitimately ends with `error`
                    if label != "fall-through" or s in heads or s == g2.ret_exit:
                        got_want |= cnt_want.get(s, {0})
            if not got_want:
                got_want = {0}
            path = None
            if got_all != {1}:
                blocked = {n.id for n in event_nodes}
                seen = g2.reach(starts, blocked=blocked)
                hit = next((s for s in sinks if s in seen), None)
                path = g2.path_to(seen, hit) if hit is not None else None
            R.check(got_all == {1} and got_want == {1}, r_ser, ORCH, EXECUTE, f"node run -> {label}: one SER with status {want}",
                    f"on the {label} path after a node ran, on_node_event is called {sorted(got_all)} time(s) (with status {want}: {sorted(got_want)}): a started node is left without its SER, or with the wrong status", sub.line, path)
            if label != "fall-through":
                # must not continue the loop or return normally
                swallowed = [s for s in reached if s in heads or s == g2.ret_exit]
                R.check(not swallowed, r_ser, ORCH, EXECUTE, f"node run -> {label}: re-raised", "after a node failure the loop continues or execute returns normally: later nodes run / the exception is swallowed", sub.line)
    finally:
        for h, v in saved.items():
            g2.succ[h] = v
    # bare raise in every handler that encloses the node run or the loop
    r_rr = R.rule("C06-D1c-reraise-unchanged", "handlers around node execution end in a bare `raise` (no conversion, no return)", 2)
    handlers = []
    for a in ancestors(sub.ast):
        if isinstance(a, ast.Try) and any(x is sub.ast for st in a.body for x in ast.walk(st)):
            handlers.extend(a.handlers)
    for h in handlers:
        raises = [x for x in walk_no_nested(h) if isinstance(x, ast.Raise)]
        rets = [x for x in walk_no_nested(h) if isinstance(x, (ast.Return, ast.Continue, ast.Break))]
        last_ok = bool(h.body) and isinstance(h.body[-1], ast.Raise) and h.body[-1].exc is None
        R.check(last_ok and all(r.exc is None for r in raises) and not rets, r_rr, ORCH, EXECUTE, norm(h),
                "the handler does not end in a bare `raise` (the caller sees a different exception, or none)", h.lineno)

    # ------------------------------------------------------------------ D1d/D1e the code that closes the bracket cannot itself fail
    _closing_code_rules(repo, R, fn, g, drivers)

    # ------------------------------------------------------------------ D3 ids, order, edges
    r_ids = R.rule("C06-D3-ids-order-edges", "all records of a run carry the run/pipeline id given to pipeline_start; SER node ids follow canonical order; upstream lists are the canonical edges inverted", 6)
    start_call = next(c for c in calls_in(sn.ast) if _orch.is_driver_call(c, drivers, "on_pipeline_start"))
    pid_var = dotted_name(start_call.args[0]) if start_call.args else None
    rid_var = dotted_name(start_call.args[1]) if len(start_call.args) > 1 else None

    def derived_from(name: Optional[str], root: Optional[str]) -> bool:
        if name is None or root is None:
            return False
        if name == root:
            return True
        vals = assigned_value(fn, name)
        return bool(vals) and all(root in {x.id for x in ast.walk(v) if isinstance(x, ast.Name)} for v in vals)

    for n in end_nodes:
        call = next(c for c in calls_in(n.ast) if _orch.is_driver_call(c, drivers, "on_pipeline_end"))
        a0 = dotted_name(call.args[0]) if call.args else None
        R.check(derived_from(a0, rid_var), r_ids, ORCH, EXECUTE, norm(call)[:80] + " [run id]", "pipeline_end carries a different run id than pipeline_start", n.line)
    ser_calls = [c for c in calls_in(fn) if call_attr(c) == "_make_ser_record"]
    if not ser_calls:
        raise AnalysisError("execute(): _make_ser_record call not found")
    # roles (not spellings): the canonical spec is what pipeline_start was given; the uuid list is the local
    # assigned `[n["node_uuid"] for n in <canonical nodes>]`; the upstream map is the local assigned
    # `compute_upstream_map(<canonical>)`
    canon_var = dotted_name(start_call.args[2]) if len(start_call.args) > 2 else None
    uuid_lists: Set[str] = set()
    uuid_lists_canonical: Set[str] = set()
    um_names: Set[str] = set()
    for st in walk_no_nested(fn):
        if isinstance(st, (ast.Assign, ast.AnnAssign)) and st.value is not None:
            tgts = st.targets if isinstance(st, ast.Assign) else [st.target]
            names = [t.id for t in tgts if isinstance(t, ast.Name)]
            if not names:
                continue
            m = pat.match("[_N_['node_uuid'] for _N_ in _IT_]", st.value)
            if m is not None:
                uuid_lists.update(names)
                it = m["_IT_"]
                m2 = pat.match("_C_.get('nodes', _ANY_)", it) or pat.match("_C_['nodes']", it)
                if m2 is not None and canon_var is not None and dotted_name(m2["_C_"]) == canon_var:
                    uuid_lists_canonical.update(names)
            if isinstance(st.value, ast.Call) and call_attr(st.value) == "compute_upstream_map" and len(st.value.args) == 1 and canon_var is not None and dotted_name(st.value.args[0]) == canon_var:
                um_names.update(names)
    loop_idx = loop.target.elts[0].id if isinstance(loop.target, ast.Tuple) and isinstance(loop.target.elts[0], ast.Name) else None
    for c in ser_calls:
        R.check(derived_from(dotted_name(kwarg(c, "run_id")), rid_var) and derived_from(dotted_name(kwarg(c, "pipeline_id")), pid_var), r_ids, ORCH, EXECUTE,
                f"_make_ser_record(status={getattr(kwarg(c, 'status'), 'value', '?')}) ids", "SER identity does not use the run/pipeline ids of pipeline_start", c.lineno)
        nid = dotted_name(kwarg(c, "node_id"))
        up = kwarg(c, "upstream_ids")
        # node_id = <uuid list>[<loop index>]; upstream = <upstream map>.get(node_id, [])
        # the definitions of the node id that *reach* this call (an initial value before the loop does not)
        vals = []
        if nid:
            for use in g.nodes_for(stmt_of(c)):
                for d in reaching_defs(g, nid, use):
                    v = getattr(d.ast, "value", None) if d.kind == "stmt" else None
                    vals.append(v if v is not None else ast.Constant(value=None))
        ok_nid = bool(vals) and all(any(isinstance(s, ast.Subscript) and dotted_name(s.value) in uuid_lists_canonical and dotted_name(s.slice) == loop_idx for s in ast.walk(v)) for v in vals)
        R.check(ok_nid, r_ids, ORCH, EXECUTE, f"node_id = <canonical uuid list>[<loop index>] ({getattr(kwarg(c, 'status'), 'value', '?')})", "SER node id is not the canonical uuid at the loop position", c.lineno)
        ok_up = isinstance(up, ast.Call) and call_attr(up) == "get" and isinstance(up.func, ast.Attribute) and dotted_name(up.func.value) in um_names and bool(up.args) and dotted_name(up.args[0]) == nid
        R.check(ok_up, r_ids, ORCH, EXECUTE, f"upstream_ids = <upstream map>.get(<node id>) ({getattr(kwarg(c, 'status'), 'value', '?')})", "SER upstream list is not looked up from the canonical upstream map for this node", c.lineno)
    # loop iterates enumerate(nodes) in list order; node_uuids from canonical nodes in order
    it = loop.iter
    ok_iter = isinstance(it, ast.Call) and call_attr(it) == "enumerate" and len(it.args) == 1 and isinstance(it.args[0], ast.Name)
    R.check(ok_iter, r_ids, ORCH, EXECUTE, norm(loop), "nodes are not visited in list order by enumerate()", loop.lineno)
    R.check(bool(uuid_lists_canonical), r_ids, ORCH, EXECUTE, "node_uuids = [n['node_uuid'] for n in canonical nodes]", "node uuid list is not the canonical node list in order", fn.lineno)
    R.check(bool(um_names), r_ids, ORCH, EXECUTE, "upstream_map = compute_upstream_map(canonical)", "upstream map is not computed from the canonical spec", fn.lineno)
    cum = repo.func(GRAPH, "compute_upstream_map")
    ok = False
    for n in ast.walk(cum):
        if isinstance(n, ast.For) and "edges" in ast.unparse(n.iter) and isinstance(n.target, ast.Name):
            e = n.target.id
            body = ast.unparse(n)
            ok = f"{e}['target']" in body and f"append({e}['source'])" in body and not any(isinstance(x, (ast.If, ast.Continue, ast.Break)) for x in ast.walk(n))
    R.check(ok, r_ids, GRAPH, "compute_upstream_map", "for edge in edges: mapping[edge.target].append(edge.source)", "upstream map does not invert every canonical edge (source -> target) unfiltered", cum.lineno)
    # instantiation order = spec order
    inst = repo.func(ORCH, "SemantivaOrchestrator._instantiate_nodes")
    loops = [n for n in walk_no_nested(inst) if isinstance(n, ast.For)]
    from ..engine import returned_values
    returned_lists = {x.id for rv in returned_values(inst) for x in (rv.elts if isinstance(rv, ast.Tuple) else [rv]) if isinstance(x, ast.Name)}
    ok = len(loops) == 1 and isinstance(loops[0].iter, ast.Name) and loops[0].iter.id == inst.args.args[1].arg and any(call_attr(c) == "append" and isinstance(c.func, ast.Attribute) and dotted_name(c.func.value) in returned_lists for c in calls_in(loops[0]))
    R.check(ok, r_ids, ORCH, "SemantivaOrchestrator._instantiate_nodes", norm(loops[0]) if loops else "for node_def in pipeline_spec", "nodes are not instantiated by appending in spec order", inst.lineno)

    # ------------------------------------------------------------------ D2 writer / schema agreement
    _schema_rules(repo, R)

    # ------------------------------------------------------------------ D4 one line per record
    _line_rules(repo, R)


# ---------------------------------------------------------------------------
# D1d / D1e: handlers and finally blocks that write the closing records
# ---------------------------------------------------------------------------

STRINGIFIERS = {"str", "repr", "format", "ascii", "safe_repr", "len", "bool", "int", "float", "isinstance", "issubclass", "hasattr", "callable", "id", "hash",
                "format_exc", "format_exception", "format_exception_only", "format_tb", "sha256_bytes", "hexdigest"}
SAFE_DUNDERS = {"__name__", "__qualname__", "__module__", "__doc__"}


def _comp_targets(e: ast.AST) -> Set[str]:
    return {x.id for g_ in getattr(e, "generators", []) for x in ast.walk(g_.target) if isinstance(x, ast.Name)}


class _Payload:
    """Does the value of an expression still carry an exception object or a part of it (``exc``, ``exc.args[0]``,
    ``type(exc)`` ...) that has not been turned into text?  Such a value is arbitrary (whatever the failing
    processor put into the exception) and is not JSON-serialisable in general."""

    def __init__(self, repo: Repo):
        self.repo = repo

    def closure(self, region: ast.AST, seed: Set[str]) -> Set[str]:
        tainted = set(seed)
        changed = True
        while changed:
            changed = False
            for n in walk_no_nested(region):
                new: Set[str] = set()
                if isinstance(n, (ast.Assign, ast.AnnAssign, ast.AugAssign)) and n.value is not None and self.raw(n.value, tainted, region):
                    tgts = n.targets if isinstance(n, ast.Assign) else [n.target]
                    for t in tgts:
                        base = t
                        while isinstance(base, (ast.Subscript, ast.Attribute)):
                            base = base.value
                        for x in ast.walk(base if not isinstance(t, (ast.Tuple, ast.List)) else t):
                            if isinstance(x, ast.Name):
                                new.add(x.id)
                elif isinstance(n, ast.Call) and isinstance(n.func, ast.Attribute) and n.func.attr in ("append", "extend", "add", "update", "setdefault", "insert", "__setitem__"):
                    if any(self.raw(a, tainted, region) for a in list(n.args) + [k.value for k in n.keywords]):
                        base = n.func.value
                        while isinstance(base, (ast.Subscript, ast.Attribute)):
                            base = base.value
                        if isinstance(base, ast.Name) and base.id != "self":
                            new.add(base.id)
                elif isinstance(n, ast.NamedExpr) and self.raw(n.value, tainted, region):
                    new.add(n.target.id)
                if not new <= tainted:
                    tainted |= new
                    changed = True
        return tainted

    def raw(self, e: Optional[ast.AST], tainted: Set[str], ctx: ast.AST, depth: int = 0) -> bool:
        if e is None or isinstance(e, (ast.Constant, ast.JoinedStr, ast.Compare, ast.Lambda)):
            return False
        if isinstance(e, ast.Name):
            return e.id in tainted
        if isinstance(e, ast.Attribute):
            if e.attr in SAFE_DUNDERS:
                return False
            return self.raw(e.value, tainted, ctx, depth)
        if isinstance(e, (ast.Subscript, ast.Starred)):
            return self.raw(e.value, tainted, ctx, depth)
        if isinstance(e, ast.UnaryOp):
            return False if isinstance(e.op, ast.Not) else self.raw(e.operand, tainted, ctx, depth)
        if isinstance(e, ast.NamedExpr):
            return self.raw(e.value, tainted, ctx, depth)
        if isinstance(e, ast.IfExp):
            return self.raw(e.body, tainted, ctx, depth) or self.raw(e.orelse, tainted, ctx, depth)
        if isinstance(e, ast.BoolOp):
            return any(self.raw(v, tainted, ctx, depth) for v in e.values)
        if isinstance(e, ast.BinOp):
            if isinstance(e.op, ast.Mod) and isinstance(e.left, (ast.Constant, ast.JoinedStr)):
                return False  # "text %s" % exc
            return self.raw(e.left, tainted, ctx, depth) or self.raw(e.right, tainted, ctx, depth)
        if isinstance(e, ast.Dict):
            return any(self.raw(v, tainted, ctx, depth) for v in list(e.values) + [k for k in e.keys if k is not None])
        if isinstance(e, (ast.List, ast.Tuple, ast.Set)):
            return any(self.raw(v, tainted, ctx, depth) for v in e.elts)
        if isinstance(e, (ast.ListComp, ast.SetComp, ast.GeneratorExp, ast.DictComp)):
            inner = set(tainted) - _comp_targets(e)
            for g_ in e.generators:
                if self.raw(g_.iter, inner, ctx, depth):
                    inner |= {x.id for x in ast.walk(g_.target) if isinstance(x, ast.Name)}
            parts = [e.key, e.value] if isinstance(e, ast.DictComp) else [e.elt]
            return any(self.raw(p_, inner, ctx, depth) for p_ in parts)
        if isinstance(e, ast.Call):
            a = call_attr(e)
            if a in STRINGIFIERS:
                return False
            args = list(e.args) + [k.value for k in e.keywords]
            recv_raw = isinstance(e.func, ast.Attribute) and self.raw(e.func.value, tainted, ctx, depth)
            if not recv_raw and not any(self.raw(x, tainted, ctx, depth) for x in args):
                return False
            if recv_raw:
                return True  # a method of the exception / of a part of it: still its payload
            # a function is handed the payload: look at what it returns
            try:
                mod = self.repo.module_of(ctx)
                targets = self.repo.resolve_call(mod, e)
            except Exception:
                targets = []
            targets = [t for t in targets if isinstance(t[1], ast.FunctionDef)]
            if not targets or depth >= 2:
                return True
            for _m, callee in targets:
                binding = _bind_params(callee, e)
                if binding is None:
                    return True
                seed = {p_ for p_, v in binding.items() if self.raw(v, tainted, ctx, depth)}
                inner = self.closure(callee, seed)
                for r in walk_no_nested(callee):
                    if isinstance(r, ast.Return) and self.raw(r.value, inner, callee, depth + 1):
                        return True
            return False
        return False

    def leaf(self, e: ast.AST, tainted: Set[str], ctx: ast.AST) -> ast.AST:
        """The innermost sub-expression that is still raw (for the message)."""
        for sub in ast.iter_child_nodes(e):
            if isinstance(sub, ast.expr) and not isinstance(e, ast.Call) and self.raw(sub, tainted, ctx) and not isinstance(sub, ast.Name):
                return self.leaf(sub, tainted, ctx)
        if isinstance(e, ast.Dict):
            for k, v in zip(e.keys, e.values):
                if self.raw(v, tainted, ctx):
                    return self.leaf(v, tainted, ctx)
        return e


def _local_names(fn: ast.AST) -> Set[str]:
    out = _param_names(fn)
    for n in walk_no_nested(fn):
        if isinstance(n, ast.Name) and isinstance(n.ctx, (ast.Store, ast.Del)):
            out.add(n.id)
        elif isinstance(n, ast.ExceptHandler) and n.name:
            out.add(n.name)
        elif isinstance(n, (ast.Import, ast.ImportFrom)):
            out.update((al.asname or al.name).split(".")[0] for al in n.names)
        elif isinstance(n, FuncNode + (ast.ClassDef,)) and n is not fn:
            out.add(n.name)
    # names bound only inside comprehensions are not function locals
    comp_only: Set[str] = set()
    for n in walk_no_nested(fn):
        if isinstance(n, (ast.ListComp, ast.SetComp, ast.GeneratorExp, ast.DictComp)):
            comp_only |= _comp_targets(n)
    plain: Set[str] = set(_param_names(fn))
    for n in walk_no_nested(fn):
        if isinstance(n, ast.Name) and isinstance(n.ctx, ast.Store) and not any(isinstance(a, ast.comprehension) for a in _up_to(n, fn)):
            plain.add(n.id)
    return {x for x in out if x not in comp_only or x in plain}


def _up_to(n: ast.AST, root: ast.AST):
    for a in ancestors(n):
        if a is root:
            return
        yield a


def _loads(part: ast.AST) -> List[ast.Name]:
    """Name loads evaluated when *part* is evaluated (not inside nested defs/lambdas; comprehension variables excluded)."""
    out: List[ast.Name] = []

    def rec(n: ast.AST, hidden: frozenset) -> None:
        if isinstance(n, FuncNode + (ast.Lambda, ast.ClassDef)):
            return
        if isinstance(n, (ast.ListComp, ast.SetComp, ast.GeneratorExp, ast.DictComp)):
            hidden = hidden | frozenset(_comp_targets(n))
        if isinstance(n, ast.Name) and isinstance(n.ctx, ast.Load) and n.id not in hidden:
            out.append(n)
        if isinstance(n, ast.AugAssign) and isinstance(n.target, ast.Name):
            out.append(n.target)
        for c in ast.iter_child_nodes(n):
            rec(c, hidden)

    rec(part, frozenset())
    return out


def _node_defs(n) -> Tuple[Set[str], Set[str]]:
    """(names bound, names unbound) when CFG node *n* completes normally."""
    a = n.ast
    defs: Set[str] = set()
    kills: Set[str] = set()
    if a is None:
        return defs, kills
    if n.kind == "stmt":
        if isinstance(a, FuncNode + (ast.ClassDef,)):
            defs.add(a.name)
            return defs, kills
        for x in walk_no_nested(a):
            if isinstance(x, ast.Name) and isinstance(x.ctx, ast.Store) and not any(isinstance(p_, ast.comprehension) for p_ in _up_to(x, a)):
                defs.add(x.id)
            elif isinstance(x, ast.Name) and isinstance(x.ctx, ast.Del):
                kills.add(x.id)
            elif isinstance(x, (ast.Import, ast.ImportFrom)):
                defs.update((al.asname or al.name).split(".")[0] for al in x.names)
    elif n.kind == "for":
        defs |= {x.id for x in ast.walk(a.target) if isinstance(x, ast.Name)}
    elif n.kind == "with":
        for it in a.items:
            if it.optional_vars is not None:
                defs |= {x.id for x in ast.walk(it.optional_vars) if isinstance(x, ast.Name)}
    elif n.kind == "except":
        if a.name:
            defs.add(a.name)
    if n.kind in ("if", "while") and n.part is not None:
        defs |= {x.target.id for x in walk_no_nested(n.part) if isinstance(x, ast.NamedExpr)}
    return defs, kills


def _definitely_bound(g: CFG, fn: ast.AST) -> Dict[int, Optional[Set[str]]]:
    """Forward must-analysis on the CFG: the locals bound on *every* path from the entry to each node.
    An exception edge leaves its source before the statement has bound anything."""
    state: Dict[int, Optional[Set[str]]] = {n.id: None for n in g.nodes}
    state[g.entry] = set(_param_names(fn))
    todo = [g.entry]
    while todo:
        nid = todo.pop()
        cur = state[nid]
        assert cur is not None
        defs, kills = _node_defs(g.nodes[nid])
        for t, lab in g.succ[nid]:
            if lab in (EXC, BASE):
                out = set(cur)
            elif g.nodes[nid].kind == "for" and lab == "F":
                out = set(cur)
            else:
                out = (set(cur) | defs) - kills
            old = state[t]
            new = out if old is None else (old & out)
            if old is None or new != old:
                state[t] = new
                todo.append(t)
    return state


def _closing_code_rules(repo: Repo, R: Report, fn: ast.AST, g: CFG, drivers: Set[str]) -> None:
    # regions: every except handler / finally block of execute that talks to the trace driver
    regions: List[Tuple[str, ast.AST, List[ast.stmt]]] = []
    for t in walk_no_nested(fn):
        if isinstance(t, ast.Try):
            for h in t.handlers:
                if any(_orch.is_driver_call(c, drivers) for st in h.body for c in calls_in(st)):
                    regions.append((norm(h), h, h.body))
            if t.finalbody and any(_orch.is_driver_call(c, drivers) for st in t.finalbody for c in calls_in(st)):
                regions.append((f"finally (after {norm(t.handlers[-1]) if t.handlers else 'try'})", t, t.finalbody))
    if not regions:
        raise AnalysisError("execute(): no handler / finally block that calls the trace driver")

    # D1d definite assignment
    r_bound = R.rule("C06-D1d-closing-code-locals-bound", "every local read in a handler / finally block that writes the closing records (error SER, pipeline_end, flush, close) is bound on every path that reaches it - otherwise UnboundLocalError replaces the original exception before the record is written", 3)
    bound = _definitely_bound(g, fn)
    local_names = _local_names(fn)
    for label, root, body in regions:
        inside = {id(x) for st in body for x in ast.walk(st)}
        if isinstance(root, ast.ExceptHandler):
            inside.add(id(root))
        reported: Set[Tuple[int, str]] = set()
        for n in g.nodes:
            if n.ast is None or id(n.ast) not in inside or bound[n.id] is None:
                continue
            part = n.part if n.kind != "except" else n.ast.type
            if part is None or isinstance(n.ast, FuncNode + (ast.ClassDef,)):
                continue
            for nm in _loads(part):
                if nm.id in local_names and nm.id not in bound[n.id] and (id(n.ast), nm.id) not in reported:
                    reported.add((id(n.ast), nm.id))
                    blockers = {m.id for m in g.nodes if nm.id in _node_defs(m)[0]}
                    seen = g.reach([g.entry], blocked=blockers)
                    path = g.path_to(seen, n.id) if n.id in seen else None
                    via = ""
                    if path:
                        src = next((p_ for p_ in reversed(path[:-1]) if "<-EXC-" in p_ or "<-BASE-" in p_), None)
                        prev = path[path.index(src) - 1] if src and path.index(src) > 0 else None
                        if prev:
                            via = f" (e.g. when `{prev.split(': ', 1)[-1].split(' <-')[0][:70]}` raises)"
                    R.violation(r_bound, ORCH, EXECUTE, norm(n.ast)[:120],
                                f"local `{nm.id}` is read in the code that closes the trace ({label}) but is not bound on every path that reaches it{via}: UnboundLocalError is raised inside the handler, the closing record is not written and the caller gets a different exception", nm.lineno, path)
        if not reported:
            R.ok(r_bound, ORCH, EXECUTE, label, "all locals read are definitely bound")

    # D1e exception payload reaches the trace only as text
    r_pay = R.rule("C06-D1e-exception-reaches-trace-as-text", "whatever a handler takes from the caught exception reaches the trace driver only through str()/repr()/type(..).__name__ (a raw exception object or exc.args element is arbitrary and makes json.dumps raise inside the handler: the error SER / pipeline_end is lost and the caller sees TypeError instead of the original exception)", 2)
    P = _Payload(repo)
    for label, root, body in regions:
        if not isinstance(root, ast.ExceptHandler) or not root.name:
            continue
        tainted = P.closure(root, {root.name})
        sinks = [c for st in body for c in calls_in(st) if _orch.is_driver_call(c, drivers)]
        # the call that builds a driver-call argument is a sink too (the record constructor)
        for c in list(sinks):
            for a in list(c.args) + [k.value for k in c.keywords]:
                if isinstance(a, ast.Name):
                    for st in body:
                        for x in walk_no_nested(st):
                            if isinstance(x, ast.Assign) and any(isinstance(t, ast.Name) and t.id == a.id for t in x.targets) and isinstance(x.value, ast.Call) and x.value not in sinks:
                                sinks.append(x.value)
        for c in sinks:
            bad = []
            for kw_name, a in [(None, x) for x in c.args] + [(k.arg, k.value) for k in c.keywords]:
                if P.raw(a, tainted, root) and not (isinstance(a, ast.Name) and any(isinstance(s_, ast.Call) and s_ is not c and any(isinstance(t, ast.Name) and t.id == a.id for t in getattr(parent_assign(s_), "targets", [])) for s_ in sinks)):
                    leaf = P.leaf(a, tainted, root)
                    if isinstance(leaf, ast.Name):
                        vals = [v for st in body for x in walk_no_nested(st) if isinstance(x, ast.Assign) and any(isinstance(t, ast.Name) and t.id == leaf.id for t in x.targets) for v in [x.value] if P.raw(v, tainted, root)]
                        if vals:
                            leaf = P.leaf(vals[0], tainted, root)
                    bad.append((kw_name, a, leaf))
            stmt = f"{call_attr(c)}(...) in {label}"
            if bad:
                kw_name, a, leaf = bad[0]
                R.violation(r_pay, ORCH, EXECUTE, stmt,
                            f"argument {kw_name + '=' if kw_name else ''}`{norm(a)[:60]}` carries `{norm(leaf)[:70]}`: a part of the caught exception that was not turned into text (for a KeyError exc.args[0] is the missing *key* - an Enum, bytes, tuple ...); json.dumps of the record raises TypeError inside the handler, the record is not written and the original exception is replaced", getattr(leaf, "lineno", c.lineno))
            else:
                R.ok(r_pay, ORCH, EXECUTE, stmt, "exception enters the record as text only")


def parent_assign(call: ast.AST) -> Optional[ast.AST]:
    from ..engine import parent
    p = parent(call)
    return p if isinstance(p, ast.Assign) else None


# ---------------------------------------------------------------------------
# D4: what the driver hands to the file
# ---------------------------------------------------------------------------

SAFE_ENCODE_ERRORS = {"backslashreplace", "replace", "ignore", "xmlcharrefreplace", "namereplace"}


def _is_json_dumps(repo: Repo, mod, call: ast.AST) -> bool:
    """``json.dumps(...)`` under any import spelling (import json [as j], from json import dumps [as d])."""
    if not isinstance(call, ast.Call):
        return False
    d = call_name(call)
    if not d:
        return False
    head, _, rest = d.partition(".")
    target = mod.imports.get(head)
    full = (target + ("." + rest if rest else "")) if target else d
    return full == "json.dumps"


class _SubstNames(ast.NodeTransformer):
    def __init__(self, mapping: Dict[str, ast.AST]):
        self.mapping = mapping

    def visit_Name(self, node: ast.Name):
        if isinstance(node.ctx, ast.Load) and node.id in self.mapping:
            return clone(self.mapping[node.id])
        return node


def _bind_params(callee: ast.AST, call: ast.Call) -> Optional[Dict[str, ast.AST]]:
    """Parameter name -> argument expression of *call* (receiver dropped for methods); None when not simple."""
    from ..engine import parent
    a = callee.args
    pos = [x.arg for x in a.posonlyargs + a.args]
    deco = {dotted_name(d) for d in getattr(callee, "decorator_list", [])}
    if isinstance(parent(callee), ast.ClassDef) and "staticmethod" not in deco and isinstance(call.func, ast.Attribute) and pos:
        pos = pos[1:]
    if any(isinstance(x, ast.Starred) for x in call.args) or any(k.arg is None for k in call.keywords) or len(call.args) > len(pos):
        return None
    out: Dict[str, ast.AST] = dict(zip(pos, call.args))
    for k in call.keywords:
        out[k.arg] = k.value
    return out


def _param_names(fn: ast.AST) -> Set[str]:
    a = fn.args
    out = {x.arg for x in a.posonlyargs + a.args + a.kwonlyargs}
    if a.vararg:
        out.add(a.vararg.arg)
    if a.kwarg:
        out.add(a.kwarg.arg)
    return out


def _text_alternatives(repo: Repo, mod, fn: ast.AST, e: ast.AST, depth: int = 0) -> List[List[ast.AST]]:
    """The text *e* evaluates to, as alternatives of concatenated terms: ``+`` chains and f-strings are
    flattened, locals are replaced by the values assigned to them (every assignment is an alternative),
    calls of repo functions by what they return (parameters substituted by the arguments)."""
    if depth > 5:
        return [[e]]
    if isinstance(e, ast.BinOp) and isinstance(e.op, ast.Add):
        ls = _text_alternatives(repo, mod, fn, e.left, depth + 1)
        rs = _text_alternatives(repo, mod, fn, e.right, depth + 1)
        return [l + r for l in ls for r in rs][:16]
    if isinstance(e, ast.JoinedStr):
        alts: List[List[ast.AST]] = [[]]
        for v in e.values:
            if isinstance(v, ast.FormattedValue) and v.conversion == -1 and v.format_spec is None:
                sub = _text_alternatives(repo, mod, fn, v.value, depth + 1)
            else:
                sub = [[v]]
            alts = [a + b for a in alts for b in sub][:16]
        return alts
    if isinstance(e, ast.Name) and e.id not in _param_names(fn):
        vals = assigned_value(fn, e.id)
        if vals:
            out: List[List[ast.AST]] = []
            for v in vals:
                out.extend(_text_alternatives(repo, mod, fn, v, depth + 1))
            return out[:16]
    if isinstance(e, ast.Call) and not _is_json_dumps(repo, mod, e):
        try:
            targets = repo.resolve_call(mod, e)
        except Exception:
            targets = []
        if len(targets) == 1 and isinstance(targets[0][1], ast.FunctionDef):
            cmod, callee = targets[0]
            binding = _bind_params(callee, e)
            rets = [r.value for r in walk_no_nested(callee) if isinstance(r, ast.Return) and r.value is not None]
            if binding is not None and rets:
                out = []
                for rv in rets:
                    for alt in _text_alternatives(repo, cmod, callee, rv, depth + 1):
                        terms = []
                        for t in alt:
                            t2 = _SubstNames(binding).visit(clone(t))
                            if getattr(t, "_c06_dumps", False):
                                t2._c06_dumps = True  # type: ignore[attr-defined]
                            terms.append(t2)
                        out.append(terms)
                return out[:16]
    if _is_json_dumps(repo, mod, e):
        e._c06_dumps = True  # type: ignore[attr-defined]  (decided with the imports of the module the call is written in)
    return [[e]]


def _one_json_line(repo: Repo, mod, terms: List[ast.AST], need_newline: bool = True) -> Tuple[bool, Optional[ast.Call]]:
    """terms == [json.dumps(<record>, no indent)] + constant text equal to one newline."""
    if not terms or not (getattr(terms[0], "_c06_dumps", False) or _is_json_dumps(repo, mod, terms[0])):
        return False, None
    d = terms[0]
    ind = kwarg(d, "indent")
    if ind is not None and not (isinstance(ind, ast.Constant) and ind.value is None):
        return False, d
    sep = kwarg(d, "separators")
    if sep is not None and any(isinstance(x, ast.Constant) and isinstance(x.value, str) and "\n" in x.value for x in ast.walk(sep)):
        return False, d
    rest = terms[1:]
    if not all(isinstance(t, ast.Constant) and isinstance(t.value, str) for t in rest):
        return False, d
    tail = "".join(t.value for t in rest)
    return tail == ("\n" if need_newline else ""), d


class _Write:
    def __init__(self, qn: str, nf: ast.AST, call: ast.Call, ok: bool, dumps: List[ast.Call]):
        self.qn, self.nf, self.call, self.ok, self.dumps = qn, nf, call, ok, dumps


def _driver_writes(repo: Repo) -> List[_Write]:
    """Every place where the JSONL driver hands text to a file object, analysed on the normal form of the
    method (private helpers such as an encode-line function inlined)."""
    cache = repo.__dict__.setdefault("_c06_writes", None)
    if cache is not None:
        return cache
    jmod = repo.module(JSONL)
    out: List[_Write] = []
    for qn, f in [(q, n) for q, n in jmod.defs.items() if isinstance(n, FuncNode)]:
        nf = nfunc(repo, JSONL, qn)
        for c in calls_in(nf):
            text: Optional[ast.AST] = None
            newline_added = False
            if call_attr(c) == "write" and isinstance(c.func, ast.Attribute) and len(c.args) == 1 and not c.keywords:
                text = c.args[0]
            elif call_name(c) == "print" and kwarg(c, "file") is not None and len(c.args) == 1:
                end = kwarg(c, "end")
                if end is None or (isinstance(end, ast.Constant) and end.value == "\n"):
                    text, newline_added = c.args[0], True
                else:
                    text = ast.BinOp(left=c.args[0], op=ast.Add(), right=end)
            if text is None:
                continue
            alts = _text_alternatives(repo, jmod, nf, text)
            oks, ds = [], []
            for terms in alts:
                ok, d = _one_json_line(repo, jmod, terms, need_newline=not newline_added)
                if not ok and d is not None and not newline_added:
                    # write(json.dumps(r)) immediately followed by write("\n") on the same receiver
                    ok0, _d = _one_json_line(repo, jmod, terms, need_newline=False)
                    st = stmt_of(c)
                    blk = _enclosing_block(st)
                    nxt = blk[blk.index(st) + 1] if st in blk and blk.index(st) + 1 < len(blk) else None
                    if ok0 and isinstance(nxt, ast.Expr) and isinstance(nxt.value, ast.Call) and call_attr(nxt.value) == "write" and norm(nxt.value.func) == norm(c.func) \
                            and len(nxt.value.args) == 1 and isinstance(nxt.value.args[0], ast.Constant) and nxt.value.args[0].value == "\n":
                        ok = True
                oks.append(ok)
                if d is not None:
                    ds.append(d)
            if all(isinstance(t, ast.Constant) and t.value == "\n" for terms in alts for t in terms):
                # the newline half of a two-step write: judged with the preceding write
                st = stmt_of(c)
                blk = _enclosing_block(st)
                prev = blk[blk.index(st) - 1] if st in blk and blk.index(st) > 0 else None
                if isinstance(prev, ast.Expr) and isinstance(prev.value, ast.Call) and call_attr(prev.value) == "write" and norm(prev.value.func) == norm(c.func):
                    continue
            out.append(_Write(qn, nf, c, bool(oks) and all(oks), ds))
    repo.__dict__["_c06_writes"] = out
    return out


def _line_rules(repo: Repo, R: Report) -> None:
    r_line = R.rule("C06-D4-one-line-per-record", "every text the JSONL driver hands to its file is json.dumps(record) (no indent) followed by exactly one newline", 5)
    r_enc = R.rule("C06-D4b-line-always-encodable", "the serialised line can be encoded whatever strings the record holds: json.dumps keeps ensure_ascii (escapes lone surrogates / non-ASCII), or the file is opened with a non-raising error handler", 5)
    jmod = repo.module(JSONL)
    writes = _driver_writes(repo)
    opens = [c for f in jmod.defs.values() if isinstance(f, FuncNode) for c in calls_in(f) if call_attr(c) == "open"]
    lenient = bool(opens) and all(isinstance(kwarg(c, "errors"), ast.Constant) and kwarg(c, "errors").value in SAFE_ENCODE_ERRORS for c in opens)
    for w in writes:
        R.check(w.ok, r_line, JSONL, w.qn, norm(w.call), "a record is not written as exactly one JSON line", w.call.lineno)
        for d in w.dumps:
            ea = kwarg(d, "ensure_ascii")
            ascii_only = ea is None or (isinstance(ea, ast.Constant) and ea.value is True)
            R.check(ascii_only or lenient, r_enc, JSONL, w.qn, norm(d),
                    f"json.dumps(..., ensure_ascii={ast.unparse(ea) if ea is not None else 'True'}) lets raw non-ASCII text through to a strict text file: a string with a lone surrogate (os.fsdecode of a non-UTF-8 file name in a parameter value or an exception message) makes write() raise UnicodeEncodeError, so the record (SER / pipeline_end) is lost and the original exception is replaced",
                    getattr(d, "lineno", w.call.lineno))


def _last(path: Optional[List[str]]) -> str:
    if not path:
        return "?"
    for p in reversed(path[:-1]):
        if ": <" not in p:
            return p.split(": ", 1)[-1].split(" <-")[0][:80]
    return "?"


def _enclosing_block(st: ast.AST) -> List[ast.stmt]:
    from ..engine import parent
    p = parent(st)
    for attr in ("body", "orelse", "finalbody", "handlers"):
        blk = getattr(p, attr, None)
        if isinstance(blk, list) and st in blk:
            return blk
    return []


# ---------------------------------------------------------------------------
# D2
# ---------------------------------------------------------------------------


def _load_schema(repo: Repo, name: str) -> dict:
    path = repo.root / SCHEMA_DIR / name
    try:
        return json.loads(path.read_text())
    except Exception as exc:
        raise AnalysisError(f"cannot read schema {name}: {exc}")


def _flatten(repo: Repo, schema: dict) -> Tuple[Set[str], Dict[str, dict]]:
    required: Set[str] = set(schema.get("required", []))
    props: Dict[str, dict] = dict(schema.get("properties", {}))
    for sub in schema.get("allOf", []):
        if "$ref" in sub:
            ref = sub["$ref"].split("/")[-1]
            r2, p2 = _flatten(repo, _load_schema(repo, ref))
        else:
            r2, p2 = _flatten(repo, sub)
        required |= r2
        props.update(p2)
    return required, props


def _record_literal(repo: Repo, qn: str) -> Tuple[Optional[str], Optional[ast.Dict], ast.AST]:
    """(local name, dict literal, normal form) of the record an emitter writes: the mapping that is the first
    argument of the json.dumps whose text goes to the file - found by that role, not by the local's name."""
    nf = nfunc(repo, JSONL, qn)
    for w in _driver_writes(repo):
        if w.qn != qn:
            continue
        for d in w.dumps:
            arg = d.args[0] if d.args else kwarg(d, "obj")
            if isinstance(arg, ast.Dict):
                return None, arg, w.nf
            if isinstance(arg, ast.Name):
                for v in assigned_value(w.nf, arg.id):
                    if isinstance(v, ast.Dict):
                        return arg.id, v, w.nf
    return None, None, nf


def _schema_rules(repo: Repo, R: Report) -> None:
    r = R.rule("C06-D2-writer-schema", "for each record type: the keys the driver writes unconditionally include the schema's required keys, constants match `const`, literal value sets are within `enum`, the registry maps every emitted record_type to an existing schema; no required key is removed on a fallback path", 20)
    registry = _load_schema(repo, "trace_registry_v1.json").get("records", {})
    fallback_pops: List[Tuple[str, ast.Call, str]] = []
    emitters = {
        "pipeline_start": "JsonlTraceDriver.on_pipeline_start",
        "pipeline_end": "JsonlTraceDriver.on_pipeline_end",
        "run_space_start": "JsonlTraceDriver.on_run_space_start",
        "run_space_end": "JsonlTraceDriver.on_run_space_end",
    }
    for rtype, qn in emitters.items():
        repo.func(JSONL, qn)
        rec, lit, f = _record_literal(repo, qn)
        if lit is None:
            raise AnalysisError(f"{qn}: the dict literal that is serialised and written was not found")
        keys = {k.value: v for k, v in zip(lit.keys, lit.values) if isinstance(k, ast.Constant)}
        # unconditional `record[<const>] = v` stores at the top level of the method count as written keys
        for st in f.body:
            if isinstance(st, ast.Assign) and rec is not None:
                for t in st.targets:
                    if isinstance(t, ast.Subscript) and dotted_name(t.value) == rec and isinstance(t.slice, ast.Constant):
                        keys.setdefault(t.slice.value, st.value)
        R.check(rtype in registry, r, JSONL, qn, f"registry[{rtype!r}]", "record type emitted by the driver is not in the trace registry", f.lineno)
        sname = registry.get(rtype, "").split("/")[-1]
        if not sname or not (repo.root / SCHEMA_DIR / sname).is_file():
            R.violation(r, JSONL, qn, f"registry[{rtype!r}] -> {sname}", "registry points to a schema file that does not exist", f.lineno)
            continue
        req, props = _flatten(repo, _load_schema(repo, sname))
        for k in sorted(req):
            R.check(k in keys, r, JSONL, qn, f"{rtype}: required key {k!r} written unconditionally", f"schema-required key {k!r} is not in the record literal (missing on some path)", f.lineno)
        for k, spec in props.items():
            if "const" in spec and k in keys:
                v = keys[k]
                R.check(isinstance(v, ast.Constant) and v.value == spec["const"], r, JSONL, qn, f"{rtype}: {k} == {spec['const']!r}", f"record constant {k} differs from the schema's const", f.lineno)
        # required keys never removed again
        for c in calls_in(f):
            if call_attr(c) in ("pop", "__delitem__") and isinstance(c.func, ast.Attribute) and rec is not None and dotted_name(c.func.value) == rec and c.args and isinstance(c.args[0], ast.Constant):
                k = c.args[0].value
                if k in req:
                    in_type_error_fallback = any(isinstance(a, ast.ExceptHandler) and "TypeError" in ast.unparse(a.type or ast.Constant(value="")) for a in ancestors(c))
                    if in_type_error_fallback:
                        fallback_pops.append((qn, c, k))
                    else:
                        R.violation(r, JSONL, qn, norm(c), f"schema-required key {k!r} is dropped unconditionally: the written line is rejected by the schema", c.lineno)
                else:
                    R.ok(r, JSONL, qn, norm(c), "optional key", c.lineno)
        for n in walk_no_nested(f):
            if isinstance(n, ast.Delete):
                for t in n.targets:
                    if isinstance(t, ast.Subscript) and rec is not None and dotted_name(t.value) == rec and isinstance(t.slice, ast.Constant) and t.slice.value in req:
                        R.violation(r, JSONL, qn, norm(n), f"schema-required key {t.slice.value!r} is deleted", n.lineno)
        # early return before the write (record silently not written)
        if rtype in ("pipeline_start",):
            pass
    _json_safety_rules(repo, R, fallback_pops)
    # SER: dataclass fields + nested literals in _make_ser_record
    ser_schema = _load_schema(repo, registry.get("ser", "x/semantic_execution_record_v1.schema.json").split("/")[-1])
    req, props = _flatten(repo, ser_schema)
    ser_cls = repo.cls(MODEL, "SERRecord")
    fields = {st.target.id: st for st in ser_cls.body if isinstance(st, ast.AnnAssign) and isinstance(st.target, ast.Name)}
    optional = {k for k, st in fields.items() if st.value is not None}
    for k in sorted(req):
        R.check(k in fields and k not in optional, r, MODEL, "SERRecord", f"ser: required key {k!r} is a mandatory dataclass field", f"schema-required SER key {k!r} is not a mandatory field of SERRecord", ser_cls.lineno)
    mk = repo.func(ORCH, "SemantivaOrchestrator._make_ser_record")
    ctor = next((c for c in ast.walk(mk) if isinstance(c, ast.Call) and call_attr(c) == "SERRecord"), None)
    if ctor is None:
        raise AnalysisError("_make_ser_record: SERRecord(...) not found")
    for k, spec in props.items():
        v = kwarg(ctor, k)
        if "const" in spec:
            R.check(isinstance(v, ast.Constant) and v.value == spec["const"], r, ORCH, "SemantivaOrchestrator._make_ser_record", f"ser: {k} == {spec['const']!r}", "SER constant differs from schema const", ctor.lineno)
        if spec.get("type") == "object" and spec.get("required"):
            if isinstance(v, ast.Dict):
                lit_keys = {kk.value for kk in v.keys if isinstance(kk, ast.Constant)}
                for rk in spec["required"]:
                    R.check(rk in lit_keys, r, ORCH, "SemantivaOrchestrator._make_ser_record", f"ser.{k}: required key {rk!r}", f"SER {k} object lacks schema-required key {rk!r}", ctor.lineno)
            elif k == "context_delta":
                cd = repo.cls(MODEL, "ContextDelta")
                cfields = {st.target.id for st in cd.body if isinstance(st, ast.AnnAssign) and isinstance(st.target, ast.Name) and st.value is None}
                for rk in spec["required"]:
                    R.check(rk in cfields, r, MODEL, "ContextDelta", f"ser.context_delta: required key {rk!r}", f"ContextDelta lacks mandatory field {rk!r}", cd.lineno)
            elif k == "timing":
                # timing dict literals are built at the call sites in execute
                ex = repo.func(ORCH, EXECUTE)
                for c in calls_in(ex):
                    if call_attr(c) == "_make_ser_record":
                        t = kwarg(c, "timing")
                        lit_keys = {kk.value for kk in t.keys if isinstance(kk, ast.Constant)} if isinstance(t, ast.Dict) else set()
                        for rk in spec["required"]:
                            R.check(rk in lit_keys, r, ORCH, EXECUTE, f"ser.timing ({getattr(kwarg(c, 'status'), 'value', '?')}): required key {rk!r}", f"SER timing lacks schema-required key {rk!r}", c.lineno)
    # status enum: literals passed as status= at call sites, after normalisation table
    enum = set(props.get("status", {}).get("enum", []))
    ex = repo.func(ORCH, EXECUTE)
    for c in calls_in(ex):
        if call_attr(c) == "_make_ser_record":
            s = kwarg(c, "status")
            R.check(isinstance(s, ast.Constant) and s.value in enum, r, ORCH, EXECUTE, f"ser.status literal {getattr(s, 'value', '?')!r}", "SER status literal outside the schema enum", c.lineno)
    # parameter_sources enum
    ps_enum = set(props.get("processor", {}).get("properties", {}).get("parameter_sources", {}).get("additionalProperties", {}).get("enum", []))
    rp = repo.func(ORCH, "SemantivaOrchestrator._resolve_params_with_sources")
    # the provenance table by role: the second component of what the resolver returns
    src_names = {r.value.elts[1].id for r in walk_no_nested(rp) if isinstance(r, ast.Return) and isinstance(r.value, ast.Tuple) and len(r.value.elts) == 2 and isinstance(r.value.elts[1], ast.Name)}
    if not src_names:
        raise AnalysisError("_resolve_params_with_sources: does not return (params, sources) locals")
    for n in walk_no_nested(rp):
        if isinstance(n, ast.Assign) and any(isinstance(t, ast.Subscript) and dotted_name(t.value) in src_names for t in n.targets):
            R.check(isinstance(n.value, ast.Constant) and n.value.value in ps_enum, r, ORCH, "SemantivaOrchestrator._resolve_params_with_sources", norm(n), "parameter source label outside the schema enum {context,node,default}", n.lineno)
    # on_node_event: required SER keys are not filtered away (only None-valued top-level keys are dropped)
    one = repo.func(JSONL, "JsonlTraceDriver.on_node_event")
    for n in walk_no_nested(one):
        if isinstance(n, ast.DictComp) and n.generators and n.generators[0].ifs:
            # the filter speaks about the *value* being iterated: `<v> is not None`, or a JSON-type test of <v>
            ok = len(n.generators) == 1 and len(n.generators[0].ifs) == 1 and (
                pat.match("{_K_: _V_ for _K_, _V_ in _R_.items() if _V_ is not None}", n) is not None
                or pat.match("{_K_: _V_ for _K_, _V_ in _R_.items() if isinstance(_V_, _T_)}", n) is not None)
            R.check(ok, r, JSONL, "JsonlTraceDriver.on_node_event", norm(stmt_of(n))[:120], "SER keys are filtered by something other than `is not None` / JSON-type fallback", n.lineno)


SANITISERS = {"float", "int", "str", "bool", "len", "repr", "_json_safe_sample", "serialize_json_safe", "safe_repr", "sha256_bytes", "_sha256_json", "hexdigest"}


def _leaf_safe(fn: ast.AST, e: ast.AST, depth: int = 0) -> bool:
    """Is the value of *e* JSON-safe by construction (sanitiser table, literals, containers of those)?"""
    if isinstance(e, ast.Constant) or isinstance(e, ast.JoinedStr):
        return True
    if isinstance(e, ast.Attribute) and e.attr in ("__name__", "__qualname__", "__module__"):
        return True
    if isinstance(e, ast.Call):
        a = call_attr(e)
        if a in SANITISERS:
            return True
        if a == "getattr" and len(e.args) == 3:
            return False
        if a in ("list", "sorted", "tuple") and e.args:
            return _leaf_safe(fn, e.args[0], depth)
        return False
    if isinstance(e, ast.Dict):
        return all(k is not None and isinstance(k, ast.Constant) and _leaf_safe(fn, v, depth) for k, v in zip(e.keys, e.values))
    if isinstance(e, (ast.List, ast.Tuple)):
        return all(_leaf_safe(fn, v, depth) for v in e.elts)
    if isinstance(e, ast.ListComp):
        return _leaf_safe(fn, e.elt, depth)
    if isinstance(e, ast.IfExp):
        return _leaf_safe(fn, e.body, depth) and _leaf_safe(fn, e.orelse, depth)
    if isinstance(e, ast.Name) and depth < 3:
        vals = assigned_value(fn, e.id)
        return bool(vals) and all(_leaf_safe(fn, v, depth + 1) for v in vals)
    return False


def _json_safety_rules(repo: Repo, R: Report, fallback_pops) -> None:
    r = R.rule("C06-D2b-json-safe-before-emit", "values that reach pipeline_start are JSON-safe by construction, so the driver's TypeError fallback (which drops the required pipeline_spec_canonical) is unreachable: canonical nodes are json-dumped when built, and every leaf of a sweep variable's domain signature passes a sanitiser", 6)
    SEM = "semantiva/metadata/semantic_id.py"
    vds = repo.func(SEM, "variable_domain_signature")
    n_leaves = 0
    from ..engine import returned_values
    for ret_value in [v for v in returned_values(vds) if isinstance(v, ast.Dict)]:
        for k, v in zip(ret_value.keys, ret_value.values):
            kname = k.value if isinstance(k, ast.Constant) else "?"
            # getattr(spec, "key", None) for from_context: the key is a mapping key of the YAML (str)
            if isinstance(v, ast.Call) and call_attr(v) == "getattr" and kname == "key":
                continue
            if isinstance(v, ast.Name) and v.id == vds.args.args[0].arg:
                continue
            n_leaves += 1
            R.check(_leaf_safe(vds, v), r, SEM, "variable_domain_signature", f"{kname!r}: {norm(v)[:70]}",
                    "a raw configuration value (e.g. a YAML date in a sweep sequence) is embedded unsanitised in metadata that is attached to pipeline_start and hashed/serialised in SER construction: json.dumps raises TypeError (traced run fails, or pipeline_start loses its required pipeline_spec_canonical)", v.lineno)
    if n_leaves == 0:
        raise AnalysisError("variable_domain_signature: no returned dict literals recognised")
    bcs = repo.func(GRAPH, "build_canonical_spec")
    dumps = [c for c in calls_in(bcs) if call_name(c) == "json.dumps"]
    # the node list by role: the value stored under "nodes" in the returned canonical mapping
    from ..engine import returned_values
    node_lists = {v.id for rv in returned_values(bcs) for d in ast.walk(rv) if isinstance(d, ast.Dict) for k, v in zip(d.keys, d.values)
                  if isinstance(k, ast.Constant) and k.value == "nodes" and isinstance(v, ast.Name)}
    appended = [c for c in calls_in(bcs) if call_attr(c) == "append" and isinstance(c.func, ast.Attribute) and dotted_name(c.func.value) in node_lists]
    ok = bool(dumps) and bool(appended) and all(d.lineno < appended[0].lineno for d in dumps[:1])
    R.check(ok, r, GRAPH, "build_canonical_spec", "json.dumps(canon) precedes nodes.append(...)", "canonical nodes are no longer serialised when built: a non-JSON parameter is only discovered when the trace is written", bcs.lineno)
    for qn, c, k in fallback_pops:
        R.ok(r, JSONL, qn, norm(c), f"fallback drops required key {k!r}; unreachable while the producers above hold", c.lineno)
