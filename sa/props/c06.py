"""C06 - every run leaves a well-formed, schema-valid trace, whatever node fails.

D1 lifecycle bracket on every path of SemantivaOrchestrator.execute (CFG with EXC/BASE
   exception edges, analysed under *trace is present*),
D2 writer/schema agreement of the JSONL driver and the SER builder,
D3 shared ids, canonical order and upstream edges,
D4 one JSON object per line.

Round 5 additions: D1g (str()/repr() of every exception class the package defines cannot raise inside the handlers),
D1h (helpers reached from execute()'s handlers / finally blocks never take the truth value of a context entry / the
payload data, or of a rich comparison of them, outside a containing try; run-state taint is handed down the call graph
from the Payload parameter of execute), D4c (writer json.dumps options are no stricter than the sanitiser probes).
"""
from __future__ import annotations

import ast
import json
from pathlib import Path
from typing import Dict, List, Optional, Set, Tuple

from ..cfg import BASE, CFG, EXC, edges_guaranteeing, reaching_defs
from ..engine import (
    AnalysisError,
    FuncNode,
    Repo,
    ancestors,
    assigned_value,
    call_attr,
    call_name,
    calls_in,
    dotted_name,
    kwarg,
    norm,
    qualname_of,
    stmt_of,
    walk_no_nested,
)
from .. import pat
from ..normal import clone, nfunc
from ..report import Report
from . import _orch
from ._orch import ORCH, EXECUTE

JSONL = "semantiva/trace/drivers/jsonl.py"
MODEL = "semantiva/trace/model.py"
GRAPH = "semantiva/pipeline/graph_builder.py"
SCHEMA_DIR = "semantiva/trace/schema"


# ---------------------------------------------------------------------------
# the function under analysis and the values of its locals
# ---------------------------------------------------------------------------

# constructs the rules look for by role; a private helper that contains one of them is inlined into the
# normal form of execute (code moved across a function boundary stays visible), every other helper stays a call
_ROLE_CALLS_BASE = set(_orch.DRIVER_METHODS) | {"_submit_and_wait", "_publish", "_instantiate_nodes", "compute_upstream_map", "compute_pipeline_id"}
_KNOWN_HELPERS_BASE = {"_submit_and_wait", "_publish", "_instantiate_nodes", "_resolve_params_with_sources"}
SER_BUILDER_DEFAULT = "_make_ser_record"


def _ser_builder_name(repo: Repo) -> str:
    """The name under which the orchestrator calls the function that builds the SER: found by role - the call whose
    result is the argument of the driver's ``on_node_event`` (directly, or through a local bound to it) - so a rename of
    that private helper does not move the anchor.  Falls back to the historical spelling when no such call is seen."""
    cached = repo.__dict__.get("_c06_ser_builder")
    if cached is not None:
        return cached
    omod = repo.module(ORCH)
    votes: Dict[str, int] = {}
    for _q, f in omod.defs.items():
        if not isinstance(f, FuncNode):
            continue
        for c in calls_in(f):
            if call_attr(c) != "on_node_event" or not isinstance(c.func, ast.Attribute):
                continue
            arg = c.args[0] if c.args else (c.keywords[0].value if c.keywords else None)
            cands: List[ast.AST] = []
            if isinstance(arg, ast.Call):
                cands = [arg]
            elif isinstance(arg, ast.Name):
                cands = [v for v in assigned_value(f, arg.id) if isinstance(v, ast.Call)]
            for cand in cands:
                a = call_attr(cand)
                if not a:
                    continue
                try:
                    targets = [t for t in repo.resolve_call(omod, cand) if isinstance(t[1], FuncNode)]
                except Exception:
                    targets = []
                if targets and not any(isinstance(getattr(t[1], "name", None), str) and t[1].name == "__init__" for t in targets):
                    votes[a] = votes.get(a, 0) + 1
    name = max(sorted(votes), key=lambda k: votes[k]) if votes else SER_BUILDER_DEFAULT
    repo.__dict__["_c06_ser_builder"] = name
    return name


def _tuple_source_call(fn: ast.AST, name: str) -> Optional[ast.Call]:
    """The call whose result binds local *name* in *fn*: ``name = f(..)`` or ``.., name, .. = f(..)`` (one such binding)."""
    found: List[ast.Call] = []
    for n in ast.walk(fn):
        if isinstance(n, ast.Assign) and isinstance(n.value, ast.Call):
            for t in n.targets:
                elts = t.elts if isinstance(t, (ast.Tuple, ast.List)) else [t]
                if any(isinstance(x, ast.Name) and x.id == name for x in elts):
                    found.append(n.value)
    return found[0] if len(found) == 1 else None


def _execute_roles(repo: Repo) -> Dict[str, str]:
    """Names of the private helpers execute() delegates to, found by what the call does in the raw function (a rename of
    the helper keeps the role): `node_runner` receives the local callable that invokes ``<node>.process(..)``;
    `instantiate` produces the sequence the node loop iterates over; `resolve_params` produces the pair whose second
    component is handed to the SER builder as ``param_sources``.  Each falls back to its historical name."""
    cached = repo.__dict__.get("_c06_roles")
    if cached is not None:
        return cached
    roles = {"node_runner": "_submit_and_wait", "instantiate": "_instantiate_nodes", "resolve_params": "_resolve_params_with_sources"}
    try:
        raw = repo.func(ORCH, EXECUTE)
    except Exception:
        raw = None
    if raw is not None:
        # the node callable: a local def / lambda whose body calls <x>.process(..)
        runs_node: Set[str] = set()
        lambdas: List[ast.AST] = []
        for d in ast.walk(raw):
            if d is raw:
                continue
            if isinstance(d, FuncNode) and any(call_attr(c) == "process" and isinstance(c.func, ast.Attribute) for c in calls_in(d, include_nested=True)):
                runs_node.add(d.name)
            elif isinstance(d, ast.Lambda) and any(isinstance(c, ast.Call) and call_attr(c) == "process" and isinstance(c.func, ast.Attribute) for c in ast.walk(d.body)):
                lambdas.append(d)
        runner_calls = [c for c in ast.walk(raw) if isinstance(c, ast.Call) and call_attr(c) and any(
            (isinstance(a, ast.Name) and a.id in runs_node) or any(a is l for l in lambdas) for a in list(c.args) + [k.value for k in c.keywords])]
        names = {call_attr(c) for c in runner_calls}
        if len(names) == 1:
            roles["node_runner"] = names.pop()
            loop = next((a for a in ancestors(runner_calls[0]) if isinstance(a, ast.For)), None)
            if loop is not None:
                srcs = {call_attr(sc) for x in ast.walk(loop.iter) if isinstance(x, ast.Name) for sc in [_tuple_source_call(raw, x.id)] if sc is not None and call_attr(sc)}
                srcs -= {"enumerate", "zip", "list", "tuple", "range", "len"}
                if len(srcs) == 1:
                    roles["instantiate"] = srcs.pop()
        ser = _ser_builder_name(repo)
        srcs2: Set[str] = set()
        for c in ast.walk(raw):
            if isinstance(c, ast.Call) and call_attr(c) == ser:
                v = kwarg(c, "param_sources")
                if isinstance(v, ast.Name):
                    sc = _tuple_source_call(raw, v.id)
                    if sc is not None and call_attr(sc):
                        srcs2.add(call_attr(sc))
        if len(srcs2) == 1:
            roles["resolve_params"] = srcs2.pop()
    repo.__dict__["_c06_roles"] = roles
    return roles


def _role_calls(repo: Repo) -> Set[str]:
    ro = _execute_roles(repo)
    return _ROLE_CALLS_BASE | {_ser_builder_name(repo), ro["node_runner"], ro["instantiate"]}


def _known_helpers(repo: Repo) -> Set[str]:
    return _KNOWN_HELPERS_BASE | {_ser_builder_name(repo)} | set(_execute_roles(repo).values())


def _execute_normal_form(repo: Repo) -> ast.FunctionDef:
    cached = repo.__dict__.get("_c06_execute_nf")
    if cached is not None:
        return cached
    mod = repo.module(ORCH)
    raw = repo.func(ORCH, EXECUTE)
    private = {q.split(".")[-1]: f for q, f in mod.defs.items() if isinstance(f, FuncNode) and q.split(".")[-1].startswith("_") and not q.split(".")[-1].startswith("__") and f is not raw}
    relevant: Set[str] = set()
    ROLE_CALLS, KNOWN_HELPERS = _role_calls(repo), _known_helpers(repo)
    changed = True
    while changed:
        changed = False
        for name, f in private.items():
            if name in relevant or name in KNOWN_HELPERS:
                continue
            if any(call_attr(c) in ROLE_CALLS or call_attr(c) in relevant for c in calls_in(f)):
                relevant.add(name)
                changed = True
    keep = tuple(sorted((set(private) - relevant) | KNOWN_HELPERS))
    nf = nfunc(repo, ORCH, EXECUTE, keep=keep)
    hidden = sorted({call_attr(c) for c in calls_in(nf) if call_attr(c) in relevant})
    if hidden:
        raise AnalysisError(f"execute(): helper(s) {hidden} take part in the trace lifecycle but could not be inlined into the normal form")
    repo.__dict__["_c06_execute_nf"] = nf
    return nf


def _helper_of_execute(repo: Repo, name: str) -> Tuple[str, str, ast.AST]:
    """(file, qualified name, def) of the helper execute() calls as ``self.<name>(..)`` / ``<name>(..)``: found from
    the call site through call resolution, so a method that became a module-level function (or the reverse, or
    moved to a base class / another module) is still the anchor."""
    cache = repo.__dict__.setdefault("_c06_helpers", {})
    if name in cache:
        return cache[name]
    omod = repo.module(ORCH)
    raw = repo.func(ORCH, EXECUTE)
    found: List[Tuple[object, ast.AST]] = []
    todo, seen_fns = [raw], {id(raw)}
    while todo and not found:
        f = todo.pop(0)
        fmod = repo.module_of(f)
        for c in calls_in(f, include_nested=True):
            try:
                targets = [t for t in repo.resolve_call(fmod, c) if isinstance(t[1], FuncNode)]
            except Exception:
                targets = []
            if call_attr(c) == name:
                concrete = [t for t in targets if not _is_abstract(t[1])] or targets
                if concrete:
                    found.append(concrete[0])
                    break
            elif fmod is omod:
                # a private helper of the orchestrator module that execute delegates to
                for m_, t_ in targets:
                    if m_ is omod and t_.name.startswith("_") and not t_.name.startswith("__") and id(t_) not in seen_fns and len(seen_fns) < 40:
                        seen_fns.add(id(t_))
                        todo.append(t_)
    if not found:
        for q in (f"SemantivaOrchestrator.{name}", name):
            d = repo.maybe_func(ORCH, q)
            if d is not None:
                found.append((omod, d))
                break
    if not found:
        raise AnalysisError(f"execute(): the helper `{name}` it calls was not found (anchor vanished)")
    m_, d = found[0]
    cache[name] = (m_.rel, qualname_of(d), d)
    return cache[name]


def _spec_param_of(callee: ast.AST) -> Optional[str]:
    """First parameter after the receiver (none for a module-level / static function)."""
    from ..engine import parent
    pos = [x.arg for x in callee.args.posonlyargs + callee.args.args]
    deco = {dotted_name(d) for d in getattr(callee, "decorator_list", [])}
    if isinstance(parent(callee), ast.ClassDef) and "staticmethod" not in deco and pos:
        pos = pos[1:]
    return pos[0] if pos else None


NONNULL_BUILTINS = {"str", "repr", "int", "float", "bool", "dict", "list", "tuple", "set", "frozenset", "sorted", "len", "hex", "format", "bytes"}


def _is_none(e: ast.AST) -> bool:
    return isinstance(e, ast.Constant) and e.value is None


def _none_test(e: ast.AST) -> Optional[Tuple[ast.AST, bool]]:
    """(subject, True) for ``subject is not None`` / ``subject != None`` / ``None is not subject``; (subject, False)
    for the ``is`` / ``==`` forms."""
    if isinstance(e, ast.Compare) and len(e.ops) == 1:
        a, b, op = e.left, e.comparators[0], e.ops[0]
        if _is_none(b) or _is_none(a):
            subject = a if _is_none(b) else b
            if isinstance(op, (ast.IsNot, ast.NotEq)):
                return subject, True
            if isinstance(op, (ast.Is, ast.Eq)):
                return subject, False
    return None


def _three_valued(e: ast.AST, truth_of_leaf, nonnull_of) -> Optional[bool]:
    """Truth value of a boolean combination (not / and / or / conditional expression / None tests) of leaves."""
    def ev(x: ast.AST) -> Optional[bool]:
        if isinstance(x, ast.Constant):
            return bool(x.value)
        if isinstance(x, ast.UnaryOp) and isinstance(x.op, ast.Not):
            v = ev(x.operand)
            return None if v is None else (not v)
        if isinstance(x, ast.BoolOp):
            vals = [ev(v) for v in x.values]
            if isinstance(x.op, ast.And):
                if any(v is False for v in vals):
                    return False
                return True if all(v is True for v in vals) else None
            if any(v is True for v in vals):
                return True
            return False if all(v is False for v in vals) else None
        if isinstance(x, ast.IfExp):
            t = ev(x.test)
            if t is True:
                return ev(x.body)
            if t is False:
                return ev(x.orelse)
            a, b = ev(x.body), ev(x.orelse)
            return a if a == b else None
        if isinstance(x, ast.NamedExpr):
            return ev(x.value)
        nt = _none_test(x)
        if nt is not None:
            nn = nonnull_of(nt[0])
            return None if nn is None else (nn if nt[1] else not nn)
        return truth_of_leaf(x)

    return ev(e)


def _make_fold(truth: Dict[str, bool]):
    """Fold tests over the locals whose truth value in a *traced run* is known (see _Scenario)."""
    def leaf(x: ast.AST) -> Optional[bool]:
        return truth.get(x.id) if isinstance(x, ast.Name) else None

    def nonnull(x: ast.AST) -> Optional[bool]:
        # a truthy value is not None; a falsy one may be None, "", 0 ...
        return True if isinstance(x, ast.Name) and truth.get(x.id) is True else None

    return lambda e: _three_valued(e, leaf, nonnull)


class _Scenario:
    """The *traced run* scenario: the trace parameter of execute() holds a driver.  Decides, for every local derived
    from it, whether the local is truthy or falsy in that scenario - by evaluating the values that reach the uses of
    the local (reaching definitions on the CFG folded with what is known so far), with polarity: `not (trace is None
    or run_id is None)` is true, `trace is None` is false.  A test of *another* local against None (`run_id is not
    None`) is decided by the definitions of that local that reach the test in the scenario: all of them must bind a
    value that cannot be None (text built in place, a container, a constructor, a repo function whose returns are
    such values)."""

    def __init__(self, repo: Repo, fn: ast.FunctionDef):
        self.repo, self.fn = repo, fn
        self.mod = repo.module(ORCH)
        self.trace = _orch.trace_param(fn)
        self.truth: Dict[str, bool] = {self.trace: True}
        self._nn_fn: Dict[int, Optional[bool]] = {}
        loads: Dict[str, List[ast.AST]] = {}
        for n in walk_no_nested(fn):
            if isinstance(n, ast.Name) and isinstance(n.ctx, ast.Load):
                loads.setdefault(n.id, []).append(n)
        params = _param_names(fn)
        # candidates: locals bound (anywhere) to an expression that reads the trace parameter or another candidate
        derived: Set[str] = {self.trace}
        changed = True
        while changed:
            changed = False
            for n in walk_no_nested(fn):
                if isinstance(n, (ast.Assign, ast.AnnAssign, ast.NamedExpr)) and n.value is not None:
                    if any(isinstance(x, ast.Name) and x.id in derived for x in ast.walk(n.value)):
                        new_names = _node_binds(n) - derived
                        if new_names:
                            derived |= new_names
                            changed = True
        for _round in range(6):
            fold = _make_fold(self.truth)
            g = CFG(fn, fold=fold, may_raise=_orch.full_may_raise(set(), {"Payload"}))
            V = _Vals(g, fn, fold)
            self.V = V
            new: Dict[str, bool] = {self.trace: True}
            for name in sorted(V.locals - params):
                uses: Set[int] = set()
                for ld in loads.get(name, ()):
                    uses.update(g.nodes_for(stmt_of(ld)) or ())
                if not uses:
                    continue
                if name not in derived:
                    continue
                alts = V.resolve(ast.Name(id=name, ctx=ast.Load()), sorted(uses))
                vals = {self.truth_of(a) for a in alts}
                if len(vals) == 1 and None not in vals:
                    new[name] = vals.pop()
            if new == self.truth:
                break
            self.truth = new
        self.fold = _make_fold(self.truth)

    # -- evaluation of resolved expressions (names are `x@param`, `x@<node>` tags or free names) -------------
    def truth_of(self, e: ast.AST) -> Optional[bool]:
        def leaf(x: ast.AST) -> Optional[bool]:
            if isinstance(x, ast.Name):
                return True if x.id in (self.trace, f"{self.trace}@param") else None
            if isinstance(x, ast.Call) and call_attr(x) == "cast" and len(x.args) == 2 and not x.keywords:
                return self.truth_of(x.args[1])
            if isinstance(x, ast.JoinedStr):
                return True if any(isinstance(v, ast.Constant) and v.value for v in x.values) else None
            return None
        return _three_valued(e, leaf, self.nonnull)

    def nonnull(self, e: ast.AST, depth: int = 0) -> Optional[bool]:
        """True: cannot be None in a traced run; False: is None; None: unknown."""
        if depth > 6:
            return None
        if isinstance(e, ast.Constant):
            return e.value is not None
        if isinstance(e, ast.Name):
            if e.id in (self.trace, f"{self.trace}@param"):
                return True
            info = self.V.info.get(e.id)
            if info is not None and info[1] == "value" and info[2] is not None:
                outs = {self.nonnull(a, depth + 1) for a in self.V.resolve(info[2], [info[0].id])}
                return outs.pop() if len(outs) == 1 else None
            return None
        if isinstance(e, (ast.JoinedStr, ast.Dict, ast.List, ast.Tuple, ast.Set, ast.ListComp, ast.SetComp, ast.DictComp, ast.GeneratorExp, ast.Lambda, ast.Compare)):
            return True
        if isinstance(e, ast.UnaryOp) and isinstance(e.op, ast.Not):
            return True
        if isinstance(e, ast.BinOp) and isinstance(e.op, (ast.Add, ast.Mod)):
            text = lambda x: isinstance(x, ast.JoinedStr) or (isinstance(x, ast.Constant) and isinstance(x.value, str))
            return True if text(e.left) or (isinstance(e.op, ast.Add) and text(e.right)) else None
        if isinstance(e, ast.IfExp):
            t = self.truth_of(e.test)
            if t is not None:
                return self.nonnull(e.body if t else e.orelse, depth + 1)
            a, b = self.nonnull(e.body, depth + 1), self.nonnull(e.orelse, depth + 1)
            return a if a == b else None
        if isinstance(e, ast.BoolOp):
            if isinstance(e.op, ast.Or):
                # an earlier operand is the result only when it is truthy (hence not None)
                return True if self.nonnull(e.values[-1], depth + 1) is True else None
            return True if all(self.nonnull(v, depth + 1) is True for v in e.values) else None
        if isinstance(e, ast.NamedExpr):
            return self.nonnull(e.value, depth + 1)
        if isinstance(e, ast.Call):
            if call_attr(e) == "cast" and len(e.args) == 2 and not e.keywords:
                return self.nonnull(e.args[1], depth + 1)
            if isinstance(e.func, ast.Name) and e.func.id in NONNULL_BUILTINS and e.func.id not in self.V.locals and e.func.id not in self.mod.defs:
                return True
            return self._call_nonnull(self.mod, e, depth)
        return None

    def _call_nonnull(self, mod, call: ast.Call, depth: int) -> Optional[bool]:
        try:
            targets = self.repo.resolve_call(mod, call)
        except Exception:
            return None
        if not targets:
            return None
        for m_, t in targets:
            if isinstance(t, ast.FunctionDef) and t.name == "__init__":
                continue  # a constructor call yields an instance
            if not isinstance(t, ast.FunctionDef) or _is_abstract(t):
                return None
            if self._returns_nonnull(m_, t, depth) is not True:
                return None
        return True

    def _returns_nonnull(self, mod, fn: ast.FunctionDef, depth: int) -> Optional[bool]:
        key = id(fn)
        if key in self._nn_fn:
            return self._nn_fn[key]
        self._nn_fn[key] = None
        ok: Optional[bool] = True
        if any(isinstance(n, (ast.Yield, ast.YieldFrom)) for n in walk_no_nested(fn)):
            self._nn_fn[key] = True   # a generator object
            return True
        rets = [r for r in walk_no_nested(fn) if isinstance(r, ast.Return)]
        g = CFG(fn)
        if not rets or any(r.value is None for r in rets):
            ok = None
        else:
            # falling off the end returns None: the last statement of the body must not complete normally
            last = fn.body[-1]
            if not isinstance(last, (ast.Return, ast.Raise)):
                try:
                    seen = g.reach([g.entry], blocked={n.id for n in g.nodes if n.kind == "stmt" and isinstance(n.ast, (ast.Return, ast.Raise))})
                    if g.ret_exit in seen:
                        ok = None
                except Exception:
                    ok = None
        if ok:
            locs = _local_names(fn) | _param_names(fn)
            for r in rets:
                if not self._shape_nonnull(mod, fn, r.value, locs, depth + 1):
                    ok = None
                    break
        self._nn_fn[key] = ok
        return ok

    def _shape_nonnull(self, mod, fn: ast.FunctionDef, e: ast.AST, locs: Set[str], depth: int) -> bool:
        """Inside a callee: the returned expression cannot be None by its shape (locals: every assignment binds such a
        shape)."""
        if depth > 6:
            return False
        if isinstance(e, ast.Constant):
            return e.value is not None
        if isinstance(e, (ast.JoinedStr, ast.Dict, ast.List, ast.Tuple, ast.Set, ast.ListComp, ast.SetComp, ast.DictComp, ast.GeneratorExp, ast.Lambda, ast.Compare)):
            return True
        if isinstance(e, ast.UnaryOp) and isinstance(e.op, ast.Not):
            return True
        if isinstance(e, ast.BinOp) and isinstance(e.op, (ast.Add, ast.Mod)):
            text = lambda x: isinstance(x, ast.JoinedStr) or (isinstance(x, ast.Constant) and isinstance(x.value, str))
            return bool(text(e.left) or (isinstance(e.op, ast.Add) and text(e.right)))
        if isinstance(e, ast.IfExp):
            return self._shape_nonnull(mod, fn, e.body, locs, depth + 1) and self._shape_nonnull(mod, fn, e.orelse, locs, depth + 1)
        if isinstance(e, ast.BoolOp):
            if isinstance(e.op, ast.Or):
                return self._shape_nonnull(mod, fn, e.values[-1], locs, depth + 1)
            return all(self._shape_nonnull(mod, fn, v, locs, depth + 1) for v in e.values)
        if isinstance(e, ast.NamedExpr):
            return self._shape_nonnull(mod, fn, e.value, locs, depth + 1)
        if isinstance(e, ast.Name):
            if e.id in _param_names(fn):
                return False
            binds = [n for n in walk_no_nested(fn) if isinstance(n, (ast.Assign, ast.AnnAssign, ast.AugAssign, ast.For, ast.With, ast.NamedExpr, ast.ExceptHandler, ast.Delete))
                     and e.id in _node_binds(n)]
            if not binds or not all(isinstance(b, (ast.Assign, ast.AnnAssign)) and b.value is not None and all(isinstance(t, ast.Name) for t in (b.targets if isinstance(b, ast.Assign) else [b.target])) for b in binds):
                return False
            return all(self._shape_nonnull(mod, fn, b.value, locs, depth + 1) for b in binds)
        if isinstance(e, ast.Call):
            if call_attr(e) == "cast" and len(e.args) == 2 and not e.keywords:
                return self._shape_nonnull(mod, fn, e.args[1], locs, depth + 1)
            if isinstance(e.func, ast.Name) and e.func.id in NONNULL_BUILTINS and e.func.id not in locs and e.func.id not in mod.defs:
                return True
            if isinstance(e.func, ast.Attribute) and e.func.attr in ("hexdigest", "format", "join", "strip", "lower", "upper", "encode", "decode", "replace", "copy", "keys", "values", "items") and not self.repo.resolve_call_by_name(e):
                # str / hash-object / mapping methods that return a fresh value (no function of the package has that name)
                return True
            return self._call_nonnull(mod, e, depth) is True
        return False


def _node_binds(n: ast.AST) -> Set[str]:
    out: Set[str] = set()
    if isinstance(n, ast.Assign):
        tgts = n.targets
    elif isinstance(n, (ast.AnnAssign, ast.AugAssign, ast.NamedExpr)):
        tgts = [n.target]
    elif isinstance(n, ast.For):
        tgts = [n.target]
    elif isinstance(n, ast.With):
        tgts = [i.optional_vars for i in n.items if i.optional_vars is not None]
    elif isinstance(n, ast.ExceptHandler):
        return {n.name} if n.name else set()
    elif isinstance(n, ast.Delete):
        tgts = n.targets
    else:
        tgts = []
    for t in tgts:
        for x in ast.walk(t):
            if isinstance(x, ast.Name):
                out.add(x.id)
    return out


def _driver_vars(fn: ast.FunctionDef, tainted: Set[str]) -> Set[str]:
    return {c.func.value.id for c in calls_in(fn)
            if isinstance(c.func, ast.Attribute) and c.func.attr in _orch.DRIVER_METHODS and isinstance(c.func.value, ast.Name) and c.func.value.id in tainted}


LIST_MUTATORS = {"append", "extend", "insert", "pop", "remove", "clear", "sort", "reverse", "__setitem__", "__delitem__", "__iadd__"}


class _SubstFree(ast.NodeTransformer):
    """Replace loads of function locals (not names bound by an enclosing comprehension / lambda)."""

    def __init__(self, mapping: Dict[str, ast.AST]):
        self.mapping = mapping
        self.hidden: List[Set[str]] = []

    def visit_Name(self, node: ast.Name):
        if isinstance(node.ctx, ast.Load) and node.id in self.mapping and not any(node.id in h for h in self.hidden):
            return clone(self.mapping[node.id])
        return node

    def _comp(self, node):
        self.hidden.append(_comp_targets(node))
        self.generic_visit(node)
        self.hidden.pop()
        return node

    visit_ListComp = visit_SetComp = visit_GeneratorExp = visit_DictComp = _comp

    def visit_Lambda(self, node):
        return node


class _Vals:
    """What a local holds at a program point, by reaching definitions on the CFG of the function (built under
    *trace is present*, so definitions on the folded-away branches do not count).

    ``resolve(expr, uses)`` gives the alternatives of *expr* with every local replaced by the (pure) value bound to
    it; a local bound to something that must not be re-evaluated (a call, a fresh container, a loop target, an
    unpacked element) stays a name of the form ``<name>@<defining CFG node>[.<path>]`` - two expressions denote the
    same object when they resolve to the same such name.  ``typing.cast`` is transparent and conditional
    expressions whose test is decided by *trace is present* are folded."""

    def __init__(self, g: CFG, fn: ast.AST, fold=None):
        from ..normal import _purity
        self._purity = _purity
        self.g, self.fn = g, fn
        self.fold = fold or (lambda t: None)
        self.params = _param_names(fn)
        self.locals = _local_names(fn)
        self.info: Dict[str, Tuple[object, str, Optional[ast.AST], Tuple[int, ...]]] = {}
        self.seen_at: Dict[str, Set[Tuple[int, ...]]] = {}
        self._defs: Dict[Tuple[str, int], list] = {}
        self._def_index: Optional[Dict[str, Set[int]]] = None

    # -- program points ---------------------------------------------------------------------------------
    def uses(self, node: ast.AST) -> List[int]:
        ids = self.g.nodes_for(stmt_of(node))
        if not ids:
            raise AnalysisError(f"execute(): `{norm(node)[:60]}` is not on the control-flow graph (unreachable under *trace is present*?)")
        return ids

    def defs(self, name: str, uses) -> list:
        out = {}
        for u in uses:
            key = (name, u)
            if key not in self._defs:
                self._defs[key] = self._reaching(name, u)
            for d in self._defs[key]:
                out[d.id] = d
        return [out[k] for k in sorted(out)]

    def _reaching(self, name: str, use: int) -> list:
        """Definitions of *name* that reach CFG node *use* with no other definition in between (a statement that
        raised has not bound its target: exception edges out of the defining node do not carry the definition)."""
        g = self.g
        dn = self._def_nodes(name)
        out = []
        for d in sorted(dn):
            stop = dn - {d, use}
            starts = [t for t, lab in g.succ[d] if lab not in (EXC, BASE) and t not in stop]
            if use in starts or use in g.reach(starts, blocked=stop):
                out.append(g.nodes[d])
        return out

    def _def_nodes(self, name: str) -> Set[int]:
        if self._def_index is None:
            self._def_index = {}
            for n in self.g.nodes:
                for nm in _node_defs(n)[0]:
                    self._def_index.setdefault(nm, set()).add(n.id)
        return set(self._def_index.get(name, ()))

    @staticmethod
    def _path_in(target: ast.AST, name: str) -> Optional[Tuple[int, ...]]:
        if isinstance(target, ast.Name):
            return () if target.id == name else None
        if isinstance(target, ast.Starred):
            return None
        if isinstance(target, (ast.Tuple, ast.List)):
            for i, el in enumerate(target.elts):
                p = _Vals._path_in(el, name)
                if p is not None:
                    return (i,) + p
        return None

    def def_value(self, d, name: str) -> Tuple[str, Optional[ast.AST], Tuple[int, ...]]:
        """('value', expr, ()) plain binding; ('elem', expr, path) element of an unpacked value;
        ('iter', iterable, path) loop target; ('opaque', None, ())."""
        a = d.ast
        if d.kind == "stmt" and isinstance(a, (ast.Assign, ast.AnnAssign)) and a.value is not None:
            for t in (a.targets if isinstance(a, ast.Assign) else [a.target]):
                path = self._path_in(t, name)
                if path is None:
                    continue
                v = a.value
                rest = path
                while rest and isinstance(v, (ast.Tuple, ast.List)) and rest[0] < len(v.elts) and not any(isinstance(x, ast.Starred) for x in v.elts):
                    v, rest = v.elts[rest[0]], rest[1:]
                return ("value", v, ()) if not rest else ("elem", v, rest)
        if d.kind == "for" and isinstance(a, ast.For):
            path = self._path_in(a.target, name)
            if path is not None:
                return "iter", a.iter, path
        return "opaque", None, ()

    # -- values -------------------------------------------------------------------------------------------
    def _simplify(self, e: ast.AST) -> ast.AST:
        outer = self

        class S(ast.NodeTransformer):
            def visit_IfExp(self, node):
                f = outer.fold(node.test)
                if f is True:
                    return self.visit(node.body)
                if f is False:
                    return self.visit(node.orelse)
                return self.generic_visit(node)

            def visit_Call(self, node):
                if call_attr(node) == "cast" and len(node.args) == 2 and not node.keywords:
                    return self.visit(node.args[1])
                return self.generic_visit(node)

            def visit_Lambda(self, node):
                return node

        return S().visit(clone(e))

    def resolve(self, e: ast.AST, uses, depth: int = 0) -> List[ast.AST]:
        e = self._simplify(e)
        names: List[str] = []
        for n in _loads(e):
            if n.id in self.locals and n.id not in names and "@" not in n.id:
                names.append(n.id)
        alts: List[Dict[str, ast.AST]] = [{}]
        for nm in names:
            vals = self._name(nm, uses, depth)
            alts = [dict(a, **{nm: v}) for a in alts for v in vals][:24]
        out, seen = [], set()
        for a in alts:
            r = _SubstFree(a).visit(clone(e)) if a else e
            k = ast.dump(r)
            if k not in seen:
                seen.add(k)
                out.append(r)
        return out

    def _name(self, nm: str, uses, depth: int) -> List[ast.AST]:
        uses = list(uses)
        ds = self.defs(nm, uses)
        alts: List[ast.AST] = []
        if nm in self.params:
            seen = self.g.reach([self.g.entry], blocked=self._def_nodes(nm) - set(uses))
            if any(u in seen for u in uses):
                alts.append(ast.Name(id=f"{nm}@param", ctx=ast.Load()))
        if not ds and not alts:
            return [ast.Name(id=nm, ctx=ast.Load())]
        for d in ds:
            kind, v, path = self.def_value(d, nm)
            if kind == "value" and depth < 10:
                sv = self._simplify(v)
                if isinstance(sv, ast.Name) or self._purity(sv) in ("safe", "pure"):
                    alts.extend(self.resolve(sv, [d.id], depth + 1))
                    continue
            tag = f"{nm}@{d.id}" + "".join(f".{i}" for i in path)
            self.info[tag] = (d, kind, v, path)
            self.seen_at.setdefault(tag, set()).add(tuple(sorted(uses)))
            alts.append(ast.Name(id=tag, ctx=ast.Load()))
        out, seen_k = [], set()
        for a in alts:
            k = ast.dump(a)
            if k not in seen_k:
                seen_k.add(k)
                out.append(a)
        return out

    def at(self, e: ast.AST) -> List[ast.AST]:
        """Alternatives of *e* evaluated where it is written."""
        return self.resolve(e, self.uses(e))

    def binding(self, e: ast.AST) -> ast.AST:
        """The expression a ``name@node`` stands for (one level), else *e* itself."""
        if isinstance(e, ast.Name) and e.id in self.info and self.info[e.id][1] == "value":
            return self.info[e.id][2]
        return e

    def binding_site(self, e: ast.AST) -> Optional[List[int]]:
        if isinstance(e, ast.Name) and e.id in self.info:
            return [self.info[e.id][0].id]
        return None

    def unfold(self, alts: List[ast.AST], rounds: int = 3) -> List[ast.AST]:
        """Alternatives with a name that stands for a plainly bound value (``x@node`` for ``x = <expr>``) replaced
        by that expression as evaluated where it was bound - for recognising the *shape* of a value that was given
        a name; identity questions are asked on the folded form."""
        out = list(alts)
        for _ in range(rounds):
            nxt: List[ast.AST] = []
            changed = False
            for a in out:
                if isinstance(a, ast.Name) and a.id in self.info and self.info[a.id][1] == "value" and self.info[a.id][2] is not None:
                    nxt.extend(self.resolve(self.info[a.id][2], [self.info[a.id][0].id]))
                    changed = True
                else:
                    nxt.append(a)
            out = nxt
            if not changed:
                break
        return out

    @staticmethod
    def keyset(alts: List[ast.AST]) -> Set[str]:
        return {ast.dump(a) for a in alts}

    # -- ordered list contents -----------------------------------------------------------------------------
    def _mutations(self, name: str) -> List[ast.stmt]:
        out = []
        for n in self.g.nodes:
            a = n.ast
            if a is None or n.kind != "stmt" or a in out:
                continue
            hit = False
            for x in walk_no_nested(a):
                if isinstance(x, ast.Call) and isinstance(x.func, ast.Attribute) and x.func.attr in LIST_MUTATORS and isinstance(x.func.value, ast.Name) and x.func.value.id == name:
                    hit = True
                elif isinstance(x, ast.Subscript) and isinstance(x.ctx, (ast.Store, ast.Del)) and isinstance(x.value, ast.Name) and x.value.id == name:
                    hit = True
                elif isinstance(x, ast.AugAssign) and isinstance(x.target, ast.Name) and x.target.id == name:
                    hit = True
            if hit:
                out.append(a)
        return out

    def list_content(self, e: ast.AST) -> Optional[Tuple[ast.AST, str, List[ast.AST]]]:
        """(element expression, its loop variable as it appears there, alternatives of the iterable) when the list
        *e* (a ``name@node``) holds exactly ``[element for variable in iterable]`` in iteration order wherever it
        was read: built by a comprehension and not touched since, or started empty and filled by the one
        unconditional ``append`` of a loop that runs to completion before the read."""
        if not (isinstance(e, ast.Name) and e.id in self.info):
            return None
        d, kind, v, _path = self.info[e.id]
        if kind != "value" or v is None:
            return None
        name = e.id.split("@")[0]
        results = []
        for uses in sorted(self.seen_at.get(e.id, ())):
            r = self._list_content_at(name, d, v, list(uses))
            if r is None:
                return None
            results.append(r)
        if not results or len({(ast.dump(r[0]), r[1], tuple(sorted(self.keyset(r[2])))) for r in results}) != 1:
            return None
        return results[0]

    def _list_content_at(self, name: str, d, v: ast.AST, uses: List[int]):
        g = self.g
        other_defs = self._def_nodes(name) - {d.id}
        stop_d = other_defs - set(uses)
        after_d = g.reach([t for t, lab in g.succ[d.id] if lab not in (EXC, BASE) and t not in stop_d], blocked=stop_d)
        muts = []
        for m in self._mutations(name):
            ids = [i for i in g.nodes_for(m) if i in after_d]
            if ids and any(u in g.reach(ids, blocked=other_defs - set(uses)) or u in ids for u in uses):
                muts.append(m)
        comp = v
        if isinstance(v, ast.Call) and call_name(v) in ("list", "tuple") and len(v.args) == 1 and not v.keywords and isinstance(v.args[0], (ast.GeneratorExp, ast.ListComp)):
            comp = v.args[0]
        if isinstance(comp, (ast.ListComp, ast.GeneratorExp)) and not isinstance(v, ast.GeneratorExp):
            gens = comp.generators
            if muts or len(gens) != 1 or gens[0].ifs or gens[0].is_async or not isinstance(gens[0].target, ast.Name):
                return None
            var = gens[0].target.id
            elts = self.resolve(comp.elt, [d.id])
            elts = [x for x in elts]
            if len(elts) != 1:
                return None
            return elts[0], var, self.resolve(gens[0].iter, [d.id])
        empty = (isinstance(v, ast.List) and not v.elts) or (isinstance(v, ast.Call) and call_name(v) == "list" and not v.args and not v.keywords)
        if not empty or len(muts) != 1:
            return None
        m = muts[0]
        from ..engine import parent
        loop = parent(m)
        call = m.value if isinstance(m, ast.Expr) else None
        if not (isinstance(loop, ast.For) and m in loop.body and not loop.orelse and isinstance(loop.target, ast.Name) and isinstance(call, ast.Call)
                and call_attr(call) == "append" and len(call.args) == 1 and not call.keywords):
            return None
        if any(isinstance(x, (ast.Break, ast.Return)) for st in loop.body for x in walk_no_nested(st)):
            return None
        if any(isinstance(a, (ast.For, ast.While, ast.AsyncFor)) for a in _up_to(loop, self.fn)):
            return None
        heads = g.nodes_for(loop)
        if len(heads) != 1:
            return None
        head = heads[0]
        inside = {id(x) for st in loop.body for x in ast.walk(st)}
        inside_nodes = {n.id for n in g.nodes if n.ast is not None and id(n.ast) in inside} | {head}
        if any(u in inside_nodes for u in uses):
            return None
        # the loop stands between the empty list and the read on every path
        stop = {head} | (other_defs - set(uses))
        around = g.reach([t for t, _l in g.succ[d.id] if t not in stop], blocked=stop)
        if any(u in around for u in uses):
            return None
        # one append per iteration, whatever path the body takes
        m_ids = set(g.nodes_for(m))
        saved = g.succ[head]
        starts = [t for t, lab in saved if lab == "T"]
        g.succ[head] = []
        try:
            cnt = g.counts(starts, lambda n: n.id in m_ids, count_start=True)
        finally:
            g.succ[head] = saved
        if cnt.get(head) != {1}:
            return None
        # an exception that leaves the loop half-way never reaches the read
        escapes = [t for i in inside_nodes for t, lab in g.succ[i] if lab in (EXC, BASE) and t not in inside_nodes]
        if escapes:
            seen = g.reach(escapes)
            if any(u in seen for u in uses):
                return None
        elts = self.resolve(call.args[0], sorted(m_ids))
        if len(elts) != 1:
            return None
        return elts[0], f"{loop.target.id}@{head}", self.resolve(loop.iter, [head])


class _Exec:
    """execute() in normal form, its CFG under *trace is present* and the values of its locals."""

    def __init__(self, repo: Repo):
        self.fn = _execute_normal_form(repo)
        self.scenario = _Scenario(repo, self.fn)
        self.tainted = {n for n, v in self.scenario.truth.items() if v}
        self.drivers = _driver_vars(self.fn, self.tainted)
        if not self.drivers:
            raise AnalysisError("execute(): no trace driver calls found")
        self.fold = self.scenario.fold
        self.g = CFG(self.fn, fold=self.fold, may_raise=_orch.full_may_raise(self.drivers, {"Payload"}))
        self.V = _Vals(self.g, self.fn, self.fold)


def _exec(repo: Repo) -> _Exec:
    x = repo.__dict__.get("_c06_exec")
    if x is None:
        x = repo.__dict__["_c06_exec"] = _Exec(repo)
    return x



def run(repo: Repo, R: Report) -> None:
    X = _exec(repo)
    fn, V = X.fn, X.V
    R.assume(
        "trace driver methods themselves do not raise (disk faults are outside the quantifier)",
        "asynchronous BaseException delivery between two bytecodes is not modelled: KeyboardInterrupt-class aborts are raised at call sites",
        "typing.cast/isinstance/bool/type/id and the Payload constructor do not raise",
        "for the per-node rule only node execution (_submit_and_wait / node.process), explicit raise statements and _publish are failure points; the orchestrator's own bookkeeping helpers are covered by C10's containment rules",
    )
    R.assume(
        "formatting a field plainly ({x}, {x!r}, str(x), repr(x)) and taking the truth value of an exception's own field do not raise (D1g) - the same assumption as for str(exc) of a user exception",
        "D1h follows the run state (payload data, context and its snapshots) from execute() through arguments, returned copies, lambdas / local functions handed to a hooks object and methods of locals bound to a constructor call; a rich comparison whose result is *returned* and only tested by the caller is not followed",
    )
    R.undecided("schema validity of free-form content (meta, summaries, error text)", "disk faults while writing")
    # (the probe / writer option mismatch for mappings with keys of mixed types was repaired in /repo d64f5eb and is
    # decided by C10-D1-sinks-accept-sanitised-values)
    drivers, fold = X.drivers, X.fold

    # ------------------------------------------------------------------ D1a pipeline bracket
    r_end = R.rule("C06-D1a-pipeline-bracket", "from the return of on_pipeline_start to every exit of execute (return, Exception-class raise, BaseException-class raise): exactly one on_pipeline_end, with status ok iff the exit is a return, followed by exactly one flush and one close", 6)
    g = X.g
    starts_nodes = [n for n in g.nodes if _orch.node_has_driver_call(n, drivers, "on_pipeline_start")]
    if len(starts_nodes) != 1:
        raise AnalysisError(f"execute(): expected one on_pipeline_start site, found {len(starts_nodes)}")
    sn = starts_nodes[0]
    after_start = [t for t, lab in g.succ[sn.id] if lab in ("n", "T", "F")]
    exits = {"return": g.ret_exit, "raise(Exception)": g.exc_exit, "raise(BaseException)": g.base_exit}
    for method in ("on_pipeline_end", "flush", "close"):
        cnt = g.counts(after_start, lambda n, m=method: _orch.node_has_driver_call(n, drivers, m), count_start=True)
        for label, ex in exits.items():
            got = cnt.get(ex)
            if got is None:
                if label == "return":
                    raise AnalysisError("execute(): normal return unreachable after on_pipeline_start")
                R.ok(r_end, ORCH, EXECUTE, f"{method} on exit {label}", "exit not reachable")
                continue
            ok = got == {1}
            path = None
            if not ok:
                # exhibit a path with the wrong count (0): avoid all nodes with the call
                blocked = {n.id for n in g.nodes if _orch.node_has_driver_call(n, drivers, method)}
                seen = g.reach(after_start, blocked=blocked)
                if ex in seen:
                    path = g.path_to(seen, ex)
            R.check(ok, r_end, ORCH, EXECUTE, f"{method} on exit {label}",
                    f"after pipeline_start, {method} is called {sorted(got)} time(s) on paths to {label}: the trace is left without pipeline_end / unflushed / unclosed" + (f" (e.g. via `{_last(path)}`)" if path else ""),
                    sn.line, path)
    # status literal vs exit kind, ordering end -> flush -> close
    end_nodes = [n for n in g.nodes if _orch.node_has_driver_call(n, drivers, "on_pipeline_end")]
    r_stat = R.rule("C06-D1a-end-status", "pipeline_end says ok exactly on the path that returns; error ends re-raise; end precedes flush precedes close", 2)
    for n in end_nodes:
        call = next(c for c in calls_in(n.ast) if _orch.is_driver_call(c, drivers, "on_pipeline_end"))
        status = _end_status(V, call)
        other_ends = {m.id for m in end_nodes if m.id != n.id}
        seen = g.reach([t for t, _l in g.succ[n.id]], blocked=other_ends)
        if status == "ok":
            bad = [ex for lab, ex in exits.items() if lab != "return" and ex in seen]
            R.check(not bad and g.ret_exit in seen, r_stat, ORCH, EXECUTE, norm(call), "pipeline_end(ok) is followed by an exceptional exit (or never returns)", n.line, g.path_to(seen, bad[0]) if bad else None)
        elif status == "error":
            R.check(g.ret_exit not in seen, r_stat, ORCH, EXECUTE, norm(call)[:100], "pipeline_end(error) can be followed by a normal return: the failure is swallowed", n.line, g.path_to(seen, g.ret_exit) if g.ret_exit in seen else None)
        else:
            R.violation(r_stat, ORCH, EXECUTE, norm(call)[:100], f"pipeline_end status is not a literal ok/error ({status!r})", n.line)
        # first argument is the run token of pipeline_start
    flush_nodes = [n for n in g.nodes if _orch.node_has_driver_call(n, drivers, "flush")]
    close_nodes = [n for n in g.nodes if _orch.node_has_driver_call(n, drivers, "close")]
    later = g.reach([t for c in close_nodes for t, _l in g.succ[c.id]])
    wrong = [n for n in flush_nodes + end_nodes if n.id in later]
    R.check(not wrong, r_stat, ORCH, EXECUTE, "order: on_pipeline_end < flush < close", "a record can be written / flushed after the driver was closed", close_nodes[0].line if close_nodes else 0)
    later_f = g.reach([t for c in flush_nodes for t, _l in g.succ[c.id]])
    wrong = [n for n in end_nodes if n.id in later_f]
    R.check(not wrong, r_stat, ORCH, EXECUTE, "order: on_pipeline_end < flush", "pipeline_end can be written after the final flush", flush_nodes[0].line if flush_nodes else 0)

    # ------------------------------------------------------------------ D1b per-node SER
    r_ser = R.rule("C06-D1b-ser-per-started-node", "from the statement that runs a node to the next iteration or any exit: exactly one on_node_event; `succeeded` on the fall-through path, `error` on exception paths (Exception and BaseException class), and the exception is re-raised unchanged", 4)

    node_runner = _execute_roles(repo)["node_runner"]

    def node_failure_points(part: ast.AST) -> Set[str]:
        for n in walk_no_nested(part):
            if isinstance(n, ast.Raise):
                return {EXC, BASE}
            if isinstance(n, ast.Call):
                a = call_attr(n)
                if a in (node_runner, "_publish", "process"):
                    return {EXC, BASE}
        return set()

    g2 = CFG(fn, fold=fold, may_raise=node_failure_points)
    submit = [n for n in g2.nodes if n.ast is not None and n.kind == "stmt" and any(call_attr(c) == node_runner for c in calls_in(n.ast))]
    if len(submit) != 1:
        raise AnalysisError(f"execute(): expected one node-running ({node_runner}) site, found {len(submit)}")
    sub = submit[0]
    loop = next((a for a in ancestors(sub.ast) if isinstance(a, ast.For)), None)
    if loop is None:
        raise AnalysisError("execute(): node execution is not inside a for loop")
    heads = g2.nodes_for(loop)
    event_nodes = [n for n in g2.nodes if _orch.node_has_driver_call(n, drivers, "on_node_event")]
    if not event_nodes:
        R.violation(r_ser, ORCH, EXECUTE, "on_node_event", "no SER is ever emitted", fn.lineno)

    ser_builder = _ser_builder_name(repo)

    def event_status(n) -> Optional[str]:
        # the record handed to on_node_event, whatever local carries it: its status as given to the SER constructor
        call = next(c for c in calls_in(n.ast) if _orch.is_driver_call(c, drivers, "on_node_event"))
        arg = call.args[0] if call.args else (call.keywords[0].value if call.keywords else None)
        if arg is None:
            return None
        found: Set[Optional[str]] = set()
        for alt in V.resolve(arg, [n.id]):
            rec = V.binding(alt)
            if not (isinstance(rec, ast.Call) and call_attr(rec) == ser_builder):
                return None
            s_ = kwarg(rec, "status")
            site = V.binding_site(alt) or [n.id]
            vals = V.resolve(s_, site) if s_ is not None else []
            found |= {v.value if isinstance(v, ast.Constant) else None for v in vals} or {None}
        return found.pop() if len(found) == 1 else None

    by_status: Dict[str, List] = {}
    for n in event_nodes:
        by_status.setdefault(str(event_status(n)), []).append(n)
    sinks = list(heads) + [g2.ret_exit, g2.exc_exit, g2.base_exit]
    saved = {h: g2.succ[h] for h in heads}
    for h in heads:
        g2.succ[h] = []
    try:
        for label, labs in (("fall-through", {"n"}), ("Exception", {EXC}), ("BaseException", {BASE})):
            starts = [t for t, lab in g2.succ[sub.id] if lab in labs]
            if not starts:
                R.violation(r_ser, ORCH, EXECUTE, f"node run -> {label}", "no such successor of the node-running statement", sub.line)
                continue
            want = "succeeded" if label == "fall-through" else "error"
            cnt_all = g2.counts(starts, lambda n: n in event_nodes, count_start=True)
            cnt_want = g2.counts(starts, lambda n: n in by_status.get(want, []), count_start=True)
            got_all: Set[int] = set()
            got_want: Set[int] = set()
            reached = []
            for s in sinks:
                if s in cnt_all:
                    got_all |= cnt_all[s]
                    reached.append(s)
                    # the status is pinned on paths that stay in the same regime: a fall-through
                    # path that later hits an explicit failure point legitimately ends with `error`
                    if label != "fall-through" or s in heads or s == g2.ret_exit:
                        got_want |= cnt_want.get(s, {0})
            if not got_want:
                got_want = {0}
            path = None
            if got_all != {1}:
                blocked = {n.id for n in event_nodes}
                seen = g2.reach(starts, blocked=blocked)
                hit = next((s for s in sinks if s in seen), None)
                path = g2.path_to(seen, hit) if hit is not None else None
            R.check(got_all == {1} and got_want == {1}, r_ser, ORCH, EXECUTE, f"node run -> {label}: one SER with status {want}",
                    f"on the {label} path after a node ran, on_node_event is called {sorted(got_all)} time(s) (with status {want}: {sorted(got_want)}): a started node is left without its SER, or with the wrong status", sub.line, path)
            if label != "fall-through":
                # must not continue the loop or return normally
                swallowed = [s for s in reached if s in heads or s == g2.ret_exit]
                R.check(not swallowed, r_ser, ORCH, EXECUTE, f"node run -> {label}: re-raised", "after a node failure the loop continues or execute returns normally: later nodes run / the exception is swallowed", sub.line)
    finally:
        for h, v in saved.items():
            g2.succ[h] = v
    # bare raise in every handler that encloses the node run or the loop
    r_rr = R.rule("C06-D1c-reraise-unchanged", "handlers around node execution end in a bare `raise` (no conversion, no return)", 2)
    handlers = []
    for a in ancestors(sub.ast):
        if isinstance(a, ast.Try) and any(x is sub.ast for st in a.body for x in ast.walk(st)):
            handlers.extend(a.handlers)
    for h in handlers:
        raises = [x for x in walk_no_nested(h) if isinstance(x, ast.Raise)]
        rets = [x for x in walk_no_nested(h) if isinstance(x, (ast.Return, ast.Continue, ast.Break))]
        # `raise` / `raise <the caught name>` hand the caller the object that was caught
        last_ok = bool(h.body) and isinstance(h.body[-1], ast.Raise) and _same_exception_raise(h.body[-1])
        R.check(last_ok and all(_same_exception_raise(r) for r in raises) and not rets, r_rr, ORCH, EXECUTE, norm(h),
                "the handler does not end in a bare `raise` (the caller sees a different exception, or none)", h.lineno)

    # ------------------------------------------------------------------ D1d/D1e the code that closes the bracket cannot itself fail
    _closing_code_rules(repo, R, fn, g, drivers)
    _exception_text_rules(repo, R)
    _closing_helpers_total_rule(repo, R)
    _closing_key_lookup_rule(repo, R)
    _propagation_rules(repo, R, X)

    # ------------------------------------------------------------------ D3 ids, order, edges
    r_ids = R.rule("C06-D3-ids-order-edges", "all records of a run carry the run/pipeline id given to pipeline_start; SER node ids follow canonical order; upstream lists are the canonical edges inverted", 6)
    start_call = next(c for c in calls_in(sn.ast) if _orch.is_driver_call(c, drivers, "on_pipeline_start"))
    start_args = _bind_driver_args(repo, "on_pipeline_start", start_call)
    at_start = [sn.id]

    def start_value(param: str) -> Set[str]:
        e = start_args.get(param)
        return V.keyset(V.resolve(e, at_start)) if e is not None else set()

    pid_vals, rid_vals, canon_vals = start_value("#0"), start_value("#1"), start_value("#2")
    if not (pid_vals and rid_vals and canon_vals):
        raise AnalysisError("execute(): on_pipeline_start is not given pipeline id, run id and canonical spec")

    def same(e: Optional[ast.AST], uses, want: Set[str]) -> bool:
        return e is not None and V.keyset(V.resolve(e, uses)) == want

    for n in end_nodes:
        call = next(c for c in calls_in(n.ast) if _orch.is_driver_call(c, drivers, "on_pipeline_end"))
        a0 = _bind_driver_args(repo, "on_pipeline_end", call).get("#0")
        R.check(same(a0, [n.id], rid_vals), r_ids, ORCH, EXECUTE, norm(call)[:80] + " [run id]", "pipeline_end carries a different run id than pipeline_start", n.line)
    ser_calls = [c for c in calls_in(fn) if call_attr(c) == ser_builder]
    if not ser_calls:
        raise AnalysisError("execute(): _make_ser_record call not found")

    # roles (not spellings): the canonical spec is what pipeline_start was given; a canonical uuid list holds
    # `<n>["node_uuid"] for <n> in <canonical>["nodes"]` in order (comprehension or append loop); the upstream map
    # is `compute_upstream_map(<canonical>)`; the position is the counter of the loop that runs the nodes
    def is_canonical_nodes(alts: List[ast.AST]) -> bool:
        cs: Set[str] = set()
        for it in V.unfold(alts):
            m2 = pat.match("_C_.get('nodes', _ANY_)", it) or pat.match("_C_.get('nodes')", it) or pat.match("_C_['nodes']", it)
            if m2 is None:
                return False
            cs.add(ast.dump(m2["_C_"]))
        return bool(cs) and cs == canon_vals

    def is_canonical_uuid_list(e: ast.AST) -> bool:
        lc = V.list_content(e)
        if lc is None:
            return False
        elt, var, it_alts = lc
        m = pat.match("_N_['node_uuid']", elt)
        return m is not None and isinstance(m["_N_"], ast.Name) and m["_N_"].id == var and is_canonical_nodes(it_alts)

    def is_loop_position(e: ast.AST) -> bool:
        if not (isinstance(e, ast.Name) and e.id in V.info):
            return False
        d, kind, it, path = V.info[e.id]
        if kind != "iter" or d.ast is not loop:
            return False
        return _is_position(it, tuple(path))

    def is_canonical_uuid_at_position(v: ast.AST) -> Optional[bool]:
        """True: the canonical uuid at the loop position; None: a constant (out-of-range fallback); False: anything else."""
        if isinstance(v, ast.Constant):
            return None
        if isinstance(v, ast.IfExp):
            arms = [is_canonical_uuid_at_position(v.body), is_canonical_uuid_at_position(v.orelse)]
            if False in arms or True not in arms:
                return False
            return True
        return isinstance(v, ast.Subscript) and is_loop_position(v.slice) and is_canonical_uuid_list(v.value)

    def is_upstream_map(e: ast.AST) -> bool:
        site = V.binding_site(e)
        call = V.binding(e)
        if not (isinstance(call, ast.Call) and call_attr(call) == "compute_upstream_map" and len(call.args) + len(call.keywords) == 1):
            return False
        arg = call.args[0] if call.args else call.keywords[0].value
        if site is None:
            return V.keyset([arg]) == canon_vals  # written in place: already resolved
        return same(arg, site, canon_vals)

    n_uuid_ok = n_up_ok = 0
    for c in ser_calls:
        at_c = V.uses(c)
        label = _status_label(V, c)
        R.check(same(kwarg(c, "run_id"), at_c, rid_vals) and same(kwarg(c, "pipeline_id"), at_c, pid_vals), r_ids, ORCH, EXECUTE,
                f"_make_ser_record(status={label}) ids", "SER identity does not use the run/pipeline ids of pipeline_start", c.lineno)
        nid = kwarg(c, "node_id")
        up = kwarg(c, "upstream_ids")
        nid_alts = V.resolve(nid, at_c) if nid is not None else []
        verdicts = [is_canonical_uuid_at_position(v) for v in nid_alts]
        ok_nid = bool(verdicts) and False not in verdicts and True in verdicts
        n_uuid_ok += ok_nid
        R.check(ok_nid, r_ids, ORCH, EXECUTE, f"node_id = <canonical uuid list>[<loop index>] ({label})", "SER node id is not the canonical uuid at the loop position", c.lineno)
        # upstream = <upstream map>.get(<node id>[, []])
        ok_up = False
        if up is not None and nid_alts:
            keys: Set[str] = set()
            ok_up = True
            for alt in V.unfold(V.resolve(up, at_c)):
                m = pat.match("_M_.get(_K_, _ANY_)", alt) or pat.match("_M_.get(_K_)", alt) or pat.match("_M_[_K_]", alt)
                if m is None or not is_upstream_map(m["_M_"]):
                    ok_up = False
                    break
                keys.add(ast.dump(m["_K_"]))
            ok_up = ok_up and keys == V.keyset(nid_alts)
        n_up_ok += ok_up
        R.check(ok_up, r_ids, ORCH, EXECUTE, f"upstream_ids = <upstream map>.get(<node id>) ({label})", "SER upstream list is not looked up from the canonical upstream map for this node", c.lineno)
    # the loop visits the instantiated nodes in list order
    it_alts = V.resolve(loop.iter, heads)
    ok_iter = bool(it_alts) and all(_visits_in_order(V, it, _execute_roles(repo)["instantiate"]) for it in it_alts)
    R.check(ok_iter, r_ids, ORCH, EXECUTE, norm(loop), "nodes are not visited in list order by enumerate()", loop.lineno)
    R.check(n_uuid_ok == len(ser_calls), r_ids, ORCH, EXECUTE, "node_uuids = [n['node_uuid'] for n in canonical nodes]", "node uuid list is not the canonical node list in order", fn.lineno)
    R.check(n_up_ok == len(ser_calls), r_ids, ORCH, EXECUTE, "upstream_map = compute_upstream_map(canonical)", "upstream map is not computed from the canonical spec", fn.lineno)
    _upstream_map_rule(repo, R, r_ids)
    _instantiation_order_rule(repo, R, r_ids)

    # ------------------------------------------------------------------ D2 writer / schema agreement
    _schema_rules(repo, R, X)
    _ser_null_rule(repo, R)

    # ------------------------------------------------------------------ D4 one line per record
    _line_rules(repo, R)


def _end_status(V: "_Vals", call: ast.Call) -> Optional[str]:
    """Literal status of an on_pipeline_end(run, {"status": ...}) call; the summary may be a named local and the
    status a named constant."""
    uses = V.uses(call)
    found: Set[Optional[str]] = set()
    for a in list(call.args) + [k.value for k in call.keywords]:
        for alt in V.resolve(a, uses):
            d = V.binding(alt)
            if not isinstance(d, ast.Dict):
                continue
            site = V.binding_site(alt) or uses
            for k, v in zip(d.keys, d.values):
                if isinstance(k, ast.Constant) and k.value == "status":
                    vals = V.resolve(v, site)
                    found |= {x.value if isinstance(x, ast.Constant) else None for x in vals}
    return found.pop() if len(found) == 1 else None


def _bind_driver_args(repo: Repo, method: str, call: ast.Call) -> Dict[str, ast.AST]:
    """Arguments of a driver call by the parameter names of the JSONL driver's method (positional or keyword)."""
    callee = repo.func(JSONL, f"JsonlTraceDriver.{method}")
    pos = [x.arg for x in callee.args.posonlyargs + callee.args.args][1:]
    out: Dict[str, ast.AST] = {}
    for p_, a in zip(pos, call.args):
        if isinstance(a, ast.Starred):
            break
        out[p_] = a
    for k in call.keywords:
        if k.arg is not None:
            out[k.arg] = k.value
    for i, p_ in enumerate(pos):  # also by position: "#0" is the first parameter after self
        if p_ in out:
            out[f"#{i}"] = out[p_]
    return out


def _is_position(it: ast.AST, path: Tuple[int, ...]) -> bool:
    """The element at *path* of what iterating *it* yields is the 0-based position of the iteration:
    ``enumerate(..)[0]``, ``range(len(..))``, ``itertools.count()``, or such a component of a ``zip``."""
    if not isinstance(it, ast.Call):
        return False
    name = (call_name(it) or "").split(".")[-1]
    if name == "enumerate" and it.args:
        start = it.args[1] if len(it.args) > 1 else kwarg(it, "start")
        return path == (0,) and (start is None or (isinstance(start, ast.Constant) and start.value == 0))
    if name == "range":
        return path == () and (pat.match("range(len(_ANY_))", it) is not None or pat.match("range(0, len(_ANY_))", it) is not None)
    if name == "count":
        return path == () and not it.keywords and (not it.args or (len(it.args) == 1 and isinstance(it.args[0], ast.Constant) and it.args[0].value == 0))
    if name == "zip" and path and not it.keywords and path[0] < len(it.args) and not any(isinstance(a, ast.Starred) for a in it.args):
        return _is_position(it.args[path[0]], path[1:])
    return False


def _visits_in_order(V: "_Vals", it: ast.AST, instantiate: str = "_instantiate_nodes") -> bool:
    """``enumerate(<nodes>)`` / ``range(len(<nodes>))`` / ``zip(<positions>, <nodes>, ..)`` over what
    _instantiate_nodes returned, in list order."""

    def instantiated(e: ast.AST) -> bool:
        if isinstance(e, ast.Call) and call_name(e) in ("list", "tuple") and len(e.args) == 1 and not e.keywords:
            return instantiated(e.args[0])
        if isinstance(e, ast.Call) and call_name(e) == "zip" and e.args and not e.keywords:
            parts = [a for a in e.args if not _is_position(a, ())]
            return bool(parts) and all(instantiated(a) for a in parts) and all(positions_of_instantiated(a) for a in e.args if _is_position(a, ()))
        if isinstance(e, ast.Name) and e.id in V.info:
            _d, kind, v, _p = V.info[e.id]
            return kind in ("elem", "value") and isinstance(v, ast.Call) and call_attr(v) == instantiate
        return False

    def positions_of_instantiated(a: ast.AST) -> bool:
        m_ = pat.match("range(len(_S_))", a) or pat.match("range(0, len(_S_))", a)
        return m_ is None or instantiated(m_["_S_"])  # count() is unbounded; range(len(x)) must not cut the traversal short

    m = pat.match("enumerate(_S_)", it) or pat.match("enumerate(_S_, 0)", it) or pat.match("enumerate(_S_, start=0)", it) or pat.match("range(len(_S_))", it)
    if m is None:
        return instantiated(it) if isinstance(it, ast.Call) and call_name(it) == "zip" else False
    return instantiated(m["_S_"])


_EDGE = "__edge__"


def _edge_traversal(loop: ast.For, is_edges, named=None) -> Optional[Dict[str, ast.AST]]:
    """When *loop* visits every edge of the canonical spec once, in order: what its targets stand for, as expressions
    over the placeholder ``__edge__`` ({"<dump of an expression of the body>" or "name:<n>": expression}).
    ``for e in E`` / ``for i, e in enumerate(E)`` / ``for i in range(len(E))`` (the edge is ``E[i]``) /
    ``for a, b in ((f(e), g(e)) for e in E)`` or the same as a list comprehension."""
    edge = ast.Name(id=_EDGE, ctx=ast.Load())
    it, tgt = loop.iter, loop.target
    if isinstance(it, ast.Name) and named is not None:
        it = named(it.id) or it  # a comprehension / generator that was given a name and is consumed only here
    while isinstance(it, ast.Call) and call_name(it) in ("list", "tuple", "iter") and len(it.args) == 1 and not it.keywords:
        it = it.args[0]
    if is_edges(it):
        return {f"name:{tgt.id}": edge} if isinstance(tgt, ast.Name) else None
    if isinstance(it, ast.Call) and call_name(it) == "enumerate" and it.args and is_edges(it.args[0]):
        start = it.args[1] if len(it.args) > 1 else kwarg(it, "start")
        if isinstance(tgt, ast.Tuple) and len(tgt.elts) == 2 and all(isinstance(x, ast.Name) for x in tgt.elts):
            env: Dict[str, ast.AST] = {f"name:{tgt.elts[1].id}": edge}
            if start is None or (isinstance(start, ast.Constant) and start.value == 0):
                env[ast.dump(ast.Subscript(value=it.args[0], slice=ast.Name(id=tgt.elts[0].id, ctx=ast.Load()), ctx=ast.Load()))] = edge
            return env
        return None
    m = pat.match("range(len(_S_))", it) or pat.match("range(0, len(_S_))", it) or pat.match("range(0, len(_S_), 1)", it)
    if m is not None and is_edges(m["_S_"]) and isinstance(tgt, ast.Name):
        return {ast.dump(ast.Subscript(value=m["_S_"], slice=ast.Name(id=tgt.id, ctx=ast.Load()), ctx=ast.Load())): edge}
    if isinstance(it, (ast.GeneratorExp, ast.ListComp)) and len(it.generators) == 1:
        gen = it.generators[0]
        if gen.ifs or gen.is_async or not isinstance(gen.target, ast.Name) or not is_edges(gen.iter):
            return None
        inner = _SubstNames({gen.target.id: edge})
        if isinstance(tgt, ast.Name):
            return {f"name:{tgt.id}": inner.visit(clone(it.elt))}
        if isinstance(tgt, ast.Tuple) and isinstance(it.elt, ast.Tuple) and len(tgt.elts) == len(it.elt.elts) and all(isinstance(x, ast.Name) for x in tgt.elts):
            return {f"name:{x.id}": inner.visit(clone(v)) for x, v in zip(tgt.elts, it.elt.elts)}
    return None


class _SubstEdge(ast.NodeTransformer):
    def __init__(self, env: Dict[str, ast.AST]):
        self.env = env

    def visit(self, node):
        if isinstance(node, ast.expr):
            key = ast.dump(node)
            if key in self.env:
                return clone(self.env[key])
            if isinstance(node, ast.Name) and isinstance(node.ctx, ast.Load) and f"name:{node.id}" in self.env:
                return clone(self.env[f"name:{node.id}"])
        return self.generic_visit(node)


def _upstream_map_rule(repo: Repo, R: Report, r_ids) -> None:
    """compute_upstream_map inverts every canonical edge: the loop that visits the edges of ``<spec>["edges"]`` (by
    element, by index, enumerated, or as (source, target) pairs) appends, once per edge and unconditionally,
    ``<edge>.source`` to the list kept under ``<edge>.target`` in the map that is returned."""
    cum = repo.func(GRAPH, "compute_upstream_map")
    nf = nfunc(repo, GRAPH, "compute_upstream_map", copyprop="all")
    spec = nf.args.args[0].arg if nf.args.args else None
    returned = {r.value.id for r in walk_no_nested(nf) if isinstance(r, ast.Return) and isinstance(r.value, ast.Name)}

    def is_edges(e: ast.AST, depth: int = 0) -> bool:
        m_it = pat.match("_S_.get('edges', _ANY_)", e) or pat.match("_S_.get('edges')", e) or pat.match("_S_['edges']", e)
        if m_it is not None:
            return dotted_name(m_it["_S_"]) == spec
        if isinstance(e, ast.Name) and depth < 3:  # a local the normaliser did not substitute (read more than once)
            vals = assigned_value(nf, e.id)
            return len(vals) == 1 and is_edges(vals[0], depth + 1)
        return False

    def named(name: str) -> Optional[ast.AST]:
        vals = assigned_value(nf, name)
        loads = [x for x in ast.walk(nf) if isinstance(x, ast.Name) and x.id == name and isinstance(x.ctx, ast.Load)]
        stores = [x for x in ast.walk(nf) if isinstance(x, ast.Name) and x.id == name and not isinstance(x.ctx, ast.Load)]
        if len(vals) == 1 and len(loads) == 1 and len(stores) == 1 and isinstance(vals[0], (ast.GeneratorExp, ast.ListComp)):
            return vals[0]
        return None

    T, S_ = f"{_EDGE}['target']", f"{_EDGE}['source']"
    appends = [f"_M_.setdefault({T}, []).append({S_})", f"_M_.setdefault({T}, list()).append({S_})", f"_M_[{T}].append({S_})"]
    rebuilds = [f"_M_[{T}] = _M_.get({T}, []) + [{S_}]", f"_M_[{T}] = [*_M_.get({T}, []), {S_}]", f"_M_[{T}] += [{S_}]"]
    ok = False
    n_loops = 0
    for n in walk_no_nested(nf):
        if not (isinstance(n, ast.For) and not n.orelse):
            continue
        env = _edge_traversal(n, is_edges, named)
        if env is None:
            continue
        n_loops += 1
        if any(isinstance(x, (ast.Continue, ast.Break, ast.Return, ast.Raise)) for st in n.body for x in walk_no_nested(st)):
            continue
        env = dict(env)
        hits: List[str] = []
        fine = True
        for st in n.body:
            if isinstance(st, ast.Pass):
                continue
            # a name given to a part of the edge
            if isinstance(st, (ast.Assign, ast.AnnAssign)) and st.value is not None:
                tgts = st.targets if isinstance(st, ast.Assign) else [st.target]
                if len(tgts) == 1 and isinstance(tgts[0], ast.Name):
                    env[f"name:{tgts[0].id}"] = _SubstEdge(env).visit(clone(st.value))
                    continue
                if len(tgts) == 1 and isinstance(tgts[0], ast.Tuple) and isinstance(st.value, ast.Tuple) and len(tgts[0].elts) == len(st.value.elts) and all(isinstance(x, ast.Name) for x in tgts[0].elts):
                    vals = [_SubstEdge(env).visit(clone(v)) for v in st.value.elts]
                    for x, v in zip(tgts[0].elts, vals):
                        env[f"name:{x.id}"] = v
                    continue
            st2 = _SubstEdge(env).visit(clone(st))
            hit = None
            if isinstance(st2, ast.Expr):
                for p_ in appends:
                    hit = hit or pat.match(p_, st2.value)
            else:
                for p_ in rebuilds:
                    hit = hit or pat.match(p_, st2)
            if hit is not None and dotted_name(hit["_M_"]) is not None:
                hits.append(dotted_name(hit["_M_"]))
                continue
            # `if <target> not in <map>: <map>[<target>] = []`: makes room, adds no edge and drops none
            m_g = pat.match(f"if {T} not in _M_:\n    _M_[{T}] = []", st2) or pat.match(f"if {T} not in _M_:\n    _M_[{T}] = list()", st2)
            if m_g is not None:
                continue
            # anything else must leave the returned map alone
            if any(isinstance(x, ast.Name) and x.id in returned for x in ast.walk(st2)):
                fine = False
        ok = ok or (fine and len(hits) == 1 and hits[0] in returned)
    R.check(ok, r_ids, GRAPH, "compute_upstream_map", "for edge in edges: mapping[edge.target].append(edge.source)", "upstream map does not invert every canonical edge (source -> target) unfiltered", cum.lineno)


def _instantiation_order_rule(repo: Repo, R: Report, r_ids) -> None:
    from ..engine import returned_values
    irel, iqn, _idef = _helper_of_execute(repo, _execute_roles(repo)["instantiate"])
    inst = nfunc(repo, irel, iqn, copyprop="all")
    loops = [n for n in walk_no_nested(inst) if isinstance(n, ast.For)]
    returned_lists = {x.id for rv in returned_values(inst) for x in (rv.elts if isinstance(rv, ast.Tuple) else [rv]) if isinstance(x, ast.Name)}
    spec = _spec_param_of(inst)

    def over_spec(it: ast.AST) -> bool:
        if isinstance(it, ast.Call) and call_name(it) in ("enumerate", "list", "tuple", "iter") and it.args:
            return over_spec(it.args[0])
        if isinstance(it, ast.Name) and it.id != spec:
            vals = assigned_value(inst, it.id)
            return len(vals) == 1 and over_spec(vals[0])
        return isinstance(it, ast.Name) and it.id == spec

    def in_spec_order(loop: ast.For) -> bool:
        if over_spec(loop.iter):
            return True
        # index traversal: for i in range(len(<spec>)) reading <spec>[i]
        m = pat.match("range(len(_S_))", loop.iter) or pat.match("range(0, len(_S_))", loop.iter)
        if m is None or not over_spec(m["_S_"]) or not isinstance(loop.target, ast.Name):
            return False
        i = loop.target.id
        reads = [x for st in loop.body for x in ast.walk(st) if isinstance(x, ast.Subscript) and isinstance(x.slice, ast.Name) and x.slice.id == i and over_spec(x.value)]
        others = [x for st in loop.body for x in ast.walk(st) if isinstance(x, ast.Subscript) and over_spec(x.value) and x not in reads]
        return bool(reads) and not others

    ok = len(loops) == 1 and in_spec_order(loops[0]) and any(call_attr(c) == "append" and isinstance(c.func, ast.Attribute) and dotted_name(c.func.value) in returned_lists for c in calls_in(loops[0]))
    R.check(ok, r_ids, irel, iqn, norm(loops[0]) if loops else "for node_def in pipeline_spec", "nodes are not instantiated by appending in spec order", inst.lineno)



# ---------------------------------------------------------------------------
# D1f: a failure travels from its origin to the caller of execute as the same exception object
# ---------------------------------------------------------------------------

EXECUTOR = "semantiva/execution/executor/executor.py"
# calls that cannot be the origin of a run failure (bookkeeping on fresh local containers / total builtins)
NOT_AN_ORIGIN = {"append", "extend", "dict", "list", "tuple", "len", "enumerate", "range", "zip", "isinstance", "cast", "get", "debug", "info", "warning", "type", "id", "bool"}


def _same_exception_raise(st: ast.Raise) -> bool:
    """``raise`` / ``raise <name bound by the enclosing handler>`` / ``raise <that name>.with_traceback(..)``:
    the caller receives the object that was caught."""
    if st.exc is None:
        return True
    e = st.exc
    if isinstance(e, ast.Call) and isinstance(e.func, ast.Attribute) and e.func.attr == "with_traceback":
        e = e.func.value
    if not isinstance(e, ast.Name):
        return False
    for a in ancestors(st):
        if isinstance(a, FuncNode):
            break
        if isinstance(a, ast.ExceptHandler) and a.name == e.id:
            # the name still holds the caught exception: not rebound inside the handler
            rebound = any(isinstance(x, ast.Name) and x.id == e.id and isinstance(x.ctx, ast.Store) for x in walk_no_nested(a))
            return not rebound
    return False


def _propagation_in(R: Report, r, rel: str, qn: str, fn: ast.AST, is_origin, what: str, fold=None, repo: Optional[Repo] = None, _seen: Optional[Set[str]] = None) -> int:
    """On the CFG of *fn* where only origin calls and raise statements fail: every path that starts on an
    exception edge of an origin call ends in an exceptional exit of *fn* and passes no raise statement that
    raises a different object.  An origin call that is a helper of the same module which the normaliser left as
    a call (`self._x(..)` / `_x(..)`) is followed: the failure passes through its handlers as well."""
    n_extra = 0
    if repo is not None:
        _seen = _seen if _seen is not None else {qn}
        mod = repo.module(rel)
        for c in calls_in(fn):
            if not is_origin(c):
                continue
            f = c.func
            local = isinstance(f, ast.Name) or (isinstance(f, ast.Attribute) and isinstance(f.value, ast.Name) and f.value.id in ("self", "cls"))
            name = call_attr(c)
            if not local or not name:
                continue
            for q2, d in mod.defs.items():
                if isinstance(d, FuncNode) and q2.split(".")[-1] == name and q2 not in _seen and not _is_abstract(d) and len(_seen) < 12:
                    if isinstance(f, ast.Name) and "." in q2:
                        continue
                    _seen.add(q2)
                    n_extra += _propagation_in(R, r, rel, q2, nfunc(repo, rel, q2), lambda c2: call_attr(c2) not in NOT_AN_ORIGIN, what + f" (through {name})", repo=repo, _seen=_seen)

    def mr(part: ast.AST) -> Set[str]:
        for n in walk_no_nested(part):
            if isinstance(n, ast.Raise) or (isinstance(n, ast.Call) and is_origin(n)):
                return {EXC, BASE}
        return set()

    g = CFG(fn, fold=fold, may_raise=mr)
    n_inst = 0
    seen_ast: Set[int] = set()
    for n in g.nodes:
        if n.ast is None or n.kind == "except" or isinstance(n.ast, FuncNode + (ast.ClassDef, ast.Raise)):
            continue
        part = n.part if n.part is not None else n.ast
        origin_calls = [c for c in calls_in(part) if is_origin(c)] if n.kind != "stmt" else [c for c in calls_in(n.ast) if is_origin(c)]
        if not origin_calls or id(n.ast) in seen_ast:
            continue
        seen_ast.add(id(n.ast))
        ids = g.nodes_for(n.ast)
        starts = [t for i in ids for t, lab in g.succ[i] if lab in (EXC, BASE)]
        label = f"{what}: `{norm(origin_calls[0])[:60]}` fails"
        n_inst += 1
        if not starts:
            raise AnalysisError(f"{qn}: no exception edge out of `{norm(n.ast)[:60]}`")
        seen = g.reach(starts)
        for s_ in starts:
            seen.setdefault(s_, None)
        bad = None
        for m in g.nodes:
            if m.id in seen and m.kind == "stmt" and isinstance(m.ast, ast.Raise) and not _same_exception_raise(m.ast):
                bad = m
                break
        if bad is not None:
            R.violation(r, rel, qn, norm(bad.ast)[:110],
                        f"{label}: the exception is caught on its way out and `{norm(bad.ast)[:70]}` raises a different object instead (the original is at best its __cause__): the caller of execute does not receive the original exception, and pipeline_end reports the rewritten text", bad.ast.lineno, g.path_to(seen, bad.id))
        elif g.ret_exit in seen:
            R.violation(r, rel, qn, norm(n.ast)[:110], f"{label}: a handler swallows the exception (the function can still return normally): the failure does not reach the caller of execute", n.line, g.path_to(seen, g.ret_exit))
        else:
            R.ok(r, rel, qn, label, "reaches the exceptional exit unchanged")
    return n_inst + n_extra


def _propagation_rules(repo: Repo, R: Report, X: "_Exec") -> None:
    r = R.rule("C06-D1f-failure-propagates-unchanged", "on the way from a failure origin inside the quantifier (node construction in _instantiate_nodes, node execution through _submit_and_wait / executor.submit / the node callable) to the caller of execute, no handler replaces the exception (`raise Other(...) [from exc]`) or swallows it: every handler that can see it ends in a bare `raise` / `raise <caught name>`",4)
    omod = repo.module(ORCH)
    total = 0
    # execute itself: the construction call and the node run
    fn = X.fn
    total += _propagation_in(R, r, ORCH, EXECUTE, fn, lambda c: call_attr(c) in (_execute_roles(repo)["instantiate"], _execute_roles(repo)["node_runner"]), "execute", fold=X.fold)
    # the callable handed to _submit_and_wait, when it is a local function of execute
    for c in calls_in(fn):
        if call_attr(c) == _execute_roles(repo)["node_runner"]:
            for a in list(c.args) + [k.value for k in c.keywords]:
                if isinstance(a, ast.Name):
                    for d in ast.walk(fn):
                        if isinstance(d, FuncNode) and d.name == a.id and d is not fn:
                            total += _propagation_in(R, r, ORCH, EXECUTE + "." + d.name, d, lambda c2: call_attr(c2) not in NOT_AN_ORIGIN, "node callable")
    # construction
    irel, iqn, _idef = _helper_of_execute(repo, _execute_roles(repo)["instantiate"])
    inst = nfunc(repo, irel, iqn)
    total += _propagation_in(R, r, irel, iqn, inst, lambda c: call_attr(c) not in NOT_AN_ORIGIN, "node construction", repo=repo)
    # every concrete _submit_and_wait, and every concrete executor submit (the node callable is its first parameter)
    base = repo.cls(ORCH, "SemantivaOrchestrator")
    for mod, cls in [(omod, base)] + repo.subclasses(base):
        for st in cls.body:
            if isinstance(st, FuncNode) and st.name == _execute_roles(repo)["node_runner"] and not _is_abstract(st):
                qn = qualname_of(st)
                nf = nfunc(repo, mod.rel, qn)
                total += _propagation_in(R, r, mod.rel, qn, nf, lambda c: call_attr(c) not in NOT_AN_ORIGIN, "node execution", repo=repo)
    ebase = repo.cls(EXECUTOR, "SemantivaExecutor")
    for mod, cls in repo.subclasses(ebase):
        for st in cls.body:
            if isinstance(st, FuncNode) and st.name == "submit" and not _is_abstract(st):
                qn = qualname_of(st)
                nf = nfunc(repo, mod.rel, qn)
                pos = [a.arg for a in nf.args.posonlyargs + nf.args.args]
                callee = pos[1] if len(pos) > 1 else None
                total += _propagation_in(R, r, mod.rel, qn, nf, lambda c, callee=callee: isinstance(c.func, ast.Name) and c.func.id == callee, "executor runs the node callable")
    if total < 3:
        raise AnalysisError("failure path from node construction / node execution to the caller of execute was not recognised")


def _is_abstract(fn: ast.AST) -> bool:
    return any((dotted_name(d) or "").split(".")[-1] == "abstractmethod" for d in getattr(fn, "decorator_list", []))


# ---------------------------------------------------------------------------
# D1d / D1e: handlers and finally blocks that write the closing records
# ---------------------------------------------------------------------------

STRINGIFIERS = {"str", "repr", "format", "ascii", "safe_repr", "len", "bool", "int", "float", "isinstance", "issubclass", "hasattr", "callable", "id", "hash",
                "format_exc", "format_exception", "format_exception_only", "format_tb", "sha256_bytes", "hexdigest"}
SAFE_DUNDERS = {"__name__", "__qualname__", "__module__", "__doc__"}


def _comp_targets(e: ast.AST) -> Set[str]:
    return {x.id for g_ in getattr(e, "generators", []) for x in ast.walk(g_.target) if isinstance(x, ast.Name)}


class _Payload:
    """Does the value of an expression still carry an exception object or a part of it (``exc``, ``exc.args[0]``,
    ``type(exc)`` ...) that has not been turned into text?  Such a value is arbitrary (whatever the failing
    processor put into the exception) and is not JSON-serialisable in general."""

    def __init__(self, repo: Repo):
        self.repo = repo

    def closure(self, region: ast.AST, seed: Set[str]) -> Set[str]:
        tainted = set(seed)
        changed = True
        while changed:
            changed = False
            for n in walk_no_nested(region):
                new: Set[str] = set()
                if isinstance(n, (ast.Assign, ast.AnnAssign, ast.AugAssign)) and n.value is not None and self.raw(n.value, tainted, region):
                    tgts = n.targets if isinstance(n, ast.Assign) else [n.target]
                    for t in tgts:
                        base = t
                        while isinstance(base, (ast.Subscript, ast.Attribute)):
                            base = base.value
                        for x in ast.walk(base if not isinstance(t, (ast.Tuple, ast.List)) else t):
                            if isinstance(x, ast.Name):
                                new.add(x.id)
                elif isinstance(n, ast.Call) and isinstance(n.func, ast.Attribute) and n.func.attr in ("append", "extend", "add", "update", "setdefault", "insert", "__setitem__"):
                    if any(self.raw(a, tainted, region) for a in list(n.args) + [k.value for k in n.keywords]):
                        base = n.func.value
                        while isinstance(base, (ast.Subscript, ast.Attribute)):
                            base = base.value
                        if isinstance(base, ast.Name) and base.id != "self":
                            new.add(base.id)
                elif isinstance(n, ast.NamedExpr) and self.raw(n.value, tainted, region):
                    new.add(n.target.id)
                if not new <= tainted:
                    tainted |= new
                    changed = True
        return tainted

    def raw(self, e: Optional[ast.AST], tainted: Set[str], ctx: ast.AST, depth: int = 0) -> bool:
        if e is None or isinstance(e, (ast.Constant, ast.JoinedStr, ast.Compare, ast.Lambda)):
            return False
        if isinstance(e, ast.Name):
            return e.id in tainted
        if isinstance(e, ast.Attribute):
            if e.attr in SAFE_DUNDERS:
                return False
            return self.raw(e.value, tainted, ctx, depth)
        if isinstance(e, (ast.Subscript, ast.Starred)):
            return self.raw(e.value, tainted, ctx, depth)
        if isinstance(e, ast.UnaryOp):
            return False if isinstance(e.op, ast.Not) else self.raw(e.operand, tainted, ctx, depth)
        if isinstance(e, ast.NamedExpr):
            return self.raw(e.value, tainted, ctx, depth)
        if isinstance(e, ast.IfExp):
            return self.raw(e.body, tainted, ctx, depth) or self.raw(e.orelse, tainted, ctx, depth)
        if isinstance(e, ast.BoolOp):
            return any(self.raw(v, tainted, ctx, depth) for v in e.values)
        if isinstance(e, ast.BinOp):
            if isinstance(e.op, ast.Mod) and isinstance(e.left, (ast.Constant, ast.JoinedStr)):
                return False  # "text %s" % exc
            return self.raw(e.left, tainted, ctx, depth) or self.raw(e.right, tainted, ctx, depth)
        if isinstance(e, ast.Dict):
            return any(self.raw(v, tainted, ctx, depth) for v in list(e.values) + [k for k in e.keys if k is not None])
        if isinstance(e, (ast.List, ast.Tuple, ast.Set)):
            return any(self.raw(v, tainted, ctx, depth) for v in e.elts)
        if isinstance(e, (ast.ListComp, ast.SetComp, ast.GeneratorExp, ast.DictComp)):
            inner = set(tainted) - _comp_targets(e)
            for g_ in e.generators:
                if self.raw(g_.iter, inner, ctx, depth):
                    inner |= {x.id for x in ast.walk(g_.target) if isinstance(x, ast.Name)}
            parts = [e.key, e.value] if isinstance(e, ast.DictComp) else [e.elt]
            return any(self.raw(p_, inner, ctx, depth) for p_ in parts)
        if isinstance(e, ast.Call):
            a = call_attr(e)
            if a in STRINGIFIERS:
                return False
            args = list(e.args) + [k.value for k in e.keywords]
            recv_raw = isinstance(e.func, ast.Attribute) and self.raw(e.func.value, tainted, ctx, depth)
            if not recv_raw and not any(self.raw(x, tainted, ctx, depth) for x in args):
                return False
            if recv_raw:
                return True  # a method of the exception / of a part of it: still its payload
            # a function is handed the payload: look at what it returns
            try:
                mod = self.repo.module_of(ctx)
                targets = self.repo.resolve_call(mod, e)
            except Exception:
                targets = []
            targets = [t for t in targets if isinstance(t[1], ast.FunctionDef)]
            if not targets or depth >= 2:
                return True
            for _m, callee in targets:
                binding = _bind_params(callee, e)
                if binding is None:
                    return True
                seed = {p_ for p_, v in binding.items() if self.raw(v, tainted, ctx, depth)}
                inner = self.closure(callee, seed)
                for r in walk_no_nested(callee):
                    if isinstance(r, ast.Return) and self.raw(r.value, inner, callee, depth + 1):
                        return True
            return False
        return False

    def leaf(self, e: ast.AST, tainted: Set[str], ctx: ast.AST) -> ast.AST:
        """The innermost sub-expression that is still raw (for the message)."""
        for sub in ast.iter_child_nodes(e):
            if isinstance(sub, ast.expr) and not isinstance(e, ast.Call) and self.raw(sub, tainted, ctx) and not isinstance(sub, ast.Name):
                return self.leaf(sub, tainted, ctx)
        if isinstance(e, ast.Dict):
            for k, v in zip(e.keys, e.values):
                if self.raw(v, tainted, ctx):
                    return self.leaf(v, tainted, ctx)
        return e


def _local_names(fn: ast.AST) -> Set[str]:
    out = _param_names(fn)
    for n in walk_no_nested(fn):
        if isinstance(n, ast.Name) and isinstance(n.ctx, (ast.Store, ast.Del)):
            out.add(n.id)
        elif isinstance(n, ast.ExceptHandler) and n.name:
            out.add(n.name)
        elif isinstance(n, (ast.Import, ast.ImportFrom)):
            out.update((al.asname or al.name).split(".")[0] for al in n.names)
        elif isinstance(n, FuncNode + (ast.ClassDef,)) and n is not fn:
            out.add(n.name)
    # names bound only inside comprehensions are not function locals
    comp_only: Set[str] = set()
    for n in walk_no_nested(fn):
        if isinstance(n, (ast.ListComp, ast.SetComp, ast.GeneratorExp, ast.DictComp)):
            comp_only |= _comp_targets(n)
    plain: Set[str] = set(_param_names(fn))
    for n in walk_no_nested(fn):
        if isinstance(n, ast.Name) and isinstance(n.ctx, ast.Store) and not any(isinstance(a, ast.comprehension) for a in _up_to(n, fn)):
            plain.add(n.id)
    return {x for x in out if x not in comp_only or x in plain}


def _up_to(n: ast.AST, root: ast.AST):
    for a in ancestors(n):
        if a is root:
            return
        yield a


def _loads(part: ast.AST) -> List[ast.Name]:
    """Name loads evaluated when *part* is evaluated (not inside nested defs/lambdas; comprehension variables excluded)."""
    out: List[ast.Name] = []

    def rec(n: ast.AST, hidden: frozenset) -> None:
        if isinstance(n, FuncNode + (ast.Lambda, ast.ClassDef)):
            return
        if isinstance(n, (ast.ListComp, ast.SetComp, ast.GeneratorExp, ast.DictComp)):
            hidden = hidden | frozenset(_comp_targets(n))
        if isinstance(n, ast.Name) and isinstance(n.ctx, ast.Load) and n.id not in hidden:
            out.append(n)
        if isinstance(n, ast.AugAssign) and isinstance(n.target, ast.Name):
            out.append(n.target)
        for c in ast.iter_child_nodes(n):
            rec(c, hidden)

    rec(part, frozenset())
    return out


def _node_defs(n) -> Tuple[Set[str], Set[str]]:
    """(names bound, names unbound) when CFG node *n* completes normally."""
    a = n.ast
    defs: Set[str] = set()
    kills: Set[str] = set()
    if a is None:
        return defs, kills
    if n.kind == "stmt":
        if isinstance(a, FuncNode + (ast.ClassDef,)):
            defs.add(a.name)
            return defs, kills
        for x in walk_no_nested(a):
            if isinstance(x, ast.Name) and isinstance(x.ctx, ast.Store) and not any(isinstance(p_, ast.comprehension) for p_ in _up_to(x, a)):
                defs.add(x.id)
            elif isinstance(x, ast.Name) and isinstance(x.ctx, ast.Del):
                kills.add(x.id)
            elif isinstance(x, (ast.Import, ast.ImportFrom)):
                defs.update((al.asname or al.name).split(".")[0] for al in x.names)
    elif n.kind == "for":
        defs |= {x.id for x in ast.walk(a.target) if isinstance(x, ast.Name)}
    elif n.kind == "with":
        for it in a.items:
            if it.optional_vars is not None:
                defs |= {x.id for x in ast.walk(it.optional_vars) if isinstance(x, ast.Name)}
    elif n.kind == "except":
        if a.name:
            defs.add(a.name)
    if n.kind in ("if", "while") and n.part is not None:
        defs |= {x.target.id for x in walk_no_nested(n.part) if isinstance(x, ast.NamedExpr)}
    return defs, kills


def _definitely_bound(g: CFG, fn: ast.AST) -> Dict[int, Optional[Set[str]]]:
    """Forward must-analysis on the CFG: the locals bound on *every* path from the entry to each node.
    An exception edge leaves its source before the statement has bound anything."""
    state: Dict[int, Optional[Set[str]]] = {n.id: None for n in g.nodes}
    state[g.entry] = set(_param_names(fn))
    todo = [g.entry]
    while todo:
        nid = todo.pop()
        cur = state[nid]
        assert cur is not None
        defs, kills = _node_defs(g.nodes[nid])
        for t, lab in g.succ[nid]:
            if lab in (EXC, BASE):
                out = set(cur)
            elif g.nodes[nid].kind == "for" and lab == "F":
                out = set(cur)
            else:
                out = (set(cur) | defs) - kills
            old = state[t]
            new = out if old is None else (old & out)
            if old is None or new != old:
                state[t] = new
                todo.append(t)
    return state


def _closing_code_rules(repo: Repo, R: Report, fn: ast.AST, g: CFG, drivers: Set[str]) -> None:
    # regions: every except handler / finally block of execute that talks to the trace driver
    regions: List[Tuple[str, ast.AST, List[ast.stmt]]] = []
    for t in walk_no_nested(fn):
        if isinstance(t, ast.Try):
            for h in t.handlers:
                if any(_orch.is_driver_call(c, drivers) for st in h.body for c in calls_in(st)):
                    regions.append((norm(h), h, h.body))
            if t.finalbody and any(_orch.is_driver_call(c, drivers) for st in t.finalbody for c in calls_in(st)):
                regions.append((f"finally (after {norm(t.handlers[-1]) if t.handlers else 'try'})", t, t.finalbody))
    if not regions:
        raise AnalysisError("execute(): no handler / finally block that calls the trace driver")

    # D1d definite assignment
    r_bound = R.rule("C06-D1d-closing-code-locals-bound", "every local read in a handler / finally block that writes the closing records (error SER, pipeline_end, flush, close) is bound on every path that reaches it - otherwise UnboundLocalError replaces the original exception before the record is written", 3)
    bound = _definitely_bound(g, fn)
    local_names = _local_names(fn)
    for label, root, body in regions:
        inside = {id(x) for st in body for x in ast.walk(st)}
        if isinstance(root, ast.ExceptHandler):
            inside.add(id(root))
        reported: Set[Tuple[int, str]] = set()
        for n in g.nodes:
            if n.ast is None or id(n.ast) not in inside or bound[n.id] is None:
                continue
            part = n.part if n.kind != "except" else n.ast.type
            if part is None or isinstance(n.ast, FuncNode + (ast.ClassDef,)):
                continue
            for nm in _loads(part):
                if nm.id in local_names and nm.id not in bound[n.id] and (id(n.ast), nm.id) not in reported:
                    reported.add((id(n.ast), nm.id))
                    blockers = {m.id for m in g.nodes if nm.id in _node_defs(m)[0]}
                    seen = g.reach([g.entry], blocked=blockers)
                    path = g.path_to(seen, n.id) if n.id in seen else None
                    via = ""
                    if path:
                        src = next((p_ for p_ in reversed(path[:-1]) if "<-EXC-" in p_ or "<-BASE-" in p_), None)
                        prev = path[path.index(src) - 1] if src and path.index(src) > 0 else None
                        if prev:
                            via = f" (e.g. when `{prev.split(': ', 1)[-1].split(' <-')[0][:70]}` raises)"
                    R.violation(r_bound, ORCH, EXECUTE, norm(n.ast)[:120],
                                f"local `{nm.id}` is read in the code that closes the trace ({label}) but is not bound on every path that reaches it{via}: UnboundLocalError is raised inside the handler, the closing record is not written and the caller gets a different exception", nm.lineno, path)
        if not reported:
            R.ok(r_bound, ORCH, EXECUTE, label, "all locals read are definitely bound")

    # D1e exception payload reaches the trace only as text
    r_pay = R.rule("C06-D1e-exception-reaches-trace-as-text", "whatever a handler takes from the caught exception reaches the trace driver only through str()/repr()/type(..).__name__ (a raw exception object or exc.args element is arbitrary and makes json.dumps raise inside the handler: the error SER / pipeline_end is lost and the caller sees TypeError instead of the original exception)", 2)
    P = _Payload(repo)
    for label, root, body in regions:
        if not isinstance(root, ast.ExceptHandler) or not root.name:
            continue
        tainted = P.closure(root, {root.name})
        sinks = [c for st in body for c in calls_in(st) if _orch.is_driver_call(c, drivers)]
        # the call that builds a driver-call argument is a sink too (the record constructor)
        for c in list(sinks):
            for a in list(c.args) + [k.value for k in c.keywords]:
                if isinstance(a, ast.Name):
                    for st in body:
                        for x in walk_no_nested(st):
                            if isinstance(x, ast.Assign) and any(isinstance(t, ast.Name) and t.id == a.id for t in x.targets) and isinstance(x.value, ast.Call) and x.value not in sinks:
                                sinks.append(x.value)
        for c in sinks:
            bad = []
            for kw_name, a in [(None, x) for x in c.args] + [(k.arg, k.value) for k in c.keywords]:
                if P.raw(a, tainted, root) and not (isinstance(a, ast.Name) and any(isinstance(s_, ast.Call) and s_ is not c and any(isinstance(t, ast.Name) and t.id == a.id for t in getattr(parent_assign(s_), "targets", [])) for s_ in sinks)):
                    leaf = P.leaf(a, tainted, root)
                    if isinstance(leaf, ast.Name):
                        vals = [v for st in body for x in walk_no_nested(st) if isinstance(x, ast.Assign) and any(isinstance(t, ast.Name) and t.id == leaf.id for t in x.targets) for v in [x.value] if P.raw(v, tainted, root)]
                        if vals:
                            leaf = P.leaf(vals[0], tainted, root)
                    bad.append((kw_name, a, leaf))
            stmt = f"{call_attr(c)}(...) in {label}"
            if bad:
                kw_name, a, leaf = bad[0]
                R.violation(r_pay, ORCH, EXECUTE, stmt,
                            f"argument {kw_name + '=' if kw_name else ''}`{norm(a)[:60]}` carries `{norm(leaf)[:70]}`: a part of the caught exception that was not turned into text (for a KeyError exc.args[0] is the missing *key* - an Enum, bytes, tuple ...); json.dumps of the record raises TypeError inside the handler, the record is not written and the original exception is replaced", getattr(leaf, "lineno", c.lineno))
            else:
                R.ok(r_pay, ORCH, EXECUTE, stmt, "exception enters the record as text only")


def parent_assign(call: ast.AST) -> Optional[ast.AST]:
    from ..engine import parent
    p = parent(call)
    return p if isinstance(p, ast.Assign) else None


# ---------------------------------------------------------------------------
# D4: what the driver hands to the file
# ---------------------------------------------------------------------------

SAFE_ENCODE_ERRORS = {"backslashreplace", "replace", "ignore", "xmlcharrefreplace", "namereplace"}


def _is_json_dumps(repo: Repo, mod, call: ast.AST) -> bool:
    """``json.dumps(...)`` under any import spelling (import json [as j], from json import dumps [as d])."""
    if not isinstance(call, ast.Call):
        return False
    d = call_name(call)
    if not d:
        return False
    head, _, rest = d.partition(".")
    target = mod.imports.get(head)
    full = (target + ("." + rest if rest else "")) if target else d
    return full == "json.dumps"


class _SubstNames(ast.NodeTransformer):
    def __init__(self, mapping: Dict[str, ast.AST]):
        self.mapping = mapping

    def visit_Name(self, node: ast.Name):
        if isinstance(node.ctx, ast.Load) and node.id in self.mapping:
            return clone(self.mapping[node.id])
        return node


def _bind_params(callee: ast.AST, call: ast.Call) -> Optional[Dict[str, ast.AST]]:
    """Parameter name -> argument expression of *call* (receiver dropped for methods); None when not simple."""
    from ..engine import parent
    a = callee.args
    pos = [x.arg for x in a.posonlyargs + a.args]
    deco = {dotted_name(d) for d in getattr(callee, "decorator_list", [])}
    if isinstance(parent(callee), ast.ClassDef) and "staticmethod" not in deco and isinstance(call.func, ast.Attribute) and pos:
        pos = pos[1:]
    if any(isinstance(x, ast.Starred) for x in call.args) or any(k.arg is None for k in call.keywords) or len(call.args) > len(pos):
        return None
    out: Dict[str, ast.AST] = dict(zip(pos, call.args))
    for k in call.keywords:
        out[k.arg] = k.value
    return out


def _param_names(fn: ast.AST) -> Set[str]:
    a = fn.args
    out = {x.arg for x in a.posonlyargs + a.args + a.kwonlyargs}
    if a.vararg:
        out.add(a.vararg.arg)
    if a.kwarg:
        out.add(a.kwarg.arg)
    return out


def _as_text(t: ast.AST) -> ast.AST:
    """The term *t* after text conversion (`%s`, `{}`, `{!s}`): a constant becomes its text, everything else is left
    as it is (a str - such as the result of json.dumps - is its own text; any other term is not accepted as part of a
    JSON line anyway)."""
    if isinstance(t, ast.Constant) and not isinstance(t.value, (str, bytes)) and t.value is not Ellipsis:
        return ast.copy_location(ast.Constant(value=str(t.value)), t)
    return t


def _format_layout(e: ast.AST) -> Optional[List[object]]:
    """The text built by a formatting expression with a constant layout, as a sequence of constant pieces (str) and
    argument expressions whose text is inserted: ``"<fmt with %s / %%>" % arg|(args..)``, ``"<fmt with {} / {0} / {name}>".format(..)``
    and ``"<sep>".join([a, b, ..])`` over a list / tuple display.  None: not such an expression (or a directive other
    than plain text insertion, which is not modelled)."""
    if isinstance(e, ast.BinOp) and isinstance(e.op, ast.Mod) and isinstance(e.left, ast.Constant) and isinstance(e.left.value, str):
        fmt = e.left.value
        if isinstance(e.right, ast.Tuple):
            if any(isinstance(x, ast.Starred) for x in e.right.elts):
                return None
            args = list(e.right.elts)
        elif isinstance(e.right, (ast.Dict, ast.DictComp)):
            return None
        else:
            args = [e.right]
        out: List[object] = []
        i, used, buf = 0, 0, ""
        while i < len(fmt):
            ch = fmt[i]
            if ch != "%":
                buf += ch
                i += 1
                continue
            nxt = fmt[i + 1] if i + 1 < len(fmt) else ""
            if nxt == "%":
                buf += "%"
            elif nxt == "s" and used < len(args):
                out.append(buf)
                buf = ""
                out.append(args[used])
                used += 1
            else:
                return None
            i += 2
        out.append(buf)
        return out if used == len(args) else None
    if isinstance(e, ast.Call) and isinstance(e.func, ast.Attribute) and isinstance(e.func.value, ast.Constant) and isinstance(e.func.value.value, str):
        text = e.func.value.value
        if e.func.attr == "format":
            if any(isinstance(x, ast.Starred) for x in e.args) or any(k.arg is None for k in e.keywords):
                return None
            import string
            try:
                fields = list(string.Formatter().parse(text))
            except ValueError:
                return None
            named = {k.arg: k.value for k in e.keywords}
            out = []
            auto = 0
            for lit, field, spec, conv in fields:
                out.append(lit or "")
                if field is None:
                    continue
                if spec or conv not in (None, "s"):
                    return None
                if field == "":
                    idx, auto = auto, auto + 1
                    if idx >= len(e.args):
                        return None
                    out.append(e.args[idx])
                elif field.isdigit():
                    if int(field) >= len(e.args):
                        return None
                    out.append(e.args[int(field)])
                elif field in named:
                    out.append(named[field])
                else:
                    return None
            return out
        if e.func.attr == "join" and len(e.args) == 1 and not e.keywords and isinstance(e.args[0], (ast.List, ast.Tuple)) \
                and not any(isinstance(x, ast.Starred) for x in e.args[0].elts):
            out = []
            for k, el in enumerate(e.args[0].elts):
                if k:
                    out.append(text)
                out.append(el)
            return out
    return None


def _text_alternatives(repo: Repo, mod, fn: ast.AST, e: ast.AST, depth: int = 0) -> List[List[ast.AST]]:
    """The text *e* evaluates to, as alternatives of concatenated terms: ``+`` chains and f-strings are
    flattened, locals are replaced by the values assigned to them (every assignment is an alternative),
    calls of repo functions by what they return (parameters substituted by the arguments)."""
    if depth > 5:
        return [[e]]
    if isinstance(e, ast.BinOp) and isinstance(e.op, ast.Add):
        ls = _text_alternatives(repo, mod, fn, e.left, depth + 1)
        rs = _text_alternatives(repo, mod, fn, e.right, depth + 1)
        return [l + r for l in ls for r in rs][:16]
    if isinstance(e, ast.JoinedStr):
        alts: List[List[ast.AST]] = [[]]
        for v in e.values:
            if isinstance(v, ast.FormattedValue) and v.conversion in (-1, 115) and v.format_spec is None:
                # {x} and {x!s}: the text of x (identity for a str)
                sub = [[_as_text(t) for t in alt] for alt in _text_alternatives(repo, mod, fn, v.value, depth + 1)]
            else:
                sub = [[v]]
            alts = [a + b for a in alts for b in sub][:16]
        return alts
    layout = _format_layout(e)
    if layout is not None:
        # "%s\n" % x, "{}\n".format(x), "".join([x, "\n"]): the same concatenation as x + "\n" - constant pieces and
        # the text of the arguments (text-converted: identity for a str such as the result of json.dumps)
        alts = [[]]
        for piece in layout:
            if isinstance(piece, str):
                sub = [[ast.copy_location(ast.Constant(value=piece), e)]] if piece else [[]]
            else:
                sub = [[_as_text(t) for t in alt] for alt in _text_alternatives(repo, mod, fn, piece, depth + 1)]
            alts = [a + b for a in alts for b in sub][:16]
        return alts
    if isinstance(e, ast.Name) and e.id not in _param_names(fn):
        vals = assigned_value(fn, e.id)
        if vals:
            out: List[List[ast.AST]] = []
            for v in vals:
                out.extend(_text_alternatives(repo, mod, fn, v, depth + 1))
            return out[:16]
    if isinstance(e, ast.Call) and not _is_json_dumps(repo, mod, e):
        try:
            targets = repo.resolve_call(mod, e)
        except Exception:
            targets = []
        if len(targets) == 1 and isinstance(targets[0][1], ast.FunctionDef):
            cmod, callee = targets[0]
            binding = _bind_params(callee, e)
            rets = [r.value for r in walk_no_nested(callee) if isinstance(r, ast.Return) and r.value is not None]
            if binding is not None and rets:
                out = []
                for rv in rets:
                    for alt in _text_alternatives(repo, cmod, callee, rv, depth + 1):
                        terms = []
                        for t in alt:
                            t2 = _SubstNames(binding).visit(clone(t))
                            if getattr(t, "_c06_dumps", False):
                                t2._c06_dumps = True  # type: ignore[attr-defined]
                            terms.append(t2)
                        out.append(terms)
                return out[:16]
    if _is_json_dumps(repo, mod, e):
        e._c06_dumps = True  # type: ignore[attr-defined]  (decided with the imports of the module the call is written in)
    return [[e]]


def _one_json_line(repo: Repo, mod, terms: List[ast.AST], need_newline: bool = True) -> Tuple[bool, Optional[ast.Call]]:
    """terms == [json.dumps(<record>, no indent)] + constant text equal to one newline."""
    if not terms or not (getattr(terms[0], "_c06_dumps", False) or _is_json_dumps(repo, mod, terms[0])):
        return False, None
    d = terms[0]
    ind = kwarg(d, "indent")
    if ind is not None and not (isinstance(ind, ast.Constant) and ind.value is None):
        return False, d
    sep = kwarg(d, "separators")
    if sep is not None and any(isinstance(x, ast.Constant) and isinstance(x.value, str) and "\n" in x.value for x in ast.walk(sep)):
        return False, d
    rest = terms[1:]
    if not all(isinstance(t, ast.Constant) and isinstance(t.value, str) for t in rest):
        return False, d
    tail = "".join(t.value for t in rest)
    return tail == ("\n" if need_newline else ""), d


class _Write:
    def __init__(self, qn: str, nf: ast.AST, call: ast.Call, ok: bool, dumps: List[ast.Call]):
        self.qn, self.nf, self.call, self.ok, self.dumps = qn, nf, call, ok, dumps


def _driver_writes(repo: Repo) -> List[_Write]:
    """Every place where the JSONL driver hands text to a file object, analysed on the normal form of the
    method (private helpers such as an encode-line function inlined)."""
    cache = repo.__dict__.setdefault("_c06_writes", None)
    if cache is not None:
        return cache
    jmod = repo.module(JSONL)
    out: List[_Write] = []
    for qn, f in [(q, n) for q, n in jmod.defs.items() if isinstance(n, FuncNode)]:
        nf = nfunc(repo, JSONL, qn)
        for c in calls_in(nf):
            text: Optional[ast.AST] = None
            newline_added = False
            if call_attr(c) == "write" and isinstance(c.func, ast.Attribute) and len(c.args) == 1 and not c.keywords:
                text = c.args[0]
            elif call_name(c) == "print" and kwarg(c, "file") is not None and len(c.args) == 1:
                end = kwarg(c, "end")
                if end is None or (isinstance(end, ast.Constant) and end.value == "\n"):
                    text, newline_added = c.args[0], True
                else:
                    text = ast.BinOp(left=c.args[0], op=ast.Add(), right=end)
            if text is None:
                continue
            alts = _text_alternatives(repo, jmod, nf, text)
            oks, ds = [], []
            for terms in alts:
                ok, d = _one_json_line(repo, jmod, terms, need_newline=not newline_added)
                if not ok and d is not None and not newline_added:
                    # write(json.dumps(r)) immediately followed by write("\n") on the same receiver
                    ok0, _d = _one_json_line(repo, jmod, terms, need_newline=False)
                    st = stmt_of(c)
                    blk = _enclosing_block(st)
                    nxt = blk[blk.index(st) + 1] if st in blk and blk.index(st) + 1 < len(blk) else None
                    if ok0 and isinstance(nxt, ast.Expr) and isinstance(nxt.value, ast.Call) and call_attr(nxt.value) == "write" and norm(nxt.value.func) == norm(c.func) \
                            and len(nxt.value.args) == 1 and isinstance(nxt.value.args[0], ast.Constant) and nxt.value.args[0].value == "\n":
                        ok = True
                oks.append(ok)
                if d is not None:
                    ds.append(d)
            if all(isinstance(t, ast.Constant) and t.value == "\n" for terms in alts for t in terms):
                # the newline half of a two-step write: judged with the preceding write
                st = stmt_of(c)
                blk = _enclosing_block(st)
                prev = blk[blk.index(st) - 1] if st in blk and blk.index(st) > 0 else None
                if isinstance(prev, ast.Expr) and isinstance(prev.value, ast.Call) and call_attr(prev.value) == "write" and norm(prev.value.func) == norm(c.func):
                    continue
            out.append(_Write(qn, nf, c, bool(oks) and all(oks), ds))
    repo.__dict__["_c06_writes"] = out
    return out


def _line_rules(repo: Repo, R: Report) -> None:
    r_line = R.rule("C06-D4-one-line-per-record", "every text the JSONL driver hands to its file is json.dumps(record) (no indent) followed by exactly one newline", 5)
    r_enc = R.rule("C06-D4b-line-always-encodable", "the serialised line can be encoded whatever strings the record holds: json.dumps keeps ensure_ascii (escapes lone surrogates / non-ASCII), or the file is opened with a non-raising error handler", 5)
    jmod = repo.module(JSONL)
    writes = _driver_writes(repo)
    opens = [c for f in jmod.defs.values() if isinstance(f, FuncNode) for c in calls_in(f) if call_attr(c) == "open"]
    lenient = bool(opens) and all(isinstance(kwarg(c, "errors"), ast.Constant) and kwarg(c, "errors").value in SAFE_ENCODE_ERRORS for c in opens)
    for w in writes:
        R.check(w.ok, r_line, JSONL, w.qn, norm(w.call), "a record is not written as exactly one JSON line", w.call.lineno)
        for d in w.dumps:
            ea = kwarg(d, "ensure_ascii")
            ascii_only = ea is None or (isinstance(ea, ast.Constant) and ea.value is True)
            R.check(ascii_only or lenient, r_enc, JSONL, w.qn, norm(d),
                    f"json.dumps(..., ensure_ascii={ast.unparse(ea) if ea is not None else 'True'}) lets raw non-ASCII text through to a strict text file: a string with a lone surrogate (os.fsdecode of a non-UTF-8 file name in a parameter value or an exception message) makes write() raise UnicodeEncodeError, so the record (SER / pipeline_end) is lost and the original exception is replaced",
                    getattr(d, "lineno", w.call.lineno))
    _writer_accepts_sanitised_rule(repo, R)


def _last(path: Optional[List[str]]) -> str:
    if not path:
        return "?"
    for p in reversed(path[:-1]):
        if ": <" not in p:
            return p.split(": ", 1)[-1].split(" <-")[0][:80]
    return "?"


def _enclosing_block(st: ast.AST) -> List[ast.stmt]:
    from ..engine import parent
    p = parent(st)
    for attr in ("body", "orelse", "finalbody", "handlers"):
        blk = getattr(p, attr, None)
        if isinstance(blk, list) and st in blk:
            return blk
    return []


# ---------------------------------------------------------------------------
# D2
# ---------------------------------------------------------------------------


def _mapping_keys(d: ast.AST) -> Set[str]:
    """Keys a mapping expression certainly has: a dict display or ``dict(key=..., ...)``."""
    if isinstance(d, ast.Dict):
        return {k.value for k in d.keys if isinstance(k, ast.Constant)}
    if isinstance(d, ast.Call) and call_name(d) == "dict" and not d.args:
        return {k.arg for k in d.keywords if k.arg is not None}
    return set()


def _status_label(V: "_Vals", c: ast.Call) -> str:
    s = kwarg(c, "status")
    vals = V.resolve(s, V.uses(c)) if s is not None else []
    return "/".join(sorted({str(getattr(v, "value", "?")) for v in vals})) or "?"


def _module_literal(repo: Repo, mod, fn: ast.AST, e: ast.AST) -> ast.AST:
    """*e*, or the literal a module-level / class-level name stands for when it is bound exactly once there (also as
    one component of ``A, B = "a", "b"``) and not rebound in the function."""
    name = None
    bodies: List[List[ast.stmt]] = []
    if isinstance(e, ast.Name) and e.id not in _local_names(fn):
        name, bodies = e.id, [mod.tree.body]
    elif isinstance(e, ast.Attribute) and isinstance(e.value, ast.Name):
        from ..engine import enclosing_class
        cls = enclosing_class(fn)
        if cls is not None and e.value.id in ("self", "cls", cls.name):
            name, bodies = e.attr, [c.body for _m, c in repo.mro(mod, cls)]
    if name is None:
        return e
    for body in bodies:
        found: List[ast.AST] = []
        for st in body:
            if isinstance(st, ast.AnnAssign) and isinstance(st.target, ast.Name) and st.target.id == name and st.value is not None:
                found.append(st.value)
            elif isinstance(st, ast.Assign):
                for t in st.targets:
                    if isinstance(t, ast.Name) and t.id == name:
                        found.append(st.value)
                    elif isinstance(t, (ast.Tuple, ast.List)):
                        for i, el in enumerate(t.elts):
                            if isinstance(el, ast.Name) and el.id == name:
                                same = isinstance(st.value, (ast.Tuple, ast.List)) and len(st.value.elts) == len(t.elts) and not any(isinstance(x, ast.Starred) for x in list(t.elts) + list(st.value.elts))
                                found.append(st.value.elts[i] if same else st.value)
            elif any(isinstance(x, ast.Name) and x.id == name and isinstance(x.ctx, (ast.Store, ast.Del)) for x in ast.walk(st) if not isinstance(st, FuncNode + (ast.ClassDef,))):
                found.append(st)
        if found:
            return found[0] if len(found) == 1 and isinstance(found[0], ast.Constant) else e
    return e


def _load_schema(repo: Repo, name: str) -> dict:
    path = repo.root / SCHEMA_DIR / name
    try:
        return json.loads(path.read_text())
    except Exception as exc:
        raise AnalysisError(f"cannot read schema {name}: {exc}")


def _flatten(repo: Repo, schema: dict) -> Tuple[Set[str], Dict[str, dict]]:
    required: Set[str] = set(schema.get("required", []))
    props: Dict[str, dict] = dict(schema.get("properties", {}))
    for sub in schema.get("allOf", []):
        if "$ref" in sub:
            ref = sub["$ref"].split("/")[-1]
            r2, p2 = _flatten(repo, _load_schema(repo, ref))
        else:
            r2, p2 = _flatten(repo, sub)
        required |= r2
        props.update(p2)
    return required, props


def _record_literal(repo: Repo, qn: str) -> Tuple[Optional[str], Optional[ast.Dict], ast.AST]:
    """(local name, dict literal, normal form) of the record an emitter writes: the mapping that is the first
    argument of the json.dumps whose text goes to the file - found by that role, not by the local's name."""
    nf = nfunc(repo, JSONL, qn)

    def display(v: ast.AST) -> Optional[ast.Dict]:
        """A dict display, or ``dict(key=value, ..)`` read as one."""
        if isinstance(v, ast.Dict):
            return v
        if isinstance(v, ast.Call) and call_name(v) == "dict" and not v.args and v.keywords and all(k.arg is not None for k in v.keywords):
            lit = ast.Dict(keys=[ast.copy_location(ast.Constant(value=k.arg), k.value) for k in v.keywords], values=[k.value for k in v.keywords])
            return ast.copy_location(lit, v)
        return None

    for w in _driver_writes(repo):
        if w.qn != qn:
            continue
        for d in w.dumps:
            arg = d.args[0] if d.args else kwarg(d, "obj")
            if display(arg) is not None:
                return None, display(arg), w.nf
            if isinstance(arg, ast.Name):
                for v in assigned_value(w.nf, arg.id):
                    if display(v) is not None:
                        return arg.id, display(v), w.nf
    # the emitter hands its record to a helper of the driver that was not inlined (a public `emit(record)`): the
    # record is the argument bound to the parameter that helper serialises and writes
    jmod = repo.module(JSONL)
    for c in calls_in(nf):
        try:
            targets = [t for t in repo.resolve_call(jmod, c) if isinstance(t[1], FuncNode) and t[0] is jmod]
        except Exception:
            targets = []
        for _m, callee in targets[:1]:
            binding = _bind_params(callee, c)
            if binding is None:
                continue
            for w in _driver_writes(repo):
                if w.qn != qualname_of(callee):
                    continue
                for d in w.dumps:
                    arg = d.args[0] if d.args else kwarg(d, "obj")
                    if isinstance(arg, ast.Name) and arg.id in binding and not assigned_value(w.nf, arg.id):
                        given = binding[arg.id]
                        if display(given) is not None:
                            return None, display(given), nf
                        if isinstance(given, ast.Name):
                            for v in assigned_value(nf, given.id):
                                if display(v) is not None:
                                    return given.id, display(v), nf
    return None, None, nf


def _filters_items_by_value_only(n: ast.DictComp) -> bool:
    """``{k: item for <k, item of R> if <test of item>}``: a filtered copy of one mapping R whose single filter speaks
    about the *value* stored under the key - `item is not None` (also `not item is None`) or `isinstance(item, T)`.
    The traversal may be spelled `for k, v in R.items()` (item is `v` or `R[k]`) or `for k in R` / `R.keys()` /
    `list(R)` / `sorted(R)` / `tuple(R)` (item is `R[k]`); what is decided is the role of each part, not its spelling."""
    if len(n.generators) != 1 or len(n.generators[0].ifs) != 1 or n.generators[0].is_async:
        return False
    gen = n.generators[0]
    t, it = gen.target, gen.iter
    items: Set[str] = set()
    key: Optional[str] = None

    def mapping_of(e: ast.AST) -> Optional[str]:
        """The mapping whose keys *e* enumerates."""
        if isinstance(e, ast.Call) and isinstance(e.func, ast.Name) and e.func.id in ("list", "tuple", "sorted", "iter") and len(e.args) == 1 and not e.keywords:
            return mapping_of(e.args[0])
        if isinstance(e, ast.Call) and isinstance(e.func, ast.Attribute) and e.func.attr == "keys" and not e.args and not e.keywords:
            return dotted_name(e.func.value)
        return dotted_name(e)

    if isinstance(t, ast.Tuple) and len(t.elts) == 2 and all(isinstance(x, ast.Name) for x in t.elts):
        inner = it
        if isinstance(inner, ast.Call) and isinstance(inner.func, ast.Name) and inner.func.id in ("list", "tuple", "sorted", "iter") and len(inner.args) == 1 and not inner.keywords:
            inner = inner.args[0]
        if isinstance(inner, ast.Call) and isinstance(inner.func, ast.Attribute) and inner.func.attr == "items" and not inner.args and not inner.keywords and dotted_name(inner.func.value):
            key = t.elts[0].id
            items = {t.elts[1].id, f"{dotted_name(inner.func.value)}[{key}]"}
    elif isinstance(t, ast.Name):
        m = mapping_of(it)
        if m:
            key = t.id
            items = {f"{m}[{key}]"}
    if key is None or not (isinstance(n.key, ast.Name) and n.key.id == key):
        return False

    def is_item(e: ast.AST) -> bool:
        if isinstance(e, ast.Name):
            return e.id in items
        if isinstance(e, ast.Subscript) and isinstance(e.slice, ast.Name) and dotted_name(e.value):
            return f"{dotted_name(e.value)}[{e.slice.id}]" in items
        return False

    if not is_item(n.value):
        return False
    f = gen.ifs[0]
    negated = False
    while isinstance(f, ast.UnaryOp) and isinstance(f.op, ast.Not):
        f, negated = f.operand, not negated
    if isinstance(f, ast.Compare) and len(f.ops) == 1 and _is_none(f.comparators[0]) and is_item(f.left):
        return (isinstance(f.ops[0], ast.IsNot) and not negated) or (isinstance(f.ops[0], ast.Is) and negated)
    if isinstance(f, ast.Call) and isinstance(f.func, ast.Name) and f.func.id == "isinstance" and len(f.args) == 2 and not f.keywords and is_item(f.args[0]):
        return not negated
    return False


def _only_in_type_error_fallback(g: CFG, site: ast.AST) -> bool:
    """Every path from the entry of the function to the statement of *site* enters a handler that catches TypeError
    (`except TypeError`, `except (TypeError, ..)`): the statement runs only after something raised TypeError."""
    def catches_type_error(h: ast.ExceptHandler) -> bool:
        t = h.type
        elts = t.elts if isinstance(t, ast.Tuple) else [t] if t is not None else []
        return any((dotted_name(x) or "").split(".")[-1] == "TypeError" for x in elts)

    ids = g.nodes_for(stmt_of(site))
    if not ids:
        return True     # not reachable at all
    gates = {n.id for n in g.nodes if n.kind == "except" and isinstance(n.ast, ast.ExceptHandler) and catches_type_error(n.ast)}
    if not gates:
        return False
    seen = g.reach([g.entry], blocked=gates)
    return not any(i in seen for i in ids if i not in gates)


def _schema_rules(repo: Repo, R: Report, X: Optional["_Exec"] = None) -> None:
    X = X or _exec(repo)
    V = X.V
    r = R.rule("C06-D2-writer-schema", "for each record type: the keys the driver writes unconditionally include the schema's required keys, constants match `const`, literal value sets are within `enum`, the registry maps every emitted record_type to an existing schema; no required key is removed on a fallback path", 20)
    registry = _load_schema(repo, "trace_registry_v1.json").get("records", {})
    fallback_pops: List[Tuple[str, ast.Call, str]] = []
    emitters = {
        "pipeline_start": "JsonlTraceDriver.on_pipeline_start",
        "pipeline_end": "JsonlTraceDriver.on_pipeline_end",
        "run_space_start": "JsonlTraceDriver.on_run_space_start",
        "run_space_end": "JsonlTraceDriver.on_run_space_end",
    }
    for rtype, qn in emitters.items():
        repo.func(JSONL, qn)
        rec, lit, f = _record_literal(repo, qn)
        if lit is None:
            raise AnalysisError(f"{qn}: the dict literal that is serialised and written was not found")
        keys = {k.value: v for k, v in zip(lit.keys, lit.values) if isinstance(k, ast.Constant)}
        # unconditional `record[<const>] = v` stores at the top level of the method count as written keys
        for st in f.body:
            if isinstance(st, ast.Assign) and rec is not None:
                for t in st.targets:
                    if isinstance(t, ast.Subscript) and dotted_name(t.value) == rec and isinstance(t.slice, ast.Constant):
                        keys.setdefault(t.slice.value, st.value)
        R.check(rtype in registry, r, JSONL, qn, f"registry[{rtype!r}]", "record type emitted by the driver is not in the trace registry", f.lineno)
        sname = registry.get(rtype, "").split("/")[-1]
        if not sname or not (repo.root / SCHEMA_DIR / sname).is_file():
            R.violation(r, JSONL, qn, f"registry[{rtype!r}] -> {sname}", "registry points to a schema file that does not exist", f.lineno)
            continue
        req, props = _flatten(repo, _load_schema(repo, sname))
        for k in sorted(req):
            R.check(k in keys, r, JSONL, qn, f"{rtype}: required key {k!r} written unconditionally", f"schema-required key {k!r} is not in the record literal (missing on some path)", f.lineno)
        for k, spec in props.items():
            if "const" in spec and k in keys:
                v = keys[k]
                R.check(isinstance(v, ast.Constant) and v.value == spec["const"], r, JSONL, qn, f"{rtype}: {k} == {spec['const']!r}", f"record constant {k} differs from the schema's const", f.lineno)
        # required keys never removed again: `rec.pop(k[, d])`, `rec.__delitem__(k)`, `del rec[k]` (however guarded) are
        # one construct - a removal of k.  A removal that can only be reached through a handler of TypeError (the
        # fallback of a failed json.dumps) is discharged by D2b (the fallback is unreachable); any other is reported.
        removals: List[Tuple[ast.AST, object]] = []
        for c in calls_in(f):
            if call_attr(c) in ("pop", "__delitem__") and isinstance(c.func, ast.Attribute) and rec is not None and dotted_name(c.func.value) == rec and c.args and isinstance(c.args[0], ast.Constant):
                removals.append((c, c.args[0].value))
        for n in walk_no_nested(f):
            if isinstance(n, ast.Delete):
                for t in n.targets:
                    if isinstance(t, ast.Subscript) and rec is not None and dotted_name(t.value) == rec and isinstance(t.slice, ast.Constant):
                        removals.append((n, t.slice.value))
        gf = None
        for c, k in removals:
            if k not in req:
                R.ok(r, JSONL, qn, norm(c), "optional key", c.lineno)
                continue
            if gf is None:
                gf = CFG(f)
            if _only_in_type_error_fallback(gf, c):
                fallback_pops.append((qn, c, k))
            elif isinstance(c, ast.Delete):
                R.violation(r, JSONL, qn, norm(c), f"schema-required key {k!r} is deleted", c.lineno)
            else:
                R.violation(r, JSONL, qn, norm(c), f"schema-required key {k!r} is dropped unconditionally: the written line is rejected by the schema", c.lineno)
        # early return before the write (record silently not written)
        if rtype in ("pipeline_start",):
            pass
    _json_safety_rules(repo, R, fallback_pops)
    _sanitiser_rules(repo, R)
    # SER: dataclass fields + nested literals in _make_ser_record
    ser_schema = _load_schema(repo, registry.get("ser", "x/semantic_execution_record_v1.schema.json").split("/")[-1])
    req, props = _flatten(repo, ser_schema)
    ser_cls = repo.cls(MODEL, "SERRecord")
    fields = {st.target.id: st for st in ser_cls.body if isinstance(st, ast.AnnAssign) and isinstance(st.target, ast.Name)}
    optional = {k for k, st in fields.items() if st.value is not None}
    for k in sorted(req):
        R.check(k in fields and k not in optional, r, MODEL, "SERRecord", f"ser: required key {k!r} is a mandatory dataclass field", f"schema-required SER key {k!r} is not a mandatory field of SERRecord", ser_cls.lineno)
    mk_rel, mk_qn, mk = _helper_of_execute(repo, _ser_builder_name(repo))
    ctor = next((c for c in ast.walk(mk) if isinstance(c, ast.Call) and call_attr(c) == "SERRecord"), None)
    if ctor is None:
        raise AnalysisError("_make_ser_record: SERRecord(...) not found")
    for k, spec in props.items():
        v = kwarg(ctor, k)
        if "const" in spec:
            R.check(isinstance(v, ast.Constant) and v.value == spec["const"], r, mk_rel, mk_qn, f"ser: {k} == {spec['const']!r}", "SER constant differs from schema const", ctor.lineno)
        if spec.get("type") == "object" and spec.get("required"):
            if isinstance(v, ast.Dict):
                lit_keys = {kk.value for kk in v.keys if isinstance(kk, ast.Constant)}
                for rk in spec["required"]:
                    R.check(rk in lit_keys, r, mk_rel, mk_qn, f"ser.{k}: required key {rk!r}", f"SER {k} object lacks schema-required key {rk!r}", ctor.lineno)
            elif k == "context_delta":
                cd = repo.cls(MODEL, "ContextDelta")
                cfields = {st.target.id for st in cd.body if isinstance(st, ast.AnnAssign) and isinstance(st.target, ast.Name) and st.value is None}
                for rk in spec["required"]:
                    R.check(rk in cfields, r, MODEL, "ContextDelta", f"ser.context_delta: required key {rk!r}", f"ContextDelta lacks mandatory field {rk!r}", cd.lineno)
            elif k == "timing":
                # the timing mapping handed over at the call sites in execute (a literal there, or a local bound to one)
                for c in calls_in(X.fn):
                    if call_attr(c) == _ser_builder_name(repo):
                        t = kwarg(c, "timing")
                        at_c = V.uses(c)
                        lits = [V.binding(a) for a in V.resolve(t, at_c)] if t is not None else []
                        key_sets = [_mapping_keys(d) for d in lits]
                        lit_keys = set.intersection(*key_sets) if key_sets else set()
                        for rk in spec["required"]:
                            R.check(rk in lit_keys, r, ORCH, EXECUTE, f"ser.timing ({_status_label(V, c)}): required key {rk!r}", f"SER timing lacks schema-required key {rk!r}", c.lineno)
    # status enum: literals passed as status= at call sites, after normalisation table
    enum = set(props.get("status", {}).get("enum", []))
    for c in calls_in(X.fn):
        if call_attr(c) == _ser_builder_name(repo):
            s = kwarg(c, "status")
            vals = V.resolve(s, V.uses(c)) if s is not None else []
            R.check(bool(vals) and all(isinstance(v, ast.Constant) and v.value in enum for v in vals), r, ORCH, EXECUTE, f"ser.status literal {_status_label(V, c)!r}", "SER status literal outside the schema enum", c.lineno)
    # parameter_sources enum
    ps_enum = set(props.get("processor", {}).get("properties", {}).get("parameter_sources", {}).get("additionalProperties", {}).get("enum", []))
    rp_rel, rp_qn, _rp_def = _helper_of_execute(repo, _execute_roles(repo)["resolve_params"])
    rp = nfunc(repo, rp_rel, rp_qn, copyprop="all")
    # the provenance table by role: the second component of what the resolver returns
    src_names = {r.value.elts[1].id for r in walk_no_nested(rp) if isinstance(r, ast.Return) and isinstance(r.value, ast.Tuple) and len(r.value.elts) == 2 and isinstance(r.value.elts[1], ast.Name)}
    if not src_names:
        raise AnalysisError("_resolve_params_with_sources: does not return (params, sources) locals")
    for n in walk_no_nested(rp):
        if isinstance(n, ast.Assign) and any(isinstance(t, ast.Subscript) and dotted_name(t.value) in src_names for t in n.targets):
            label = _module_literal(repo, repo.module(rp_rel), rp, n.value)
            R.check(isinstance(label, ast.Constant) and label.value in ps_enum, r, rp_rel, rp_qn, norm(n), "parameter source label outside the schema enum {context,node,default}", n.lineno)
    # on_node_event: required SER keys are not filtered away (only None-valued top-level keys are dropped)
    one = repo.func(JSONL, "JsonlTraceDriver.on_node_event")
    for n in walk_no_nested(one):
        if isinstance(n, ast.DictComp) and n.generators and n.generators[0].ifs:
            # the filter speaks about the *value* being iterated: `<v> is not None`, or a JSON-type test of <v>
            ok = _filters_items_by_value_only(n)
            R.check(ok, r, JSONL, "JsonlTraceDriver.on_node_event", norm(stmt_of(n))[:120], "SER keys are filtered by something other than `is not None` / JSON-type fallback", n.lineno)


# ---------------------------------------------------------------------------
# D2d: an optional SER section that is absent is left out of the line, not written as null
# ---------------------------------------------------------------------------

def _admits_null(spec: dict) -> Optional[bool]:
    """Does the schema of one property accept JSON null?  None: the property is unconstrained in that respect."""
    if not isinstance(spec, dict):
        return None
    if "const" in spec:
        return spec["const"] is None
    if "enum" in spec:
        return None in spec["enum"]
    t = spec.get("type")
    if isinstance(t, str):
        return t == "null"
    if isinstance(t, list):
        return "null" in t
    for comb in ("anyOf", "oneOf"):
        if isinstance(spec.get(comb), list) and spec[comb]:
            subs = [_admits_null(x) for x in spec[comb]]
            if any(x is None for x in subs):
                return None
            return any(subs)
    return None


def _annotation_admits_none(a: Optional[ast.AST]) -> bool:
    if a is None:
        return False
    if isinstance(a, ast.Constant) and isinstance(a.value, str):
        try:
            a = ast.parse(a.value, mode="eval").body
        except SyntaxError:
            return False
    for x in ast.walk(a):
        if isinstance(x, ast.Constant) and x.value is None:
            return True
        if (dotted_name(x) or "").split(".")[-1] == "Optional":
            return True
    return False


def _mapping_key_removal(st: ast.AST, rec: str) -> Optional[ast.AST]:
    """The key expression of a statement that removes one entry of mapping *rec*: `del rec[k]`, `rec.pop(k[, d])`,
    `rec.__delitem__(k)`."""
    if isinstance(st, ast.Delete) and len(st.targets) == 1:
        t = st.targets[0]
        if isinstance(t, ast.Subscript) and dotted_name(t.value) == rec:
            return t.slice
    if isinstance(st, ast.Expr) and isinstance(st.value, ast.Call) and isinstance(st.value.func, ast.Attribute) and st.value.func.attr in ("pop", "__delitem__") \
            and dotted_name(st.value.func.value) == rec and st.value.args:
        return st.value.args[0]
    return None


def _none_item_test(test: ast.AST, rec: str) -> Optional[ast.AST]:
    """The key expression K of a test that holds exactly when the entry K of *rec* is None (possibly after a presence
    test): `rec[K] is None`, `rec.get(K) is None`, `K in rec and rec[K] is None`."""
    if isinstance(test, ast.BoolOp) and isinstance(test.op, ast.And) and len(test.values) == 2:
        first, second = test.values
        k2 = _none_item_test(second, rec)
        if k2 is not None and isinstance(first, ast.Compare) and len(first.ops) == 1 and isinstance(first.ops[0], ast.In) \
                and dotted_name(first.comparators[0]) == rec and ast.dump(first.left) == ast.dump(k2):
            return k2
        return None
    nt = _none_test(test)
    if nt is None:
        return None
    e, not_none = nt
    if not_none:
        return None
    if isinstance(e, ast.Subscript) and dotted_name(e.value) == rec:
        return e.slice
    if isinstance(e, ast.Call) and isinstance(e.func, ast.Attribute) and e.func.attr == "get" and dotted_name(e.func.value) == rec and len(e.args) == 1 and not e.keywords:
        return e.args[0]
    return None


def _enumerates_keys_of(it: ast.AST, rec: str) -> bool:
    if isinstance(it, ast.Call) and isinstance(it.func, ast.Name) and it.func.id in ("list", "tuple", "sorted", "set", "frozenset") and len(it.args) == 1 and not it.keywords:
        return _enumerates_keys_of(it.args[0], rec)
    if isinstance(it, ast.Call) and isinstance(it.func, ast.Attribute) and it.func.attr == "keys" and not it.args and not it.keywords:
        return dotted_name(it.func.value) == rec
    return dotted_name(it) == rec


def _ser_null_rule(repo: Repo, R: Report) -> None:
    r = R.rule("C06-D2d-ser-optional-section-never-null", "interface between the SER model, the SER schema and the JSONL writer: a top-level SER field that may be None (declared Optional / defaulting to None in SERRecord, or given `.. or None` by the SER builder - `summaries` at trace detail `context`, `error` of a succeeded node, `tags`) and whose schema property does not accept null is removed from the record when it is None on every path to the json.dumps that writes the line (a filtered copy `{k: v .. if v is not None}`, or a guarded removal of that key) - otherwise every SER of such a run carries `\"<field>\": null` and is rejected by the schema", 3)
    registry = _load_schema(repo, "trace_registry_v1.json").get("records", {})
    _req, props = _flatten(repo, _load_schema(repo, registry.get("ser", "x/semantic_execution_record_v1.schema.json").split("/")[-1]))
    ser_cls = repo.cls(MODEL, "SERRecord")
    fields = {st.target.id: st for st in ser_cls.body if isinstance(st, ast.AnnAssign) and isinstance(st.target, ast.Name)}
    nullable: Dict[str, str] = {}
    for k, st in fields.items():
        if (isinstance(st.value, ast.Constant) and st.value.value is None) or _annotation_admits_none(st.annotation):
            nullable[k] = f"SERRecord.{k} is declared `{norm(st.annotation)}`" + (f" = {norm(st.value)}" if st.value is not None else "")
    # what the SER builder visibly hands over: `<x> or None`, `None`, `a if c else None`
    try:
        _mk_rel, mk_qn, mk = _helper_of_execute(repo, _ser_builder_name(repo))
    except AnalysisError:
        mk = None
    if mk is not None:
        for ctor in (c for c in ast.walk(mk) if isinstance(c, ast.Call) and call_attr(c) == "SERRecord"):
            for kw in ctor.keywords:
                v = kw.value
                arms = v.values if isinstance(v, ast.BoolOp) else [v.body, v.orelse] if isinstance(v, ast.IfExp) else [v]
                if kw.arg and kw.arg not in nullable and any(_is_none(a) for a in arms):
                    nullable[kw.arg] = f"{mk_qn} passes `{kw.arg}={norm(v)}`"
        # a declared-optional field that the (only) builder always fills with a display / text is never None in an emitted SER
        ctors = [c for c in ast.walk(mk) if isinstance(c, ast.Call) and call_attr(c) == "SERRecord"]
        for k in list(nullable):
            vals = [kwarg(c, k) for c in ctors]
            if ctors and all(isinstance(v, (ast.Dict, ast.List, ast.JoinedStr)) or (isinstance(v, ast.Constant) and v.value is not None) for v in vals):
                del nullable[k]
    strict = {k: why for k, why in nullable.items() if _admits_null(props.get(k, {})) is False}
    if not strict:
        raise AnalysisError("SER model / schema: no optional top-level field with a non-null schema type found (error, tags, summaries expected)")
    writes = [w for w in _driver_writes(repo) if w.qn.split(".")[-1] == "on_node_event" and w.dumps]
    if not writes:
        raise AnalysisError("on_node_event: no json.dumps whose text is written to the trace file found")
    graphs: Dict[int, CFG] = {}

    def graph(nf: ast.AST) -> CFG:
        if id(nf) not in graphs:
            graphs[id(nf)] = CFG(nf)
        return graphs[id(nf)]

    def purge_nodes(g: CFG, nf: ast.AST, rec: str, key: str) -> Set[int]:
        """CFG nodes after which entry *key* of mapping *rec* is not None: a guarded removal of that key, or a loop
        over the keys of *rec* that removes every None-valued entry."""
        out: Set[int] = set()
        for st in walk_no_nested(nf):
            if isinstance(st, ast.If):
                k = _none_item_test(st.test, rec)
                if isinstance(k, ast.Constant) and k.value == key and any(
                        isinstance(kk := _mapping_key_removal(b, rec), ast.Constant) and kk.value == key for b in st.body):
                    out |= set(g.nodes_for(st))
            elif isinstance(st, ast.For) and not st.orelse and len(st.body) == 1 and isinstance(st.body[0], ast.If) and not st.body[0].orelse:
                inner = st.body[0]
                kvar: Optional[str] = None
                test_ok = False
                if isinstance(st.target, ast.Name) and _enumerates_keys_of(st.iter, rec) and not (isinstance(st.iter, ast.Name) or isinstance(st.iter, ast.Attribute)):
                    kvar = st.target.id
                    k = _none_item_test(inner.test, rec)
                    test_ok = isinstance(k, ast.Name) and k.id == kvar
                elif isinstance(st.target, ast.Tuple) and len(st.target.elts) == 2 and all(isinstance(x, ast.Name) for x in st.target.elts):
                    it = st.iter
                    if isinstance(it, ast.Call) and isinstance(it.func, ast.Name) and it.func.id in ("list", "tuple", "sorted") and len(it.args) == 1:
                        inner_it = it.args[0]
                        if isinstance(inner_it, ast.Call) and isinstance(inner_it.func, ast.Attribute) and inner_it.func.attr == "items" and dotted_name(inner_it.func.value) == rec:
                            kvar = st.target.elts[0].id
                            nt = _none_test(inner.test)
                            test_ok = nt is not None and not nt[1] and ((isinstance(nt[0], ast.Name) and nt[0].id == st.target.elts[1].id) or
                                                                    (isinstance(_none_item_test(inner.test, rec), ast.Name) and _none_item_test(inner.test, rec).id == kvar))
                if kvar and test_ok and any(isinstance(kk := _mapping_key_removal(b, rec), ast.Name) and kk.id == kvar for b in inner.body):
                    out |= set(g.nodes_for(st))
        return out

    def none_free(g: CFG, nf: ast.AST, e: ast.AST, at: List[int], key: str, depth: int = 0) -> Tuple[bool, Optional[ast.AST]]:
        """(entry *key* of the mapping *e*, evaluated at CFG nodes *at*, is absent or not None; the construct that lets None through)."""
        if depth > 6:
            raise AnalysisError(f"on_node_event: the record handed to json.dumps cannot be followed (`{norm(e)[:60]}`)")
        if isinstance(e, ast.DictComp):
            return (True, None) if _filters_items_by_value_only(e) else (False, e)
        if isinstance(e, ast.Dict):
            for k, v in zip(e.keys, e.values):
                if k is None:
                    ok, why = none_free(g, nf, v, at, key, depth + 1)
                    if not ok:
                        return False, why
                elif isinstance(k, ast.Constant) and k.value == key and not (isinstance(v, ast.Constant) and v.value is not None):
                    return False, e
                elif not isinstance(k, ast.Constant):
                    return False, e
            return True, None
        if isinstance(e, ast.Call) and call_name(e) == "dict" and len(e.args) == 1 and not e.keywords and isinstance(e.args[0], (ast.GeneratorExp, ast.ListComp)) \
                and isinstance(e.args[0].elt, ast.Tuple) and len(e.args[0].elt.elts) == 2:
            # dict((k, v) for ..) is the comprehension {k: v for ..}
            pairs = e.args[0]
            return none_free(g, nf, ast.copy_location(ast.DictComp(key=pairs.elt.elts[0], value=pairs.elt.elts[1], generators=pairs.generators), e), at, key, depth + 1)
        if isinstance(e, ast.Call):
            inner = _copied_from(e)
            if inner is not None:
                return none_free(g, nf, inner, at, key, depth + 1)
            a = call_attr(e)
            if a in ("asdict", "vars", "dict", "_asdict"):
                return False, e
            raise AnalysisError(f"on_node_event: the record handed to json.dumps is produced by `{norm(e)[:60]}` (unknown shape)")
        if isinstance(e, ast.Attribute) and e.attr == "__dict__":
            return False, e
        if isinstance(e, ast.Name):
            bad: Optional[ast.AST] = None
            for use in at:
                defs = reaching_defs(g, e.id, use)
                if not defs:
                    raise AnalysisError(f"on_node_event: `{e.id}` handed to json.dumps has no definition in the method (unknown shape)")
                for d in defs:
                    v = d.ast.value if isinstance(d.ast, (ast.Assign, ast.AnnAssign)) and d.kind == "stmt" else None
                    tg = (d.ast.targets if isinstance(d.ast, ast.Assign) else [d.ast.target]) if v is not None else []
                    if v is None or not all(isinstance(t, ast.Name) for t in tg):
                        raise AnalysisError(f"on_node_event: `{e.id}` is bound by `{norm(d.ast)[:60]}` (unknown shape)")
                    ok, why = none_free(g, nf, v, [d.id], key, depth + 1)
                    if ok:
                        continue
                    gates = purge_nodes(g, nf, e.id, key)
                    starts = [t for t, lab in g.succ[d.id] if lab not in (EXC, BASE) and t not in gates]
                    first_hit = [t for t, lab in g.succ[d.id] if lab not in (EXC, BASE) and t in gates]
                    if use in gates or (not starts and first_hit):
                        continue
                    if g.must_pass(starts, [use], lambda n, gs=gates: n.id in gs):
                        bad = bad or why or v
            return (bad is None), bad
        return False, e

    for w in writes:
        g = graph(w.nf)
        for d in w.dumps:
            arg = d.args[0] if d.args else kwarg(d, "obj")
            at = g.nodes_for(stmt_of(d)) if any(x is d for x in ast.walk(w.nf)) else []
            if arg is None or not at:
                raise AnalysisError(f"{w.qn}: the json.dumps that produces the SER line is not a statement of the method's normal form (unknown shape)")
            for key, why_nullable in sorted(strict.items()):
                ok, cause = none_free(g, w.nf, arg, at, key)
                R.check(ok, r, JSONL, w.qn, f"{norm(d)[:60]}: `{key}` left out when None",
                        f"the SER field `{key}` can be None ({why_nullable}) and its schema type is {props[key].get('type')!r} (null not accepted), but the record serialised here keeps the entry when it is None"
                        + (f" (built by `{norm(cause)[:80]}`, no filter / guarded removal of `{key}` on the way)" if cause is not None else "")
                        + f": the line is written with \"{key}\": null and fails schema validation - for `summaries` at trace detail `context` alone, for every SER of the run",
                        getattr(d, "lineno", w.call.lineno))



SANITISERS = {"float", "int", "str", "bool", "len", "repr", "_json_safe_sample", "serialize_json_safe", "safe_repr", "sha256_bytes", "_sha256_json", "hexdigest"}
_SEMID_REL = "semantiva/metadata/semantic_id.py"


def _probe_sanitisers(repo: Repo) -> List[Tuple[str, str]]:
    """(file, name) of the functions that play the role of the leaf sanitiser of the metadata module - found by what they
    do, not by their name or home module: a module-level function with one parameter that hands that parameter to a
    ``json.dumps`` probe and has a ``return <parameter>`` (the value itself when the probe passed), defined in the
    metadata module or called from it.  D2c then decides whether each of them is sound."""
    cached = repo.__dict__.get("_c06_probe_sanitisers")
    if cached is not None:
        return cached
    out: List[Tuple[str, str]] = []
    try:
        smod = repo.module(_SEMID_REL)
    except Exception:
        smod = None

    def has_role(m, f: ast.AST) -> bool:
        if not isinstance(f, FuncNode) or f.args.vararg or f.args.kwarg or f.args.kwonlyargs or len(f.args.posonlyargs) + len(f.args.args) != 1:
            return False
        p = (f.args.posonlyargs + f.args.args)[0].arg
        if not any(isinstance(n, ast.Return) and isinstance(n.value, ast.Name) and n.value.id == p for n in walk_no_nested(f)):
            return False
        for c in calls_in(f):
            a0 = c.args[0] if c.args else kwarg(c, "obj")
            if isinstance(a0, ast.Name) and a0.id == p and _is_json_dumps(repo, m, c):
                return True
        return False

    if smod is not None:
        cands: List[Tuple[object, ast.AST]] = [(smod, f) for q, f in smod.defs.items() if isinstance(f, FuncNode) and "." not in q]
        for q, f in list(smod.defs.items()):
            if not isinstance(f, FuncNode):
                continue
            for c in calls_in(f, include_nested=True):
                if not isinstance(c.func, ast.Name) and not isinstance(c.func, ast.Attribute):
                    continue
                try:
                    cands.extend(t for t in repo.resolve_call(smod, c) if isinstance(t[1], FuncNode) and t[0] is not smod)
                except Exception:
                    pass
        seen: Set[int] = set()
        for m, f in cands:
            if id(f) in seen:
                continue
            seen.add(id(f))
            q = qualname_of(f)
            if "." in q or m.defs.get(q) is not f:
                continue
            if has_role(m, f):
                out.append((m.rel, q))
    repo.__dict__["_c06_probe_sanitisers"] = out
    return out


def _sanitisers(repo: Repo) -> Set[str]:
    return SANITISERS | {q for _r, q in _probe_sanitisers(repo)}


class _Scope:
    """One activation of a function for the JSON-safety argument: the function (a def, a lambda, or None for the
    module level), the argument expressions its parameters stand for (each with the scope it is written in) and, for
    a closure, the scope it was defined in."""

    def __init__(self, repo: Repo, mod, fn: Optional[ast.AST], bound: Optional[Dict[str, Tuple[ast.AST, "_Scope"]]] = None, parent: Optional["_Scope"] = None):
        self.repo, self.mod, self.fn, self.bound, self.parent = repo, mod, fn, dict(bound or {}), parent
        self.params = _param_names(fn) if fn is not None else set()
        self._table: Optional[Dict[str, List[Tuple[str, object]]]] = None

    # -- what the names of this scope are bound to (flow-insensitive: every binding counts) --------------------
    def table(self) -> Dict[str, List[Tuple[str, object]]]:
        """name -> [("value", expr) | ("elem", (expr, path)) | ("def", FunctionDef) | ("grow1", element expr) |
        ("growN", container expr) | ("store", (key expr, value expr)) | ("opaque", node)]"""
        if self._table is not None:
            return self._table
        t: Dict[str, List[Tuple[str, object]]] = {}

        def add(name: str, kind: str, what: object) -> None:
            t.setdefault(name, []).append((kind, what))

        def bind_target(tgt: ast.AST, value: Optional[ast.AST], path: Tuple[int, ...] = ()) -> None:
            if isinstance(tgt, ast.Name):
                if value is None:
                    add(tgt.id, "opaque", tgt)
                elif path:
                    add(tgt.id, "elem", (value, path))
                else:
                    add(tgt.id, "value", value)
            elif isinstance(tgt, (ast.Tuple, ast.List)):
                same_shape = value is not None and not path and isinstance(value, (ast.Tuple, ast.List)) and len(value.elts) == len(tgt.elts) \
                    and not any(isinstance(x, ast.Starred) for x in list(value.elts) + list(tgt.elts))
                for i, el in enumerate(tgt.elts):
                    if isinstance(el, ast.Starred):
                        bind_target(el.value, None)
                    elif same_shape:
                        bind_target(el, value.elts[i])
                    else:
                        bind_target(el, value, path + (i,))
            elif isinstance(tgt, ast.Subscript) and isinstance(tgt.value, ast.Name):
                if value is not None and not path:
                    add(tgt.value.id, "store", (tgt.slice, value))
                else:
                    add(tgt.value.id, "opaque", tgt)

        def rec(n: ast.AST, top: bool, nested: bool) -> None:
            if isinstance(n, FuncNode + (ast.ClassDef,)) and not top:
                if not nested:
                    add(n.name, "def" if isinstance(n, FuncNode) else "opaque", n)
                nested = True  # mutations of this scope's containers inside a nested def are not followed
            if isinstance(n, ast.Lambda):
                nested = True
            if not nested:
                if isinstance(n, ast.Assign):
                    for tg in n.targets:
                        bind_target(tg, n.value)
                elif isinstance(n, ast.AnnAssign) and n.value is not None:
                    bind_target(n.target, n.value)
                elif isinstance(n, ast.AugAssign):
                    if isinstance(n.target, ast.Name):
                        add(n.target.id, "growN" if isinstance(n.op, ast.Add) else "opaque", n.value if isinstance(n.op, ast.Add) else n)
                    elif isinstance(n.target, ast.Subscript) and isinstance(n.target.value, ast.Name):
                        add(n.target.value.id, "opaque", n)
                elif isinstance(n, (ast.For, ast.AsyncFor)):
                    for x in ast.walk(n.target):
                        if isinstance(x, ast.Name):
                            add(x.id, "iter", n.iter)
                elif isinstance(n, (ast.With, ast.AsyncWith)):
                    for it in n.items:
                        if it.optional_vars is not None:
                            bind_target(it.optional_vars, None)
                elif isinstance(n, ast.ExceptHandler) and n.name:
                    add(n.name, "opaque", n)
                elif isinstance(n, ast.NamedExpr):
                    add(n.target.id, "value", n.value)
                elif isinstance(n, (ast.Import, ast.ImportFrom)) and self.fn is not None:
                    for al in n.names:
                        add((al.asname or al.name).split(".")[0], "opaque", n)
                elif isinstance(n, (ast.MatchAs, ast.MatchStar)) and n.name:
                    add(n.name, "opaque", n)
                elif isinstance(n, ast.MatchMapping) and n.rest:
                    add(n.rest, "opaque", n)
            if isinstance(n, ast.Call) and isinstance(n.func, ast.Attribute) and isinstance(n.func.value, ast.Name):
                nm, a = n.func.value.id, n.func.attr
                args = list(n.args)
                if nested:
                    if a in ("append", "extend", "insert", "update", "setdefault", "add", "__setitem__", "appendleft"):
                        add(nm, "opaque", n)
                elif a in ("append", "appendleft") and len(args) == 1:
                    add(nm, "grow1", args[0])
                elif a == "insert" and len(args) == 2:
                    add(nm, "grow1", args[1])
                elif a == "extend" and len(args) == 1:
                    add(nm, "growN", args[0])
                elif a == "update":
                    for x in args:
                        add(nm, "growN", x)
                    for k in n.keywords:
                        add(nm, "grow1" if k.arg is not None else "growN", k.value)
                elif a in ("setdefault", "__setitem__") and len(args) == 2:
                    add(nm, "store", (args[0], args[1]))
            for c in ast.iter_child_nodes(n):
                rec(c, False, nested)

        if self.fn is None:
            for st in self.mod.tree.body:
                rec(st, False, False)
        elif isinstance(self.fn, ast.Lambda):
            pass
        else:
            rec(self.fn, True, False)
        # comprehension targets are not bindings of the function scope
        self._table = t
        return t

    def lookup(self, name: str) -> Tuple[Optional["_Scope"], List[Tuple[str, object]]]:
        """(scope the name lives in, its bindings); a parameter with a known argument is ("arg", (expr, scope))."""
        sc: Optional[_Scope] = self
        while sc is not None:
            entries = sc.table().get(name)
            if name in sc.params:
                if name in sc.bound:
                    return sc, [("arg", sc.bound[name])] + [e for e in (entries or [])]
                return sc, [("param", name)] + [e for e in (entries or [])]
            if entries:
                return sc, entries
            if sc.parent is None and sc.fn is not None:
                sc = _Scope(sc.repo, sc.mod, None)  # module level
            else:
                sc = sc.parent
        return None, []

    def child(self, fn: ast.AST, call: Optional[ast.Call], parent: Optional["_Scope"], mod=None) -> "_Scope":
        bound: Dict[str, Tuple[ast.AST, _Scope]] = {}
        if call is not None and not isinstance(fn, ast.Lambda):
            b = _bind_params(fn, call)
            if b is not None:
                bound = {k: (v, self) for k, v in b.items()}
        elif call is not None:
            pos = [x.arg for x in fn.args.posonlyargs + fn.args.args]
            if not any(isinstance(x, ast.Starred) for x in call.args) and len(call.args) <= len(pos):
                bound = {k: (v, self) for k, v in zip(pos, call.args)}
                bound.update({k.arg: (k.value, self) for k in call.keywords if k.arg is not None})
        return _Scope(self.repo, mod or self.mod, fn, bound, parent)


def _in_comprehension_hidden(hidden: frozenset, e: ast.AST) -> frozenset:
    return hidden | frozenset(_comp_targets(e))


class _JsonSafe:
    """Is a value JSON-encodable by construction?  Literals, results of the sanitiser table, containers of those,
    and whatever locals / parameters / helper calls (closures, lambdas, module functions, entries of a dispatch
    table) stand for - followed through every binding of a name (flow-insensitive: all of them must be safe)."""

    def __init__(self, repo: Repo):
        self.repo = repo
        self.active: Set[Tuple[int, int]] = set()
        self.why: Optional[ast.AST] = None

    # -- callables ---------------------------------------------------------------------------------------
    def callables(self, f: ast.AST, sc: _Scope, depth: int = 0) -> Optional[List[Tuple[ast.AST, Optional[_Scope], object]]]:
        """What the expression *f* in call position may denote: [(def or lambda, defining scope or None for a module
        function, module)] - None when it cannot be told."""
        if depth > 6:
            return None
        if isinstance(f, ast.Lambda):
            return [(f, sc, sc.mod)]
        if isinstance(f, ast.IfExp):
            a, b = self.callables(f.body, sc, depth + 1), self.callables(f.orelse, sc, depth + 1)
            return None if a is None or b is None else a + b
        if isinstance(f, ast.BoolOp) and isinstance(f.op, ast.Or):
            out = []
            for v in f.values:
                if isinstance(v, ast.Constant) and v.value is None:
                    continue
                sub = self.callables(v, sc, depth + 1)
                if sub is None:
                    return None
                out += sub
            return out
        if isinstance(f, ast.Constant) and f.value is None:
            return []  # calling None raises: no value is returned
        # an entry of a dispatch table: T[k] / T.get(k) / T.get(k, default)
        table = default = None
        if isinstance(f, ast.Subscript):
            table = f.value
        elif isinstance(f, ast.Call) and isinstance(f.func, ast.Attribute) and f.func.attr == "get" and 1 <= len(f.args) <= 2 and not f.keywords:
            table = f.func.value
            default = f.args[1] if len(f.args) == 2 else None
        if table is not None:
            entries = self.mapping_values(table, sc, depth + 1)
            if entries is None:
                return None
            out = []
            for v, vsc in entries + ([(default, sc)] if default is not None else []):
                sub = self.callables(v, vsc, depth + 1)
                if sub is None:
                    return None
                out += sub
            return out
        if isinstance(f, ast.Name):
            owner, entries = sc.lookup(f.id)
            if owner is not None:
                out = []
                for kind, what in entries:
                    if kind == "def":
                        out.append((what, owner, owner.mod))
                    elif kind == "value":
                        sub = self.callables(what, owner, depth + 1)
                        if sub is None:
                            return None
                        out += sub
                    elif kind == "arg":
                        sub = self.callables(what[0], what[1], depth + 1)
                        if sub is None:
                            return None
                        out += sub
                    else:
                        return None
                return out
        if isinstance(f, (ast.Name, ast.Attribute)):
            probe = ast.Call(func=f, args=[], keywords=[])
            try:
                targets = self.repo.resolve_call(sc.mod, probe) if not isinstance(f, ast.Name) else ([r] if (r := self.repo.resolve_name(sc.mod, f, sc.fn if sc.fn is not None and not isinstance(sc.fn, ast.Lambda) else None)) else [])
            except Exception:
                targets = []
            targets = [t for t in targets if isinstance(t[1], FuncNode)]
            if targets:
                return [(fn_, None, m_) for m_, fn_ in targets]
        return None

    def mapping_values(self, e: ast.AST, sc: _Scope, depth: int = 0) -> Optional[List[Tuple[ast.AST, _Scope]]]:
        """The values of a mapping built from a display / dict(k=v) (through names); None when unknown."""
        if depth > 6:
            return None
        if isinstance(e, ast.Dict):
            out = []
            for k, v in zip(e.keys, e.values):
                if k is None:
                    sub = self.mapping_values(v, sc, depth + 1)
                    if sub is None:
                        return None
                    out += sub
                else:
                    out.append((v, sc))
            return out
        if isinstance(e, ast.Call) and call_name(e) == "dict" and not e.args and all(k.arg is not None for k in e.keywords):
            return [(k.value, sc) for k in e.keywords]
        if isinstance(e, ast.Name):
            owner, entries = sc.lookup(e.id)
            if owner is None:
                return None
            out = []
            for kind, what in entries:
                if kind == "value":
                    sub = self.mapping_values(what, owner, depth + 1)
                elif kind == "arg":
                    sub = self.mapping_values(what[0], what[1], depth + 1)
                elif kind == "store":
                    sub = [(what[1], owner)]
                elif kind == "growN":
                    sub = self.mapping_values(what, owner, depth + 1)
                else:
                    sub = None
                if sub is None:
                    return None
                out += sub
            return out
        return None

    def call_scopes(self, call: ast.Call, sc: _Scope) -> Optional[List[_Scope]]:
        """Activations *call* may start (repo functions, closures, lambdas); None when the callee is not known."""
        cs = self.callables(call.func, sc)
        if cs is None:
            return None
        out = []
        for fn_, defsc, m_ in cs:
            if defsc is None and isinstance(fn_, FuncNode):
                # a module-level function / method: analysed on its normal form
                try:
                    nf = nfunc(self.repo, m_.rel, qualname_of(fn_), keep=tuple(sorted(_sanitisers(self.repo))))
                except Exception:
                    nf = fn_
                out.append(sc.child(nf, call, None, m_))
            else:
                out.append(sc.child(fn_, call, defsc, m_))
        return out

    def returns(self, sc: _Scope) -> List[ast.AST]:
        if isinstance(sc.fn, ast.Lambda):
            return [sc.fn.body]
        return [r.value if r.value is not None else ast.Constant(value=None) for r in walk_no_nested(sc.fn) if isinstance(r, ast.Return)]

    # -- values ------------------------------------------------------------------------------------------
    def safe(self, e: Optional[ast.AST], sc: _Scope, hidden: frozenset = frozenset(), depth: int = 0) -> bool:
        ok = self._safe(e, sc, hidden, depth)
        if not ok and self.why is None:
            self.why = e
        return ok

    def _safe(self, e: Optional[ast.AST], sc: _Scope, hidden: frozenset, depth: int) -> bool:
        if e is None or depth > 24:
            return False
        if isinstance(e, (ast.Constant, ast.JoinedStr, ast.Compare)):
            return not (isinstance(e, ast.Constant) and isinstance(e.value, (bytes, complex, type(Ellipsis))))
        if isinstance(e, ast.Attribute):
            return e.attr in ("__name__", "__qualname__", "__module__")
        if isinstance(e, ast.UnaryOp) and isinstance(e.op, ast.Not):
            return True
        if isinstance(e, (ast.Starred, ast.NamedExpr)):
            return self.safe(e.value, sc, hidden, depth + 1)
        if isinstance(e, ast.IfExp):
            return self.safe(e.body, sc, hidden, depth + 1) and self.safe(e.orelse, sc, hidden, depth + 1)
        if isinstance(e, ast.BoolOp):
            return all(self.safe(v, sc, hidden, depth + 1) for v in e.values)
        if isinstance(e, ast.BinOp) and isinstance(e.op, (ast.Add, ast.BitOr)):
            return self.safe(e.left, sc, hidden, depth + 1) and self.safe(e.right, sc, hidden, depth + 1)
        if isinstance(e, ast.Dict):
            return all((self.safe(v, sc, hidden, depth + 1) if k is None else (self._text_key(k, sc, hidden, depth) and self.safe(v, sc, hidden, depth + 1))) for k, v in zip(e.keys, e.values))
        if isinstance(e, (ast.List, ast.Tuple)):
            return all(self.safe(v, sc, hidden, depth + 1) for v in e.elts)
        if isinstance(e, (ast.ListComp, ast.GeneratorExp)):
            return self.safe(e.elt, sc, _in_comprehension_hidden(hidden, e), depth + 1)
        if isinstance(e, ast.DictComp):
            h = _in_comprehension_hidden(hidden, e)
            return self._text_key(e.key, sc, h, depth) and self.safe(e.value, sc, h, depth + 1)
        if isinstance(e, ast.Subscript):
            # an item / a slice of a JSON-safe container is JSON-safe
            return self.safe(e.value, sc, hidden, depth + 1)
        if isinstance(e, ast.Call):
            a = call_attr(e)
            if a in _sanitisers(self.repo):
                return True
            if a == "getattr" and len(e.args) == 3:
                return False
            if a in ("list", "sorted", "tuple", "reversed") and len(e.args) >= 1 and isinstance(e.func, ast.Name):
                return self.safe(e.args[0], sc, hidden, depth + 1)
            if a == "dict" and isinstance(e.func, ast.Name):
                return all(self.safe(x, sc, hidden, depth + 1) for x in e.args) and all(self.safe(k.value, sc, hidden, depth + 1) for k in e.keywords)
            if a == "copy" and isinstance(e.func, ast.Attribute) and not e.args:
                return self.safe(e.func.value, sc, hidden, depth + 1)
            if a == "get" and isinstance(e.func, ast.Attribute) and 1 <= len(e.args) <= 2:
                return self.safe(e.func.value, sc, hidden, depth + 1) and all(self.safe(x, sc, hidden, depth + 1) for x in e.args[1:])
            if any(n_.id in hidden for n_ in ast.walk(e.func) if isinstance(n_, ast.Name)):
                return False
            scopes = self.call_scopes(e, sc)
            if not scopes:
                return False
            for csc in scopes:
                key = (id(csc.fn), id(sc.fn))
                if key in self.active:
                    continue
                self.active.add(key)
                try:
                    rets = self.returns(csc)
                    if not rets or not all(self.safe(rv, csc, frozenset(), depth + 1) for rv in rets):
                        return False
                finally:
                    self.active.discard(key)
            return True
        if isinstance(e, ast.Name):
            if e.id in hidden:
                return False
            return self.name_safe(e.id, sc, (), depth)
        return False

    def _text_key(self, k: ast.AST, sc: _Scope, hidden: frozenset, depth: int) -> bool:
        if isinstance(k, ast.Constant):
            return isinstance(k.value, (str, int, float, bool)) or k.value is None
        if isinstance(k, ast.JoinedStr):
            return True
        if isinstance(k, ast.Call) and call_attr(k) in ("str", "repr", "safe_repr") and isinstance(k.func, ast.Name):
            return True
        if isinstance(k, ast.Attribute):
            return k.attr in ("__name__", "__qualname__", "__module__")
        if isinstance(k, ast.Name) and k.id not in hidden:
            owner, entries = sc.lookup(k.id)
            return owner is not None and bool(entries) and all(kind == "value" and self._text_key(what, owner, frozenset(), depth + 1) for kind, what in entries) and depth < 12
        return False

    def name_safe(self, name: str, sc: _Scope, path: Tuple[int, ...], depth: int) -> bool:
        owner, entries = sc.lookup(name)
        if owner is None or not entries:
            return False
        key = (id(owner.fn), hash(("name", name, path)))
        if key in self.active:
            return True  # a value built from itself (`acc = acc + [x]`): decided by its other ingredients
        self.active.add(key)
        try:
            for kind, what in entries:
                if kind == "value":
                    ok = self.elem_safe(what, owner, path, depth + 1)
                elif kind == "elem":
                    ok = self.elem_safe(what[0], owner, tuple(what[1]) + path, depth + 1)
                elif kind == "arg":
                    ok = self.elem_safe(what[0], what[1], path, depth + 1)
                elif kind == "grow1":
                    ok = self.safe(what, owner, frozenset(), depth + 1)
                elif kind == "growN":
                    ok = self.safe(what, owner, frozenset(), depth + 1)
                elif kind == "store":
                    ok = self._text_key(what[0], owner, frozenset(), depth) and self.safe(what[1], owner, frozenset(), depth + 1)
                elif kind == "iter":  # the items of a JSON-safe container are JSON-safe
                    ok = not path and self.safe(what, owner, frozenset(), depth + 1)
                else:  # param without a known argument, with / except target, nested def ...
                    ok = False
                if not ok:
                    return False
            return True
        finally:
            self.active.discard(key)

    def elem_safe(self, e: ast.AST, sc: _Scope, path: Tuple[int, ...], depth: int) -> bool:
        """Is ``e[path[0]][path[1]]..`` JSON-safe (an unpacked element of a tuple-valued expression)?"""
        if not path:
            return self.safe(e, sc, frozenset(), depth)
        if isinstance(e, (ast.Tuple, ast.List)) and not any(isinstance(x, ast.Starred) for x in e.elts) and path[0] < len(e.elts):
            return self.elem_safe(e.elts[path[0]], sc, path[1:], depth + 1)
        if isinstance(e, ast.IfExp):
            return self.elem_safe(e.body, sc, path, depth + 1) and self.elem_safe(e.orelse, sc, path, depth + 1)
        if isinstance(e, ast.Name):
            return self.name_safe(e.id, sc, path, depth + 1)
        if isinstance(e, ast.Call) and call_attr(e) not in _sanitisers(self.repo):
            scopes = self.call_scopes(e, sc)
            if scopes:
                ok = True
                for csc in scopes:
                    rets = self.returns(csc)
                    ok = ok and bool(rets) and all(self.elem_safe(rv, csc, path, depth + 1) for rv in rets)
                return ok
        # an element of a value that is safe as a whole is safe
        return self.safe(e, sc, frozenset(), depth)

    # -- the mappings a function returns -------------------------------------------------------------------
    def returned_mappings(self, sc: _Scope, depth: int = 0, _seen: Optional[Set[int]] = None) -> List[Tuple[str, ast.AST, _Scope, List[Tuple[ast.AST, ast.AST]]]]:
        """[("dict", display, scope, later stores) | ("other", expr, scope, [])]: every value the activation may
        return, followed through locals, conditional expressions and calls whose callee is known."""
        _seen = _seen if _seen is not None else set()
        out: List[Tuple[str, ast.AST, _Scope, List[Tuple[ast.AST, ast.AST]]]] = []

        def expand(e: ast.AST, s: _Scope, d: int) -> None:
            if d > 12:
                out.append(("other", e, s, []))
                return
            if isinstance(e, ast.Dict) and not any(k is None for k in e.keys):
                out.append(("dict", e, s, []))
            elif isinstance(e, ast.Call) and call_name(e) == "dict" and not e.args and e.keywords and all(k.arg is not None for k in e.keywords):
                lit = ast.Dict(keys=[ast.Constant(value=k.arg) for k in e.keywords], values=[k.value for k in e.keywords])
                ast.copy_location(lit, e)
                out.append(("dict", lit, s, []))
            elif isinstance(e, ast.IfExp):
                expand(e.body, s, d + 1)
                expand(e.orelse, s, d + 1)
            elif isinstance(e, ast.Name):
                owner, entries = s.lookup(e.id)
                if owner is None or not entries or any(kind not in ("value", "arg", "store") for kind, _w in entries):
                    out.append(("other", e, s, []))
                    return
                stores = [what for kind, what in entries if kind == "store"]
                before = len(out)
                for kind, what in entries:
                    if kind == "value":
                        expand(what, owner, d + 1)
                    elif kind == "arg":
                        expand(what[0], what[1], d + 1)
                if stores:
                    for i in range(before, len(out)):
                        k_, e_, s_, st_ = out[i]
                        out[i] = (k_, e_, s_, st_ + [(a, b, owner) for a, b in stores]) if k_ == "dict" and s_ is owner else ("other", e, s, [])
            elif isinstance(e, ast.Call) and call_attr(e) not in _sanitisers(self.repo):
                scopes = self.call_scopes(e, s)
                if not scopes:
                    out.append(("other", e, s, []))
                    return
                for csc in scopes:
                    if id(csc.fn) in _seen:
                        continue
                    _seen.add(id(csc.fn))
                    out.extend(self.returned_mappings(csc, depth + 1, _seen))
            else:
                out.append(("other", e, s, []))

        for rv in self.returns(sc):
            expand(rv, sc, depth)
        return out


def _json_safety_rules(repo: Repo, R: Report, fallback_pops) -> None:
    r = R.rule("C06-D2b-json-safe-before-emit", "values that reach pipeline_start are JSON-safe by construction, so the driver's TypeError fallback (which drops the required pipeline_spec_canonical) is unreachable: canonical nodes are json-dumped when built, and every leaf of a sweep variable's domain signature passes a sanitiser", 6)
    SEM = "semantiva/metadata/semantic_id.py"
    repo.func(SEM, "variable_domain_signature")
    smod = repo.module(SEM)
    vds = nfunc(repo, SEM, "variable_domain_signature", keep=tuple(sorted(_sanitisers(repo))))
    J = _JsonSafe(repo)
    root = _Scope(repo, smod, vds)
    entry_param = vds.args.args[0].arg if vds.args.args else None
    n_leaves = 0

    def is_entry_argument(v: ast.AST, sc: _Scope, depth: int = 0) -> bool:
        """The value is the object variable_domain_signature was called with (through parameters of helpers)."""
        if not isinstance(v, ast.Name) or depth > 6:
            return False
        owner, entries = sc.lookup(v.id)
        if owner is None or len(entries) != 1:
            return False
        kind, what = entries[0]
        if kind == "param":
            return owner.fn is vds and what == entry_param
        if kind == "arg":
            return is_entry_argument(what[0], what[1], depth + 1)
        if kind == "value":
            return is_entry_argument(what, owner, depth + 1)
        return False

    def context_key_of_entry(v: ast.AST, sc: _Scope, depth: int = 0) -> bool:
        """getattr(<the spec>, "key", <default>): the context key of a from_context variable, a mapping key of the YAML (text)."""
        if isinstance(v, ast.Name) and depth < 6:
            owner, entries = sc.lookup(v.id)
            return owner is not None and len(entries) == 1 and entries[0][0] in ("value", "arg") and (
                context_key_of_entry(entries[0][1], owner, depth + 1) if entries[0][0] == "value" else context_key_of_entry(entries[0][1][0], entries[0][1][1], depth + 1))
        return isinstance(v, ast.Call) and call_name(v) == "getattr" and len(v.args) in (2, 3) and isinstance(v.args[1], ast.Constant) and v.args[1].value == "key" and is_entry_argument(v.args[0], sc)

    for kind, e, sc, stores in J.returned_mappings(root):
        where = getattr(sc.fn, "name", "<lambda>") if sc.fn is not vds else "variable_domain_signature"
        qn = "variable_domain_signature" if sc.fn is vds else f"variable_domain_signature -> {where}"
        if kind != "dict":
            if isinstance(e, ast.Call) and J.call_scopes(e, sc) is None:
                raise AnalysisError(f"variable_domain_signature: what `{norm(e)[:70]}` returns cannot be followed (callee unknown)")
            n_leaves += 1
            J.why = None
            R.check(J.safe(e, sc), r, SEM, qn, f"returned: {norm(e)[:70]}",
                    "the domain signature is not a mapping built from sanitised leaves: a raw configuration value is attached to pipeline_start and hashed/serialised in SER construction: json.dumps raises TypeError", getattr(e, "lineno", vds.lineno))
            continue
        items = [(k, v, sc) for k, v in zip(e.keys, e.values)] + [(k, v, s2) for k, v, s2 in stores]
        for k, v, s2 in items:
            kname = k.value if isinstance(k, ast.Constant) else "?"
            if kname == "key" and context_key_of_entry(v, s2):
                continue
            if is_entry_argument(v, s2):
                continue
            n_leaves += 1
            J.why = None
            ok = J.safe(v, s2)
            R.check(ok, r, SEM, qn, f"{kname!r}: {norm(v)[:70]}",
                    "a raw configuration value (e.g. a YAML date in a sweep sequence) is embedded unsanitised in metadata that is attached to pipeline_start and hashed/serialised in SER construction: json.dumps raises TypeError (traced run fails, or pipeline_start loses its required pipeline_spec_canonical)"
                    + (f" [unsanitised: `{norm(J.why)[:60]}`]" if not ok and J.why is not None and J.why is not v else ""), getattr(v, "lineno", vds.lineno))
    if n_leaves == 0:
        raise AnalysisError("variable_domain_signature: no returned mappings recognised")
    bcs = repo.func(GRAPH, "build_canonical_spec")
    ok, why = _nodes_serialised_when_built(repo)
    R.check(ok, r, GRAPH, "build_canonical_spec", "json.dumps(canon) precedes nodes.append(...)", "canonical nodes are no longer serialised when built: a non-JSON parameter is only discovered when the trace is written" + (f" ({why})" if why else ""), bcs.lineno)
    for qn, c, k in fallback_pops:
        R.ok(r, JSONL, qn, norm(c), f"fallback drops required key {k!r}; unreachable while the producers above hold", c.lineno)



# ---------------------------------------------------------------------------
# D2c: the sanitisers the JSON-safety argument rests on are sound
# ---------------------------------------------------------------------------

UTILS = "semantiva/trace/_utils.py"
SEMID = "semantiva/metadata/semantic_id.py"
# (file, function): what the orchestrator / metadata code passes every free-form value through before it enters a record
SANITISER_FUNCS = [(UTILS, "serialize_json_safe"), (UTILS, "safe_repr"), (SEMID, "_json_safe_sample")]
JSON_SCALAR_TYPES = {"str", "int", "float", "bool", "NoneType"}
TEXT_CALLS = {"str", "repr", "ascii", "format", "safe_repr", "hex", "oct", "bin", "chr"}
TEXT_METHODS_ALWAYS = {"join", "format", "format_map", "hexdigest", "isoformat"}
TEXT_METHODS_OF_TEXT = {"strip", "lstrip", "rstrip", "lower", "upper", "replace", "title", "capitalize", "ljust", "rjust", "center", "removeprefix", "removesuffix",
                        "zfill", "expandtabs", "casefold", "swapcase", "translate"}
SAFE_CALLS = {"int", "float", "bool", "len", "round", "abs", "sha256_bytes", "_sha256_json", "serialize_json_safe", "_json_safe_sample"}
PERMISSIVE_DUMPS_KW = {"default", "cls", "skipkeys"}


def _sanitiser_funcs(repo: Repo) -> List[Tuple[str, str]]:
    """The sanitiser functions D2c / D4c analyse: the two public ones of the trace utilities and whatever plays the role
    of the metadata module's probe sanitiser (found by role; the historical name is kept when it still exists)."""
    out = [x for x in SANITISER_FUNCS if x[0] != SEMID]
    found = [x for x in _probe_sanitisers(repo) if x not in out]
    out += found
    for rel, qn in SANITISER_FUNCS:
        if rel == SEMID and (rel, qn) not in out and (not found or repo.maybe_func(rel, qn) is not None):
            out.append((rel, qn))
    return out


def _safe_calls(repo: Repo) -> Set[str]:
    return SAFE_CALLS | {q for _r, q in _probe_sanitisers(repo)}


def _type_names(mod, e: ast.AST, depth: int = 0) -> Optional[Set[str]]:
    """The classes a type expression (second argument of isinstance) denotes: builtin names, tuples, ``a + b`` of
    tuples, ``type(None)``, module-level names bound once to such an expression; None when unknown."""
    if depth > 6:
        return None
    if isinstance(e, ast.Call) and call_name(e) == "type" and len(e.args) == 1 and isinstance(e.args[0], ast.Constant) and e.args[0].value is None:
        return {"NoneType"}
    if isinstance(e, ast.Attribute) and e.attr == "NoneType":
        return {"NoneType"}
    if isinstance(e, ast.Tuple):
        out: Set[str] = set()
        for x in e.elts:
            sub = _type_names(mod, x, depth + 1)
            if sub is None:
                return None
            out |= sub
        return out
    if isinstance(e, ast.BinOp) and isinstance(e.op, (ast.Add, ast.BitOr)):
        l, r_ = _type_names(mod, e.left, depth + 1), _type_names(mod, e.right, depth + 1)
        return None if l is None or r_ is None else l | r_
    if isinstance(e, ast.Constant) and e.value is None:
        return {"NoneType"}
    if isinstance(e, ast.Name):
        vals = [st.value for st in mod.tree.body if isinstance(st, (ast.Assign, ast.AnnAssign)) and st.value is not None
                and any(isinstance(t, ast.Name) and t.id == e.id for t in (st.targets if isinstance(st, ast.Assign) else [st.target]))]
        if len(vals) == 1:
            return _type_names(mod, vals[0], depth + 1)
        if vals or e.id in mod.imports or e.id in mod.defs:
            return None
        return {e.id}
    return None


class _Sanitiser:
    """One sanitiser function on its normal form: which of the values it returns are JSON-encodable for sure."""

    def __init__(self, repo: Repo, rel: str, qn: str, depth: int = 0):
        self.repo, self.rel, self.qn, self.depth = repo, rel, qn, depth
        self.mod = repo.module(rel)
        self.raw_fn = repo.func(rel, qn)
        self.fn = nfunc(repo, rel, qn, ifexp=False)
        self.g = CFG(self.fn)
        self.V = _Vals(self.g, self.fn)

    # -- is this expression the (unmodified) parameter? ---------------------------------------------------
    def param_of(self, e: ast.AST, site) -> Optional[str]:
        alts = self.V.resolve(e, site)
        if len(alts) == 1 and isinstance(alts[0], ast.Name) and alts[0].id.endswith("@param"):
            return alts[0].id
        return None

    # -- tests that prove encodability ----------------------------------------------------------------------
    def _scalar_test(self, t: ast.AST, is_subject) -> bool:
        """``isinstance(<subject>, <JSON scalar types>)`` / ``<subject> is None`` / ``type(<subject>) in (...)``."""
        if isinstance(t, ast.Call) and call_name(t) == "isinstance" and len(t.args) == 2 and not t.keywords and is_subject(t.args[0]):
            names = _type_names(self.mod, t.args[1])
            return bool(names) and names <= JSON_SCALAR_TYPES
        if isinstance(t, ast.Compare) and len(t.ops) == 1:
            left, op, right = t.left, t.ops[0], t.comparators[0]
            if isinstance(op, ast.Is) and isinstance(right, ast.Constant) and right.value is None and is_subject(left):
                return True
            if isinstance(op, (ast.In, ast.Is, ast.Eq)) and isinstance(left, ast.Call) and call_name(left) == "type" and len(left.args) == 1 and is_subject(left.args[0]):
                names = _type_names(self.mod, right)
                return bool(names) and names <= JSON_SCALAR_TYPES
        return False

    def _all_items(self, t: ast.AST, is_subject, want_types: Set[str]) -> bool:
        """``all(<scalar test of the item> for <item> in <subject>[.items()/.values()])``."""
        if not (isinstance(t, ast.Call) and call_name(t) == "all" and len(t.args) == 1 and not t.keywords and isinstance(t.args[0], (ast.GeneratorExp, ast.ListComp))):
            return False
        comp = t.args[0]
        if len(comp.generators) != 1 or comp.generators[0].ifs or comp.generators[0].is_async:
            return False
        gen = comp.generators[0]
        if "dict" in want_types:
            if not (isinstance(gen.iter, ast.Call) and call_attr(gen.iter) == "items" and isinstance(gen.iter.func, ast.Attribute) and is_subject(gen.iter.func.value) and not gen.iter.args):
                return False
            if not (isinstance(gen.target, ast.Tuple) and len(gen.target.elts) == 2 and all(isinstance(x, ast.Name) for x in gen.target.elts)):
                return False
            k, v = gen.target.elts[0].id, gen.target.elts[1].id
            if not (isinstance(comp.elt, ast.BoolOp) and isinstance(comp.elt.op, ast.And)):
                return False
            key_ok = any(isinstance(c, ast.Call) and call_name(c) == "isinstance" and len(c.args) == 2 and isinstance(c.args[0], ast.Name) and c.args[0].id == k
                         and _type_names(self.mod, c.args[1]) == {"str"} for c in comp.elt.values)
            val_ok = any(self._scalar_test(c, lambda x: isinstance(x, ast.Name) and x.id == v) for c in comp.elt.values)
            return key_ok and val_ok
        if not (is_subject(gen.iter) and isinstance(gen.target, ast.Name)):
            return False
        item = gen.target.id
        return self._scalar_test(comp.elt, lambda x: isinstance(x, ast.Name) and x.id == item)

    def proves(self, test: ast.AST, is_subject) -> Optional[bool]:
        """atom for cfg.edges_guaranteeing: True when *test* being true means the subject is JSON-encodable."""
        if self._scalar_test(test, is_subject):
            return True
        if isinstance(test, ast.Call) and isinstance(test.func, ast.Name) and len(test.args) == 1 and not test.keywords and is_subject(test.args[0]) \
                and self._predicate_proves(test.func.id):
            return True
        if isinstance(test, ast.BoolOp) and isinstance(test.op, ast.And):
            for c in test.values:
                if isinstance(c, ast.Call) and call_name(c) == "isinstance" and len(c.args) == 2 and is_subject(c.args[0]):
                    names = _type_names(self.mod, c.args[1])
                    if names and (names <= {"list", "tuple"} or names == {"dict"}) and any(self._all_items(o, is_subject, names) for o in test.values if o is not c):
                        return True
        return None

    def _predicate_proves(self, name: str) -> bool:
        """A predicate of the same module (``def _is_jsonable(v): ...``): every return of a true value happens after
        a proof that its argument is JSON-encodable, so the predicate being true is such a proof."""
        from ..cfg import edges_guaranteeing
        d = self.mod.defs.get(name)
        if not isinstance(d, ast.FunctionDef) or self.depth >= 3:
            return False
        pos = [a.arg for a in d.args.posonlyargs + d.args.args]
        if not pos:
            return False
        memo = self.repo.__dict__.setdefault("_c06_predicates", {})
        key = (self.rel, name)
        if key in memo:
            return memo[key]
        memo[key] = False  # recursion: not a proof
        P = _Sanitiser(self.repo, self.rel, name, depth=self.depth + 1)
        ptag = f"{pos[0]}@param"
        blocked = P.proof_edges(ptag)
        seen = P.g.reach([P.g.entry], blocked_edges=blocked)
        ok = True
        n_true = 0
        for n in P.g.nodes:
            if not (n.kind == "stmt" and isinstance(n.ast, ast.Return)):
                continue
            v = n.ast.value
            if v is None or (isinstance(v, ast.Constant) and not v.value):
                continue
            n_true += 1
            if n.id not in seen:
                continue
            subj = lambda x, nid=n.id: P.param_of(x, [nid]) == ptag
            if not isinstance(v, ast.Constant) and "T" in edges_guaranteeing(v, lambda t: P.proves(t, subj)):
                continue
            ok = False
        memo[key] = ok and n_true > 0
        return memo[key]

    # -- proof edges on the CFG ----------------------------------------------------------------------------
    def proof_edges(self, ptag: str) -> Set[Tuple[int, str]]:
        from ..cfg import edges_guaranteeing
        g = self.g
        out: Set[Tuple[int, str]] = set()
        for n in g.nodes:
            if n.ast is None:
                continue
            subj = lambda x, nid=n.id: self.param_of(x, [nid]) == ptag
            if n.kind == "stmt" and not isinstance(n.ast, FuncNode + (ast.ClassDef,)):
                for c in calls_in(n.ast):
                    if _is_json_dumps(self.repo, self.mod, c) and (c.args or kwarg(c, "obj") is not None) and not any(k.arg in PERMISSIVE_DUMPS_KW or k.arg is None for k in c.keywords):
                        a0 = c.args[0] if c.args else kwarg(c, "obj")
                        if subj(a0):
                            out |= {(n.id, lab) for _t, lab in g.succ[n.id] if lab not in (EXC, BASE)}
            elif n.kind in ("if", "while") and n.part is not None:
                for lab in edges_guaranteeing(n.part, lambda t: self.proves(t, subj)):
                    out.add((n.id, lab))
        return out

    # -- classification of a returned value ----------------------------------------------------------------
    def classify(self, e: ast.AST, site, depth: int = 0) -> Set[str]:
        """{'text', 'safe', 'raw:<param>', '?<source>'} over the alternatives of *e*."""
        out: Set[str] = set()
        for alt in self.V.resolve(e, site):
            out |= self._cls(alt, site, depth)
        return out

    def _cls(self, e: ast.AST, site, depth: int) -> Set[str]:
        V = self.V
        unknown = {"?" + norm(e)[:60]}
        if depth > 8:
            return unknown
        if isinstance(e, ast.Constant):
            return {"text"} if isinstance(e.value, str) else ({"safe"} if e.value is None or isinstance(e.value, (bool, int, float)) else unknown)
        if isinstance(e, ast.JoinedStr):
            return {"text"}
        if isinstance(e, ast.Name):
            if e.id.endswith("@param"):
                return {"raw:" + e.id}
            if e.id in V.info:
                d, kind, v, _path = V.info[e.id]
                if kind == "value" and v is not None:
                    out: Set[str] = set()
                    for alt in V.resolve(v, [d.id]):
                        if isinstance(alt, ast.Name) and alt.id == e.id:
                            # not substituted (a call, a display): look at the expression that was bound
                            out |= self._expr(V._simplify(v), [d.id], depth + 1)
                        else:
                            out |= self._cls(alt, [d.id], depth + 1)
                    return out
            return unknown
        return self._expr(e, site, depth)

    def _expr(self, e: ast.AST, site, depth: int) -> Set[str]:
        unknown = {"?" + norm(e)[:60]}
        sub = lambda x: self.classify(x, site, depth + 1)
        if isinstance(e, (ast.Constant, ast.JoinedStr, ast.Name)):
            return self._cls(e, site, depth)
        if isinstance(e, ast.Attribute) and e.attr in SAFE_DUNDERS:
            return {"text"}
        if isinstance(e, ast.Call):
            a = call_attr(e)
            if isinstance(e.func, ast.Name):
                if a in TEXT_CALLS:
                    return {"text"}
                if a in _safe_calls(self.repo):
                    return {"safe"}
            d = call_name(e) or ""
            head, _, rest = d.partition(".")
            if (self.mod.imports.get(head, head) + ("." + rest if rest else "")) == "json.loads":
                return {"safe"}
            if isinstance(e.func, ast.Attribute):
                if a in TEXT_METHODS_ALWAYS:
                    return {"text"}
                if a in TEXT_METHODS_OF_TEXT and sub(e.func.value) == {"text"}:
                    return {"text"}
            if a in TEXT_CALLS or a in _safe_calls(self.repo):
                return {"text"} if a in TEXT_CALLS else {"safe"}
            return unknown
        if isinstance(e, ast.BinOp):
            l, r_ = sub(e.left), sub(e.right)
            if isinstance(e.op, ast.Add) and l == {"text"} and r_ == {"text"}:
                return {"text"}
            if isinstance(e.op, ast.Mod) and l == {"text"}:
                return {"text"}
            if isinstance(e.op, ast.Mult) and ({"text"} in (l, r_)) and (l | r_) <= {"text", "safe"}:
                return {"text"}
            return unknown
        if isinstance(e, ast.Subscript):
            return {"text"} if sub(e.value) == {"text"} else unknown
        if isinstance(e, ast.IfExp):
            return sub(e.body) | sub(e.orelse)
        if isinstance(e, ast.BoolOp):
            out: Set[str] = set()
            for v in e.values:
                out |= sub(v)
            return out
        if isinstance(e, (ast.List, ast.Tuple)):
            parts = [sub(x) for x in e.elts]
            return {"safe"} if all(p_ <= {"text", "safe"} for p_ in parts) else unknown
        if isinstance(e, ast.Dict):
            ok = all(k is not None and sub(k) == {"text"} and sub(v) <= {"text", "safe"} for k, v in zip(e.keys, e.values))
            return {"safe"} if ok else unknown
        if isinstance(e, (ast.ListComp, ast.GeneratorExp)) and not isinstance(e, ast.GeneratorExp):
            return {"safe"} if self._expr(e.elt, site, depth + 1) <= {"text", "safe"} else unknown
        return unknown


def _sanitiser_rules(repo: Repo, R: Report) -> None:
    r = R.rule("C06-D2c-sanitiser-sound", "the functions every free-form value passes through before it enters a trace record (serialize_json_safe, safe_repr, _json_safe_sample) return only text, or their argument after it was proven JSON-encodable on every path to that return: a strict json.dumps of the whole value completed, or a type test against JSON scalar types (for a container: of every item) holds - a shallow test of a container lets a nested non-JSON object into the record, json.dumps in the driver raises, the SER is lost and the caller gets TypeError instead of its own exception", 4)
    for rel, qn in _sanitiser_funcs(repo):
        S = _Sanitiser(repo, rel, qn)
        g = S.g
        rets = [n for n in g.nodes if n.kind == "stmt" and isinstance(n.ast, ast.Return)]
        if not rets:
            raise AnalysisError(f"{qn}: no return statement found")
        edges_cache: Dict[str, Set[Tuple[int, str]]] = {}
        done: Set[int] = set()
        for n in rets:
            if id(n.ast) in done:
                continue
            done.add(id(n.ast))
            ids = g.nodes_for(n.ast)
            if n.ast.value is None:
                R.ok(r, rel, qn, norm(n.ast), "returns None")
                continue
            arms: List[Tuple[ast.AST, List[Tuple[ast.AST, bool]]]] = []

            def split(e: ast.AST, guards):
                if isinstance(e, ast.IfExp):
                    split(e.body, guards + [(e.test, True)])
                    split(e.orelse, guards + [(e.test, False)])
                else:
                    arms.append((e, guards))

            split(n.ast.value, [])
            problems: List[str] = []
            for arm, guards in arms:
                for tag in sorted(S.classify(arm, ids)):
                    if tag in ("text", "safe"):
                        continue
                    if tag.startswith("raw:"):
                        ptag = tag[4:]
                        if ptag not in edges_cache:
                            edges_cache[ptag] = S.proof_edges(ptag)
                        seen = g.reach([g.entry], blocked_edges=edges_cache[ptag])
                        open_ids = [i for i in ids if i in seen]
                        if not open_ids:
                            continue
                        from ..cfg import edges_guaranteeing
                        subj = lambda x, ids_=ids: S.param_of(x, ids_) == ptag
                        if any(("T" if pol else "F") in edges_guaranteeing(t, lambda tt: S.proves(tt, subj)) for t, pol in guards):
                            continue
                        path = g.path_to(seen, open_ids[0])
                        via = next((p_.split(": ", 1)[-1].split(" <-")[0][:80] for p_ in reversed(path[:-1]) if ": <" not in p_), "function entry")
                        problems.append(f"returns its argument `{ptag.split('@')[0]}` unchanged on a path where nothing proves it JSON-encodable (reached via `{via}`): only a strict json.dumps of the whole value, or a scalar-type test of it (of every item, for a container), does")
                    else:
                        problems.append(f"returns `{tag[1:]}`, which is neither text nor a value proven JSON-encodable")
            if problems:
                R.violation(r, rel, qn, norm(n.ast)[:100], problems[0] + "; the value goes unsanitised into SER processor.parameters / assertions, json.dumps in JsonlTraceDriver raises TypeError, the SER of a started node is not written and the original exception is replaced", n.ast.lineno)
            else:
                R.ok(r, rel, qn, norm(n.ast)[:100], "text, or the argument after a proof of encodability")


def _nodes_serialised_when_built(repo: Repo) -> Tuple[bool, str]:
    """Every mapping that build_canonical_spec puts into the node list of the canonical spec it returns has been
    handed to json.dumps (itself, or the mapping it is a copy of) on every path that leads to the append - so a
    non-JSON parameter raises while the spec is built.  Decided on the normal form (private helpers inlined) with
    must-pass on the CFG; an element produced by a call that could not be inlined is followed into the callee."""
    from ..engine import returned_values
    gmod = repo.module(GRAPH)
    nf = nfunc(repo, GRAPH, "build_canonical_spec")
    node_lists = {v.id for rv in returned_values(nf) for d in ast.walk(rv) if isinstance(d, ast.Dict) for k, v in zip(d.keys, d.values)
                  if isinstance(k, ast.Constant) and k.value == "nodes" and isinstance(v, ast.Name)}
    if not node_lists:
        raise AnalysisError("build_canonical_spec: the node list of the returned canonical mapping was not found")
    elements: List[Tuple[ast.AST, ast.AST]] = []  # (element expression, statement it is evaluated in)
    for c in calls_in(nf):
        if call_attr(c) == "append" and isinstance(c.func, ast.Attribute) and dotted_name(c.func.value) in node_lists and len(c.args) == 1:
            elements.append((c.args[0], stmt_of(c)))
    for nm in node_lists:
        for v in assigned_value(nf, nm):
            if isinstance(v, (ast.ListComp, ast.GeneratorExp)):
                elements.append((v.elt, stmt_of(v)))
            elif isinstance(v, ast.Call) and call_name(v) == "list" and len(v.args) == 1 and isinstance(v.args[0], (ast.ListComp, ast.GeneratorExp)):
                elements.append((v.args[0].elt, stmt_of(v)))
    if not elements:
        return False, "nothing is appended to the node list"
    for e, st in elements:
        ok, why = _serialised_value(repo, gmod, nf, e, st, 0)
        if not ok:
            return False, why
    return True, ""


def _serialised_value(repo: Repo, mod, fn: ast.AST, e: ast.AST, st: ast.AST, depth: int, path: Tuple[int, ...] = ()) -> Tuple[bool, str]:
    """Has the mapping *e* (or, with *path*, that element of the tuple *e*) evaluated in statement *st* of *fn* been
    handed to json.dumps on every path since it came into being?"""
    g = CFG(fn)
    V = _Vals(g, fn)
    uses = g.nodes_for(st)
    if not uses:
        raise AnalysisError(f"{getattr(fn, 'name', '?')}: `{norm(st)[:60]}` is not on the control-flow graph")

    def into_callee(val: ast.Call, path: Tuple[int, ...]) -> Tuple[bool, str]:
        # a helper that was not inlined (public, or called from a comprehension): what it returns
        try:
            targets = [t for t in repo.resolve_call(mod, val) if isinstance(t[1], ast.FunctionDef)]
        except Exception:
            targets = []
        if len(targets) != 1 or depth >= 2:
            return False, f"`{norm(val)[:60]}` is not a mapping that was serialised"
        cmod, callee = targets[0]
        cn = nfunc(repo, cmod.rel, qualname_of(callee))
        rets = [r for r in walk_no_nested(cn) if isinstance(r, ast.Return) and r.value is not None]
        if not rets:
            return False, f"`{callee.name}` returns nothing"
        for r in rets:
            ok, why = _serialised_value(repo, cmod, cn, r.value, r, depth + 1, path)
            if not ok:
                return False, why
        return True, ""

    def one(alt: ast.AST, at: List[int], path: Tuple[int, ...], fuel: int = 8) -> Tuple[bool, str]:
        if fuel <= 0:
            return False, f"`{norm(alt)[:60]}` could not be followed"
        info = V.info.get(alt.id) if isinstance(alt, ast.Name) else None
        if info is not None and info[1] == "elem" and info[2] is not None:
            # an unpacked element: <a>, <b> = <value>
            d, _kind, v, p = info
            if isinstance(v, ast.Call):
                return into_callee(v, tuple(p) + path)  # the call as written (call resolution needs its place in the tree)
            for x in V.resolve(v, [d.id]):
                ok, why = one(x, [d.id], tuple(p) + path, fuel - 1)
                if not ok:
                    return False, why
            return True, ""
        if path:
            if isinstance(alt, (ast.Tuple, ast.List)) and path[0] < len(alt.elts) and not any(isinstance(x, ast.Starred) for x in alt.elts):
                return one(alt.elts[path[0]], at, path[1:], fuel - 1)
            val = V.binding(alt)
            if val is not alt:
                site = V.binding_site(alt) or at
                for x in V.resolve(val, site) if not isinstance(val, ast.Call) else [val]:
                    ok, why = (into_callee(x, path) if isinstance(x, ast.Call) else one(x, site, path, fuel - 1))
                    if not ok:
                        return False, why
                return True, ""
            if isinstance(alt, ast.Call):
                return into_callee(alt, path)
            return False, f"`{norm(alt)[:60]}`: the element put into the node list could not be followed"
        val = V.binding(alt)
        if isinstance(val, ast.Call) and _copied_from(val) is None:
            return into_callee(val, ())
        # the objects whose serialisation vouches for this one: itself and what it was copied from
        vouch: Set[str] = set()
        cur, site = alt, at
        for _ in range(4):
            if isinstance(cur, ast.Name):
                vouch.add(cur.id)
            b = V.binding(cur)  # a name stands for what it was bound to; a copy written in place (`{**x, ..}`) is its own binding
            src = _copied_from(b)
            if src is None:
                break
            site = V.binding_site(cur) or site
            nxt = V.resolve(src, site)
            if len(nxt) != 1:
                break
            cur = nxt[0]
        if not vouch:
            return False, f"`{norm(alt)[:60]}` is not a named mapping"
        dump_nodes: Set[int] = set()
        for n in g.nodes:
            if n.ast is None or n.part is None:
                continue
            for c in calls_in(n.part) if n.kind != "stmt" else calls_in(n.ast):
                if _is_json_dumps(repo, mod, c) and (c.args or c.keywords):
                    a0 = c.args[0] if c.args else c.keywords[0].value
                    if any(ast.dump(x) in {ast.dump(ast.Name(id=t, ctx=ast.Load())) for t in vouch} for x in V.resolve(a0, [n.id])):
                        dump_nodes.add(n.id)
        if not dump_nodes:
            return False, f"`{norm(e)[:40]}` is never handed to json.dumps"
        # must-pass: no way to the use that avoids the serialisation since the mapping came into being
        root = cur.id if isinstance(cur, ast.Name) else None
        births = {V.info[root][0].id} if root in V.info else set()
        starts = [t for b_ in births for t, lab in g.succ[b_] if lab not in (EXC, BASE)] or [g.entry]
        normal_only = g.reach([t for t in starts if t not in dump_nodes], blocked=dump_nodes, skip_labels={EXC, BASE})
        if any(u in normal_only for u in at):
            return False, f"a path reaches `{norm(st)[:50]}` without serialising the node"
        return True, ""

    for alt in V.resolve(e, uses):
        ok, why = one(alt, uses, path)
        if not ok:
            return False, why
    return True, ""


def _copied_from(v: ast.AST) -> Optional[ast.AST]:
    """``dict(x)``, ``x.copy()``, ``copy.copy(x)``, ``{**x, ...}``: the mapping the value is a shallow copy of."""
    if isinstance(v, ast.Call):
        if call_name(v) == "dict" and len(v.args) == 1:
            return v.args[0]
        if call_attr(v) == "copy" and isinstance(v.func, ast.Attribute) and not v.args:
            return v.func.value
        if call_name(v) in ("copy.copy", "copy.deepcopy") and len(v.args) == 1:
            return v.args[0]
    if isinstance(v, ast.Dict) and v.keys and v.keys[0] is None:
        return v.values[0]
    if isinstance(v, ast.BinOp) and isinstance(v.op, ast.BitOr):  # x | {...}: a new mapping that starts as a copy of x
        return v.left
    return None


# ---------------------------------------------------------------------------
# D4c: the writers accept every value the sanitisers let through (interface between trace/_utils.py,
# metadata/semantic_id.py and the JSONL driver)
# ---------------------------------------------------------------------------

# json.dumps options that make the encoder reject values the default encoder accepts: option -> (what it rejects,
# exception class it raises)
STRICTER_DUMPS = {
    "allow_nan": ("non-finite floats (inf / nan)", "ValueError"),
    "sort_keys": ("mappings whose keys cannot be ordered (1 and 'a')", "TypeError"),
}


def _option_strict(d: ast.Call, opt: str) -> Optional[bool]:
    """Is the acceptance-narrowing option *opt* switched on in this json.dumps call?  None: cannot be told."""
    v = kwarg(d, opt)
    if v is None:
        return None if any(k.arg is None for k in d.keywords) else False
    if not isinstance(v, ast.Constant):
        return None
    return (v.value is False) if opt == "allow_nan" else bool(v.value)


def _caught_by(node: ast.AST, exc_class: str, stop: Optional[ast.AST] = None) -> bool:
    """*node* lies in the body of a try whose handlers catch *exc_class* (by that name, a builtin base of it, or bare)."""
    bases = {"ValueError": {"ValueError", "Exception", "BaseException"}, "TypeError": {"TypeError", "Exception", "BaseException"}}.get(exc_class, {exc_class, "Exception", "BaseException"})
    cur = node
    for a in ancestors(node):
        if a is stop or isinstance(a, FuncNode):
            break
        if isinstance(a, ast.Try) and any(cur is st for st in a.body):
            for h in a.handlers:
                names = {"BaseException"} if h.type is None else {(dotted_name(x) or "").split(".")[-1] for x in (h.type.elts if isinstance(h.type, ast.Tuple) else [h.type])}
                if names & bases:
                    return True
        cur = a
    return False


def _sanitiser_probes(repo: Repo) -> List[Tuple[str, str, ast.Call]]:
    """[(file, function, json.dumps call)]: the strict serialisation probes that let a sanitiser return its argument
    unchanged - found by role (a json.dumps of the parameter, also in a predicate helper the parameter is handed to)."""
    out: List[Tuple[str, str, ast.Call]] = []

    def collect(S: "_Sanitiser", top: str, depth: int) -> None:
        for n in S.g.nodes:
            if n.ast is None or isinstance(n.ast, FuncNode + (ast.ClassDef,)):
                continue
            part = n.part if n.part is not None else n.ast
            for c in (calls_in(n.ast) if n.kind == "stmt" else calls_in(part)):
                a0 = (c.args[0] if c.args else kwarg(c, "obj")) if isinstance(c, ast.Call) else None
                if a0 is None:
                    continue
                is_param = (S.param_of(a0, [n.id]) or "").endswith("@param")
                if not is_param:
                    continue
                if _is_json_dumps(repo, S.mod, c):
                    if not any(c is x[2] for x in out):
                        out.append((S.rel, top, c))
                elif isinstance(c.func, ast.Name) and isinstance(S.mod.defs.get(c.func.id), ast.FunctionDef) and depth < 2 and c.func.id not in {q for _r, q in _sanitiser_funcs(repo)}:
                    collect(_Sanitiser(repo, S.rel, c.func.id, depth=depth + 1), top, depth + 1)

    for rel, qn in _sanitiser_funcs(repo):
        collect(_Sanitiser(repo, rel, qn), qn, 0)
    return out


def _writer_accepts_sanitised_rule(repo: Repo, R: Report) -> None:
    r = R.rule("C06-D4c-writer-accepts-sanitised-values", "the json.dumps that produces a trace line is not stricter than the json.dumps probes of the sanitisers (serialize_json_safe, _json_safe_sample): an option that narrows what the encoder accepts (allow_nan=False, sort_keys=True) is either also an option of every probe or its exception is caught around the write - otherwise a value the sanitiser let through unchanged makes the writer raise, the SER / pipeline_start / pipeline_end line is not written and the original exception is replaced", 5)
    probes = _sanitiser_probes(repo)
    if not probes:
        raise AnalysisError("no json.dumps probe found in the sanitisers (serialize_json_safe / _json_safe_sample): cannot relate writer and probe options")
    for w in _driver_writes(repo):
        for d in w.dumps:
            problems: List[str] = []
            for opt, (rejects, exc_class) in STRICTER_DUMPS.items():
                strict = _option_strict(d, opt)
                if strict is False:
                    continue
                if _caught_by(d, exc_class) or _caught_by(w.call, exc_class):
                    continue
                if strict is None:
                    raise AnalysisError(f"{w.qn}: option `{opt}` of `{norm(d)[:70]}` is not a literal")
                lax = [(prel, pqn, p) for prel, pqn, p in probes if _option_strict(p, opt) is not True]
                if lax:
                    prel, pqn, p = lax[0]
                    problems.append(f"`{opt}={ast.unparse(kwarg(d, opt))}` makes this writer reject {rejects}, which the probe `{norm(p)[:60]}` of {pqn} ({prel}:{getattr(p, 'lineno', 0)}) accepts: such a value reaches the record unsanitised, json.dumps raises {exc_class} in the driver callback (not caught there), the line is not written - no SER for a started node / no pipeline_start or pipeline_end - and the caller gets {exc_class} instead of the original exception")
            if problems:
                R.violation(r, JSONL, w.qn, norm(d)[:110], problems[0], getattr(d, "lineno", w.call.lineno))
            else:
                R.ok(r, JSONL, w.qn, norm(d)[:110], "no stricter than the sanitiser probes")


# ---------------------------------------------------------------------------
# D1g: the text of an exception the framework defines can always be produced
# ---------------------------------------------------------------------------

import builtins as _builtins
import re as _re

BUILTIN_EXCEPTIONS = {n for n, v in vars(_builtins).items() if isinstance(v, type) and issubclass(v, BaseException)}
RENDER_DUNDERS = ("__str__", "__repr__", "__format__")
EXC_BASE_ATTRS = {"args", "__class__", "__cause__", "__context__", "__traceback__", "__notes__", "__dict__", "__doc__", "__module__"}
TEXT_MAKERS = {"str", "repr", "ascii", "format", "safe_repr"}


def _exception_classes(repo: Repo) -> List[Tuple[object, str, ast.ClassDef]]:
    """Classes of the package whose ancestry reaches a builtin exception class."""
    out = []
    for mod in list(repo.modules.values()):
        for qn, cls in mod.defs.items():
            if not isinstance(cls, ast.ClassDef):
                continue
            chain = repo.mro(mod, cls)
            if any((dotted_name(b) or "").split(".")[-1] in BUILTIN_EXCEPTIONS for _m, c in chain for b in c.bases):
                out.append((mod, qn, cls))
    return out


def _text_typed(v: Optional[ast.AST]) -> bool:
    """The expression evaluates to a str whenever it evaluates at all."""
    if isinstance(v, ast.JoinedStr) or (isinstance(v, ast.Constant) and isinstance(v.value, str)):
        return True
    if isinstance(v, ast.Call):
        a = call_attr(v)
        if isinstance(v.func, ast.Name):
            return a in TEXT_MAKERS
        return a in TEXT_METHODS_ALWAYS or (a in TEXT_METHODS_OF_TEXT and _text_typed(v.func.value))
    if isinstance(v, ast.BinOp) and isinstance(v.op, (ast.Add, ast.Mod)):
        return _text_typed(v.left)
    if isinstance(v, ast.IfExp):
        return _text_typed(v.body) and _text_typed(v.orelse)
    return False


class _RenderTotal:
    """Can ``__str__`` / ``__repr__`` / ``__format__`` of an exception class raise for some values of the fields the
    constructor accepted?  Reading a field and formatting it plainly (``{x}``, ``{x!r}``, ``str(x)``) is taken to be total
    (the same assumption as for ``str(exc)`` itself); every other operation on a field - a method call, ``.join`` over it,
    iteration, indexing, arithmetic, a format spec, ``len`` - depends on what the field holds and was not tried when
    the exception was constructed."""

    def __init__(self, repo: Repo, mod, cls: ast.ClassDef):
        self.repo, self.mod, self.cls = repo, mod, cls
        self.chain = repo.mro(mod, cls)
        self.stores: Dict[str, List[ast.AST]] = {}
        self.class_level: Set[str] = set()
        for _m, c in self.chain:
            for st in c.body:
                if isinstance(st, (ast.Assign, ast.AnnAssign)):
                    for t in (st.targets if isinstance(st, ast.Assign) else [st.target]):
                        if isinstance(t, ast.Name):
                            self.class_level.add(t.id)
                if isinstance(st, FuncNode):
                    rcv = st.args.args[0].arg if st.args.args else None
                    for n in ast.walk(st):
                        if isinstance(n, (ast.Assign, ast.AnnAssign)) and n.value is not None:
                            for t in (n.targets if isinstance(n, ast.Assign) else [n.target]):
                                if isinstance(t, ast.Attribute) and isinstance(t.value, ast.Name) and t.value.id == rcv:
                                    self.stores.setdefault(t.attr, []).append(n.value)
        self.bad: Optional[Tuple[ast.AST, str]] = None

    def fail(self, e: ast.AST, why: str) -> None:
        if self.bad is None:
            self.bad = (e, why)

    def method_total(self, fn: ast.AST, depth: int = 0) -> bool:
        rcv = fn.args.args[0].arg if fn.args.args else "self"
        env: Dict[str, str] = {}
        return self.block(fn.body, rcv, env, depth, want_text=fn.name in RENDER_DUNDERS) and self.bad is None

    def block(self, body: List[ast.stmt], rcv: str, env: Dict[str, str], depth: int, want_text: bool) -> bool:
        for st in body:
            if isinstance(st, ast.Pass) or (isinstance(st, ast.Expr) and isinstance(st.value, ast.Constant)):
                continue
            if isinstance(st, ast.Return):
                k = self.kind(st.value, rcv, env, depth) if st.value is not None else "val"
                if k is None:
                    return False
                if want_text and k != "text":
                    self.fail(st.value or st, "returns a value that is not text by construction (a field of any type): str() raises TypeError for a non-str result")
                    return False
            elif isinstance(st, (ast.Assign, ast.AnnAssign)) and st.value is not None and all(isinstance(t, ast.Name) for t in (st.targets if isinstance(st, ast.Assign) else [st.target])):
                k = self.kind(st.value, rcv, env, depth)
                if k is None:
                    return False
                for t in (st.targets if isinstance(st, ast.Assign) else [st.target]):
                    env[t.id] = k if env.get(t.id, k) == k else "val"
            elif isinstance(st, ast.If):
                if self.kind(st.test, rcv, env, depth) is None:
                    return False
                if not (self.block(st.body, rcv, env, depth, want_text) and self.block(st.orelse, rcv, env, depth, want_text)):
                    return False
            elif isinstance(st, ast.Try):
                catches_all = any(h.type is None or (dotted_name(h.type) or "").split(".")[-1] in ("Exception", "BaseException") for h in st.handlers)
                if catches_all and not st.finalbody:
                    # whatever the body does is contained; what it returns must still be text, and the handlers total
                    saved = self.bad
                    inner_ok = self.block(st.body + st.orelse, rcv, dict(env), depth, want_text)
                    if not inner_ok and self.bad is not None and "not text" in self.bad[1]:
                        return False
                    self.bad = saved
                    for h in st.handlers:
                        if not self.block(h.body, rcv, env, depth, want_text):
                            return False
                else:
                    if not self.block(st.body + st.orelse + [x for h in st.handlers for x in h.body] + st.finalbody, rcv, env, depth, want_text):
                        return False
            else:
                self.fail(st, f"`{type(st).__name__.lower()}` statement whose outcome depends on what the fields hold")
                return False
        return True

    def attr_kind(self, attr: str, e: ast.AST, depth: int) -> Optional[str]:
        if attr in SAFE_DUNDERS:
            return "text"
        if attr in self.stores:
            return "text" if all(_text_typed(v) for v in self.stores[attr]) else "val"
        if attr in EXC_BASE_ATTRS or attr in self.class_level:
            return "val"
        hit = self.repo.method(self.mod, self.cls, attr)
        if hit is not None and depth < 2 and any((dotted_name(d) or "").split(".")[-1] in ("property", "cached_property") for d in hit[1].decorator_list):
            sub = _RenderTotal(self.repo, self.mod, self.cls)
            if sub.method_total(hit[1], depth + 1):
                return "val"
            self.fail(*(sub.bad or (e, f"property `{attr}` may raise")))
            return None
        self.fail(e, f"reads `{attr}`, which no method of the class assigns (AttributeError)")
        return None

    def kind(self, e: Optional[ast.AST], rcv: str, env: Dict[str, str], depth: int) -> Optional[str]:
        """'text' / 'val' when evaluating *e* cannot raise, None (and self.bad set) when it can."""
        K = lambda x: self.kind(x, rcv, env, depth)
        if e is None:
            return "val"
        if isinstance(e, ast.Constant):
            return "text" if isinstance(e.value, str) else "val"
        if isinstance(e, ast.JoinedStr):
            for v in e.values:
                if isinstance(v, ast.FormattedValue):
                    if v.format_spec is not None and not (isinstance(v.format_spec, ast.JoinedStr) and not v.format_spec.values):
                        self.fail(v.value, f"format spec applied to `{norm(v.value)[:40]}` (raises for a value the spec does not fit)")
                        return None
                    if K(v.value) is None:
                        return None
            return "text"
        if isinstance(e, ast.Name):
            return env.get(e.id, "val")
        if isinstance(e, ast.Attribute):
            if isinstance(e.value, ast.Name) and e.value.id == rcv:
                return self.attr_kind(e.attr, e, depth)
            if e.attr in SAFE_DUNDERS:
                return "text" if K(e.value) is not None else None
            if e.attr == "__class__" and K(e.value) is not None:
                return "val"
            self.fail(e, f"attribute `{e.attr}` of a value of unknown type (`{norm(e.value)[:40]}`)")
            return None
        if isinstance(e, ast.Call):
            a = call_attr(e)
            args = list(e.args) + [k.value for k in e.keywords]
            if any(isinstance(x, ast.Starred) for x in e.args) or any(k.arg is None for k in e.keywords):
                self.fail(e, "call with unpacked arguments")
                return None
            if isinstance(e.func, ast.Name):
                if a in TEXT_MAKERS and (a != "format" or len(args) == 1):
                    return "text" if all(K(x) is not None for x in args) else None
                if a in ("type", "isinstance", "bool", "id", "callable") or (a in ("getattr", "hasattr") and len(args) >= 2 and (a == "hasattr" or len(args) == 3)):
                    return "val" if all(K(x) is not None for x in args) else None
                self.fail(e, f"`{a}(..)` applied to field values that the constructor accepted without trying it")
                return None
            if isinstance(e.func, ast.Attribute):
                recv = e.func.value
                if isinstance(recv, ast.Call) and isinstance(recv.func, ast.Name) and recv.func.id == "super" and a in RENDER_DUNDERS:
                    return "text"
                rk = None
                if isinstance(recv, (ast.Constant, ast.JoinedStr)) or (isinstance(recv, ast.Name) and env.get(recv.id) == "text") or _text_typed(recv):
                    rk = K(recv)
                    if rk is None:
                        return None
                if rk == "text":
                    if a == "join" and len(args) == 1:
                        it = args[0]
                        if isinstance(it, (ast.List, ast.Tuple)) and all(K(x) == "text" for x in it.elts):
                            return "text"
                        if self.bad is None:
                            self.fail(e, f"`.join({norm(it)[:50]})` raises TypeError unless every item is a str, and raises when the field cannot be iterated - neither was tried when the exception was constructed")
                        return None
                    if a in TEXT_METHODS_OF_TEXT or a == "format":
                        return "text" if all(K(x) is not None for x in args) else None
                self.fail(e, f"method call `{norm(e.func)[:50]}(..)` on a value the constructor did not validate")
                return None
            self.fail(e, "call of a computed callable")
            return None
        if isinstance(e, ast.BinOp):
            if isinstance(e.op, ast.Add):
                l, r_ = K(e.left), K(e.right)
                if l is None or r_ is None:
                    return None
                if l == "text" and r_ == "text":
                    return "text"
                self.fail(e, "`+` of operands that are not both text by construction")
                return None
            if isinstance(e.op, ast.Mod) and isinstance(e.left, ast.Constant) and isinstance(e.left.value, str):
                specs = _re.findall(r"%(?!%)(.)", e.left.value.replace("%%", ""))
                if isinstance(e.right, ast.Tuple) and len(e.right.elts) == len(specs) and set(specs) <= {"s", "r", "a"} and all(K(x) is not None for x in e.right.elts):
                    return "text"
                self.fail(e, "%-formatting whose success depends on the field values (conversion type / tuple-valued operand)")
                return None
            self.fail(e, "arithmetic on field values")
            return None
        if isinstance(e, ast.IfExp):
            ks = [K(e.test), K(e.body), K(e.orelse)]
            if None in ks:
                return None
            return "text" if ks[1] == ks[2] == "text" else "val"
        if isinstance(e, ast.BoolOp):
            ks = [K(v) for v in e.values]
            if None in ks:
                return None
            return "text" if all(k == "text" for k in ks) else "val"
        if isinstance(e, ast.UnaryOp) and isinstance(e.op, ast.Not):
            return None if K(e.operand) is None else "val"
        if isinstance(e, ast.Compare):
            parts = [e.left] + list(e.comparators)
            if any(K(x) is None for x in parts):
                return None
            if all(isinstance(op, (ast.Is, ast.IsNot)) for op in e.ops) or (all(isinstance(op, (ast.Eq, ast.NotEq)) for op in e.ops) and any(isinstance(x, ast.Constant) for x in parts)):
                return "val"
            self.fail(e, "comparison between field values")
            return None
        if isinstance(e, (ast.Tuple, ast.List)):
            return None if any(K(x) is None for x in e.elts) else "val"
        self.fail(e, f"`{type(e).__name__}` expression over field values (indexing / iteration / other operation that was not tried when the exception was constructed)")
        return None


def _exception_text_rules(repo: Repo, R: Report) -> None:
    r = R.rule("C06-D1g-exception-text-total", "the closing code turns the caught exception into text with str()/repr() inside the handler; for every exception class the package defines that rendering is the builtin one (message formatted when the exception is constructed, so a bad field fails at the raise site and *is* the original exception) or an override that cannot raise whatever the fields hold - a lazy __str__/__repr__ that calls methods of / joins / indexes / iterates unvalidated fields raises inside `except BaseException`, pipeline_end (or the error SER) is not written and the caller gets that secondary exception", 3)
    classes = _exception_classes(repo)
    if not classes:
        raise AnalysisError("no exception class found in the package (anchor vanished)")
    for mod, qn, cls in classes:
        repo.module(mod.rel)
        overridden = []
        for dn in RENDER_DUNDERS:
            hit = repo.method(mod, cls, dn)
            if hit is not None:
                overridden.append((dn, hit))
        if not overridden:
            R.ok(r, mod.rel, qn, f"class {cls.name}: str()/repr()", "builtin rendering of args")
            continue
        for dn, (m2, fn) in overridden:
            J = _RenderTotal(repo, mod, cls)
            ok = J.method_total(fn)
            if ok:
                R.ok(r, m2.rel, qualname_of(fn), f"class {cls.name}: {dn}", "cannot raise whatever the fields hold")
            else:
                e, why = J.bad or (fn, "may raise")
                R.violation(r, m2.rel, qualname_of(fn), norm(e)[:110],
                            f"`{cls.name}.{dn}` renders the message on demand and can itself raise: {why}. execute() calls str(exc) inside `except BaseException` (error SER, pipeline_end): for such field values the rendering raises there, the closing record is not written - the trace ends without pipeline_end / lacks the SER of the failed node - and the caller receives the secondary exception instead of the one that was raised", getattr(e, "lineno", fn.lineno))


# ---------------------------------------------------------------------------
# D1h: the evidence helpers the closing code calls do not raise on arbitrary context / payload values
# ---------------------------------------------------------------------------

RICH_COMPARE = (ast.Eq, ast.NotEq, ast.Lt, ast.LtE, ast.Gt, ast.GtE)
CONTAINER_HEADS = {"Dict", "dict", "Mapping", "MutableMapping", "List", "list", "Sequence", "Iterable", "Tuple", "tuple", "Set", "set", "Collection", "DefaultDict", "OrderedDict"}


def _contained(node: ast.AST) -> bool:
    """*node* is evaluated in the body of a try whose handler catches Exception (or more) and does not raise again."""
    cur = node
    for a in ancestors(node):
        if isinstance(a, FuncNode + (ast.Lambda,)):
            break
        if isinstance(a, ast.Try) and any(cur is st for st in a.body):
            for h in a.handlers:
                names = {"BaseException"} if h.type is None else {(dotted_name(x) or "").split(".")[-1] for x in (h.type.elts if isinstance(h.type, ast.Tuple) else [h.type])}
                if names & {"Exception", "BaseException"} and not any(isinstance(x, ast.Raise) for st in h.body for x in walk_no_nested(st)):
                    return True
        cur = a
    return False


class _Live:
    """Which expressions of a function denote an arbitrary user value (a context entry, the payload data) or a
    container of such values (the context, a snapshot of it), given which of its parameters do (taint handed down
    from execute()'s run state along the call graph)."""

    def __init__(self, fn: ast.AST, value: Set[str], container: Set[str], call_kind=None, payloads: Optional[Set[str]] = None):
        self.fn = fn
        self.value: Set[str] = set(value)
        self.container: Set[str] = set(container)
        self.payloads: Set[str] = set(payloads or ())
        self.call_kind = call_kind
        self._busy = False
        changed = True
        rounds = 0
        while changed and rounds < 8:
            changed = False
            rounds += 1
            for n in (walk_no_nested(fn) if not isinstance(fn, ast.Lambda) else []):
                pairs: List[Tuple[ast.AST, ast.AST]] = []
                if isinstance(n, ast.Assign):
                    pairs = [(t, n.value) for t in n.targets]
                elif isinstance(n, ast.AnnAssign) and n.value is not None:
                    pairs = [(n.target, n.value)]
                elif isinstance(n, ast.NamedExpr):
                    pairs = [(n.target, n.value)]
                flat: List[Tuple[ast.AST, ast.AST]] = []
                for t, v in pairs:
                    if isinstance(t, (ast.Tuple, ast.List)) and isinstance(v, (ast.Tuple, ast.List)) and len(t.elts) == len(v.elts):
                        flat.extend(zip(t.elts, v.elts))
                    else:
                        flat.append((t, v))
                for t, v in flat:
                    if not isinstance(t, ast.Name):
                        continue
                    if t.id not in self.value and self.is_value(v):
                        self.value.add(t.id)
                        changed = True
                    elif t.id not in self.container and t.id not in self.value and self.is_container(v):
                        self.container.add(t.id)
                        changed = True
                its: List[Tuple[ast.AST, ast.AST]] = []
                if isinstance(n, (ast.For, ast.AsyncFor)):
                    its = [(n.target, n.iter)]
                elif isinstance(n, (ast.ListComp, ast.SetComp, ast.GeneratorExp, ast.DictComp)):
                    its = [(g_.target, g_.iter) for g_ in n.generators]
                for t, it in its:
                    for nm in self.item_names(t, it):
                        if nm not in self.value:
                            self.value.add(nm)
                            changed = True

    def _call(self, e: ast.Call) -> Optional[str]:
        if self.call_kind is None or self._busy:
            return None
        self._busy = True
        try:
            return self.call_kind(e, self)
        finally:
            self._busy = False

    def is_container(self, e: Optional[ast.AST]) -> bool:
        if e is None:
            return False
        if isinstance(e, ast.Name):
            return e.id in self.container
        if isinstance(e, ast.Attribute):
            return isinstance(e.value, ast.Name) and e.value.id in self.payloads and e.attr == "context"
        if isinstance(e, ast.Call):
            if isinstance(e.func, ast.Name) and e.func.id in ("dict", "list", "tuple") and len(e.args) == 1:
                return self.is_container(e.args[0])
            if isinstance(e.func, ast.Attribute) and e.func.attr in ("copy", "to_dict", "as_dict") and not e.args and self.is_container(e.func.value):
                return True
            return self._call(e) == "container"
        if isinstance(e, ast.BoolOp):
            return any(self.is_container(v) for v in e.values)
        if isinstance(e, ast.IfExp):
            return self.is_container(e.body) or self.is_container(e.orelse)
        if isinstance(e, ast.DictComp):
            return self.is_value(e.value) or any(self.item_names(g_.target, g_.iter) for g_ in e.generators)
        return False

    def item_names(self, target: ast.AST, it: ast.AST) -> Set[str]:
        """Loop / comprehension targets that are bound to items (values, not keys) of a live container."""
        if isinstance(it, ast.Call) and isinstance(it.func, ast.Attribute) and self.is_container(it.func.value) and not it.args:
            if it.func.attr == "values" and isinstance(target, ast.Name):
                return {target.id}
            if it.func.attr == "items" and isinstance(target, ast.Tuple) and len(target.elts) == 2 and isinstance(target.elts[1], ast.Name):
                return {target.elts[1].id}
        return set()

    def is_value(self, e: Optional[ast.AST]) -> bool:
        if e is None:
            return False
        if isinstance(e, ast.Name):
            return e.id in self.value
        if isinstance(e, ast.Attribute):
            if isinstance(e.value, ast.Name) and e.value.id in self.payloads:
                return e.attr != "context"
            return e.attr not in SAFE_DUNDERS and self.is_value(e.value)
        if isinstance(e, ast.Subscript):
            return self.is_value(e.value) or self.is_container(e.value)
        if isinstance(e, ast.Call):
            if isinstance(e.func, ast.Attribute) and e.func.attr in ("get", "pop", "setdefault") and e.args and self.is_container(e.func.value):
                return True
            return self._call(e) == "value"
        if isinstance(e, ast.IfExp):
            return self.is_value(e.body) or self.is_value(e.orelse)
        if isinstance(e, ast.BoolOp):
            return any(self.is_value(v) for v in e.values)
        if isinstance(e, ast.NamedExpr):
            return self.is_value(e.value)
        return False


def _truth_tested(node: ast.AST) -> bool:
    """The value of *node* is converted to a truth value where it stands."""
    from ..engine import parent
    cur = node
    while True:
        p_ = parent(cur)
        if p_ is None:
            return False
        if isinstance(p_, (ast.If, ast.While, ast.IfExp, ast.Assert)) and p_.test is cur:
            return True
        if isinstance(p_, ast.comprehension) and any(cur is x for x in p_.ifs):
            return True
        if isinstance(p_, ast.UnaryOp) and isinstance(p_.op, ast.Not):
            return True
        if isinstance(p_, ast.Call) and isinstance(p_.func, ast.Name) and p_.func.id == "bool" and any(cur is x for x in p_.args):
            return True
        if isinstance(p_, ast.BoolOp):
            if cur is not p_.values[-1]:
                return True
            cur = p_
            continue
        return False


def _handler_regions(fn: ast.AST) -> List[Tuple[str, List[ast.stmt]]]:
    out: List[Tuple[str, List[ast.stmt]]] = []
    for t in walk_no_nested(fn):
        if isinstance(t, ast.Try):
            for h in t.handlers:
                out.append((norm(h)[:60], h.body))
            if t.finalbody:
                out.append(("finally", t.finalbody))
    return out


class _ClosingClosure:
    """Functions of the package that run while execute() holds a caught exception (called from its handlers and
    finally blocks) - through self-calls, module functions, methods of locals bound to a constructor call and callables
    handed to a hooks object as constructor keywords - together with which of their parameters receive the run state:
    the payload data / a context entry ('value') or the context / a snapshot of it ('container')."""

    def __init__(self, repo: Repo):
        self.repo = repo
        self.omod = repo.module(ORCH)
        self.raw = repo.func(ORCH, EXECUTE)
        self.drivers = set(_exec(repo).tainted) | _orch.trace_tainted(self.raw)
        self.info: Dict[int, Tuple[object, ast.AST, Tuple[str, ...], List[ast.Call]]] = {}
        self.taint: Dict[int, Tuple[Set[str], Set[str]]] = {}
        payloads = {a.arg for a in self.raw.args.posonlyargs + self.raw.args.args + self.raw.args.kwonlyargs
                    if a.annotation is not None and (dotted_name(a.annotation) or "").split(".")[-1] == "Payload"}
        if not payloads:
            raise AnalysisError("execute(): no parameter declared as Payload (run state not found)")
        self.root = _Live(self.raw, set(), set(), self.kind_in(self.omod, self.raw), payloads)
        for _label, body in _handler_regions(self.raw):
            for st in body:
                self.walk(self.omod, self.raw, st, self.root, (EXECUTE,), 0)

    def targets_of(self, mod, scope_fn: ast.AST, c: ast.Call) -> List[Tuple[object, ast.AST, Optional[ast.AST]]]:
        """[(module, def or lambda, the function a lambda is written in)]"""
        repo = self.repo
        try:
            ts = [(m_, t_, None) for m_, t_ in repo.resolve_call(mod, c) if isinstance(t_, FuncNode)]
        except Exception:
            ts = []
        if ts:
            return ts
        f = c.func
        if isinstance(f, ast.Attribute) and isinstance(f.value, ast.Name) and f.value.id not in ("self", "cls") and isinstance(scope_fn, FuncNode):
            for v in assigned_value(scope_fn, f.value.id):
                if not isinstance(v, ast.Call) or not isinstance(v.func, (ast.Name, ast.Attribute)):
                    continue
                r = repo.resolve_name(mod, v.func, v)
                if r is None or not isinstance(r[1], ast.ClassDef):
                    continue
                m_ = repo.method(r[0], r[1], f.attr)
                if m_ is not None and isinstance(m_[1], FuncNode):
                    ts.append((m_[0], m_[1], None))
                    continue
                given = kwarg(v, f.attr)  # a callable stored on a record object: hooks.provider()
                if isinstance(given, ast.Lambda):
                    ts.append((mod, given, scope_fn))
                elif isinstance(given, ast.Name):
                    r2 = repo.resolve_name(mod, given, v)
                    if r2 is not None and isinstance(r2[1], FuncNode):
                        from ..engine import enclosing_function
                        ts.append((r2[0], r2[1], scope_fn if enclosing_function(r2[1]) is scope_fn else None))
        return ts

    def bind(self, callee: ast.AST, c: ast.Call, L: "_Live") -> Tuple[Set[str], Set[str]]:
        b = _bind_params(callee, c) or {}
        return {p_ for p_, a in b.items() if L.is_value(a)}, {p_ for p_, a in b.items() if L.is_container(a)}

    def kind_in(self, mod, scope_fn: ast.AST, depth: int = 0):
        """What a call written in *scope_fn* returns: 'container' / 'value' when the callee returns (a copy of) a live
        container / a live value for the arguments it is given."""
        def kind(c: ast.Call, L: "_Live") -> Optional[str]:
            if depth > 2:
                return None
            out: Set[str] = set()
            for m_, t_, _sc in self.targets_of(mod, scope_fn, c):
                if isinstance(t_, ast.Lambda):
                    continue
                v, cont = self.bind(t_, c, L)
                if not (v or cont):
                    continue
                Lc = _Live(t_, v, cont, self.kind_in(m_, t_, depth + 1))
                for r_ in walk_no_nested(t_):
                    if isinstance(r_, ast.Return) and r_.value is not None:
                        if Lc.is_container(r_.value):
                            out.add("container")
                        elif Lc.is_value(r_.value):
                            out.add("value")
            return "container" if "container" in out else ("value" if "value" in out else None)
        return kind

    def walk(self, mod, scope_fn: ast.AST, region: ast.AST, L: "_Live", path: Tuple[str, ...], depth: int) -> None:
        for c in [x for x in ast.walk(region) if isinstance(x, ast.Call)]:
            if isinstance(c.func, ast.Attribute) and isinstance(c.func.value, ast.Name) and c.func.value.id in self.drivers and c.func.attr in _orch.DRIVER_METHODS:
                continue
            for m_, t_, lam_scope in self.targets_of(mod, scope_fn, c):
                if isinstance(t_, ast.Lambda) or lam_scope is not None:
                    # a lambda / local function handed over as a callable: its calls are made with the locals of the
                    # function it is written in
                    if depth < 6:
                        for part in ([t_.body] if isinstance(t_, ast.Lambda) else t_.body):
                            self.walk(m_, lam_scope, part, L, path + (getattr(t_, "name", "<lambda>"),), depth + 1)
                    continue
                v, cont = self.bind(t_, c, L)
                first = id(t_) not in self.info
                if first:
                    if len(self.info) >= 150:
                        continue
                    self.info[id(t_)] = (m_, t_, path + (qualname_of(t_),), [])
                    self.taint[id(t_)] = (set(), set())
                    self.repo.consulted.add(m_.rel)
                self.info[id(t_)][3].append(c)
                tv, tc = self.taint[id(t_)]
                grew = not (v <= tv and cont <= tc)
                tv |= v
                tc |= cont
                if (first or grew) and depth < 6:
                    Lc = _Live(t_, tv, tc, self.kind_in(m_, t_))
                    self.walk(m_, t_, t_, Lc, path + (qualname_of(t_),), depth + 1)


def _closing_closure(repo: Repo) -> "_ClosingClosure":
    C = repo.__dict__.get("_c06_closing_closure")
    if C is None:
        C = repo.__dict__["_c06_closing_closure"] = _ClosingClosure(repo)
    return C


def _closing_helpers_total_rule(repo: Repo, R: Report) -> None:
    r = R.rule("C06-D1h-closing-helpers-total-on-user-values", "the helpers execute() calls from its handlers / finally blocks (context snapshot, delta provider, post-checks, summaries, SER builder, and what they call) never coerce the payload data / a context entry - or the result of a rich comparison of such values - to a truth value outside a try that contains Exception: `bool(a == b)` raises ValueError for array-likes (numpy, pandas, containers of them); raised inside `except BaseException` it loses the SER of the failed node and replaces the original exception", 3)
    C = _closing_closure(repo)
    if len(C.info) < 3:
        raise AnalysisError("execute(): the helpers called from its handlers were not found (call graph from the closing code is empty)")
    n_funcs = 0
    for _id, (mod, fn, path, sites) in sorted(C.info.items(), key=lambda kv: (kv[1][0].rel, kv[1][1].lineno)):
        tv, tc = C.taint[_id]
        if not (tv or tc):
            continue
        L = _Live(fn, tv, tc, C.kind_in(mod, fn))
        n_funcs += 1
        qn = qualname_of(fn)
        found: List[Tuple[ast.AST, str]] = []
        for n in walk_no_nested(fn):
            if isinstance(n, ast.Compare):
                operands = [n.left] + list(n.comparators)
                rich = any(isinstance(op, RICH_COMPARE) for op in n.ops) and any(L.is_value(x) for x in operands)
                member = any(isinstance(op, (ast.In, ast.NotIn)) for op in n.ops) and L.is_value(n.left) and not all(isinstance(c_, ast.Dict) for c_ in n.comparators)
                if (rich or member) and _truth_tested(n):
                    found.append((n, f"the result of `{norm(n)[:50]}` on arbitrary user values (context entries / payload data) is used as a truth value (elementwise for array-likes: `bool(..)` raises ValueError)"))
            elif isinstance(n, (ast.Name, ast.Attribute, ast.Subscript, ast.Call)) and isinstance(getattr(n, "ctx", ast.Load()), ast.Load) and L.is_value(n) and _truth_tested(n):
                found.append((n, f"the truth value of the arbitrary user value `{norm(n)[:50]}` (a context entry / the payload data) is taken (ambiguous for array-likes: raises ValueError)"))
        open_ = [(n, why) for n, why in found if not _contained(n)]
        if open_ and sites and all(_contained(c) for c in sites):
            open_ = []  # every call of this helper is made inside a containing try
        if open_:
            n, why = open_[0]
            R.violation(r, mod.rel, qn, norm(stmt_of(n))[:110],
                        f"{why}, outside any try that contains Exception. The function runs inside execute()'s handlers ({' -> '.join(path[-4:])}): when it raises there, the error SER / pipeline_end is not written and the caller receives this ValueError instead of the exception the node raised (and a run whose nodes all succeeded fails)", n.lineno)
        else:
            R.ok(r, mod.rel, qn, f"{qn}: truth tests of user values", "none, or contained")
    if n_funcs < 2:
        raise AnalysisError("closing code: no helper that receives the run state was found on the call graph from execute()'s handlers")


# ---------------------------------------------------------------------------
# D1i: the closing code looks up no mapping key that may be absent (round 7)
# ---------------------------------------------------------------------------

KEY_CONTAINING = {"KeyError", "LookupError", "Exception", "BaseException"}


def _contained_for(node: ast.AST, classes: Set[str]) -> bool:
    """*node* is evaluated in the body of a try one of whose handlers catches a class in *classes* (or everything) and
    does not raise again."""
    cur = node
    for a in ancestors(node):
        if isinstance(a, FuncNode + (ast.Lambda,)):
            break
        if isinstance(a, ast.Try) and any(cur is st for st in a.body):
            for h in a.handlers:
                names = {"BaseException"} if h.type is None else {(dotted_name(x) or "").split(".")[-1] for x in (h.type.elts if isinstance(h.type, ast.Tuple) else [h.type])}
                if names & classes and not any(isinstance(x, ast.Raise) for st in h.body for x in walk_no_nested(st)):
                    return True
        if isinstance(a, (ast.With, ast.AsyncWith)) and any(cur is st for st in a.body):
            for item in a.items:
                ce = item.context_expr
                if isinstance(ce, ast.Call) and (dotted_name(ce.func) or "").split(".")[-1] == "suppress" and any((dotted_name(x) or "").split(".")[-1] in classes for x in ce.args):
                    return True
        cur = a
    return False


def _display_keys(v: Optional[ast.AST]) -> Optional[Set[str]]:
    """Constant text keys a dict display / ``dict(k=..)`` certainly holds (None: not a display)."""
    if isinstance(v, ast.Dict):
        return {k.value for k in v.keys if isinstance(k, ast.Constant) and isinstance(k.value, str)}
    if isinstance(v, ast.Call) and isinstance(v.func, ast.Name) and v.func.id == "dict" and not v.args:
        return {k.arg for k in v.keywords if k.arg is not None}
    return None


def _copy_of(v: ast.AST, base: str) -> bool:
    """*v* is the mapping *base* itself or a (possibly extended) copy of it."""
    if dotted_name(v) == base:
        return True
    if isinstance(v, ast.Dict):
        return any(k is None and _copy_of(sv, base) for k, sv in zip(v.keys, v.values))
    if isinstance(v, ast.BinOp) and isinstance(v.op, ast.BitOr):
        return _copy_of(v.left, base) or _copy_of(v.right, base)
    if isinstance(v, ast.Call):
        f = v.func
        if isinstance(f, ast.Name) and f.id in ("dict", "deepcopy", "copy") and len(v.args) == 1:
            return _copy_of(v.args[0], base)
        if isinstance(f, ast.Attribute) and f.attr == "copy" and not v.args and not v.keywords:
            return _copy_of(f.value, base)
        if isinstance(f, ast.Attribute) and f.attr in ("deepcopy", "copy") and len(v.args) == 1 and dotted_name(f.value) == "copy":
            return _copy_of(v.args[0], base)
    return False


class _KeyFacts:
    """Decides, for a lookup ``B[<text constant>]`` (or ``B.pop(<const>)`` without default / ``del B[<const>]``),
    whether the key is present in B on *every* path that reaches the lookup: a forward must-analysis on the CFG of the
    function (the fact is established by binding B to a display that holds the key, by a store `B[k] = ..`,
    `B.setdefault(k, ..)`, `B.update({k: ..})`, by the edge of a test on which `k in B` / `B.get(k)` is known to hold;
    it is lost when B is rebound or the key removed; an exception edge leaves a statement before it established
    anything), continued through the arguments at the call sites when B is a parameter and through the return values
    of a package function when B is bound to a call."""

    def __init__(self, repo: Repo, sites_of=None):
        self.repo = repo
        self.sites_of = sites_of or (lambda fn: [])
        self._cfg: Dict[int, CFG] = {}
        self._where: Dict[int, Dict[int, List[int]]] = {}
        self._busy: Set[Tuple[int, str, str]] = set()

    def cfg(self, fn: ast.AST) -> CFG:
        if id(fn) not in self._cfg:
            g = CFG(fn)
            self._cfg[id(fn)] = g
            where: Dict[int, List[int]] = {}
            for n in g.nodes:
                part = n.part if n.kind != "except" else None
                if part is None or (n.kind == "stmt" and isinstance(n.ast, FuncNode + (ast.ClassDef,))):
                    continue
                for x in walk_no_nested(part):
                    where.setdefault(id(x), []).append(n.id)
            self._where[id(fn)] = where
        return self._cfg[id(fn)]

    def nodes_of(self, fn: ast.AST, e: ast.AST) -> List[int]:
        self.cfg(fn)
        return self._where[id(fn)].get(id(e), [])

    # -- the atom `key in base` ------------------------------------------------
    @staticmethod
    def atom(base: str, key: str):
        def is_get(e: ast.AST) -> bool:
            return (isinstance(e, ast.Call) and isinstance(e.func, ast.Attribute) and e.func.attr == "get" and len(e.args) == 1 and not e.keywords
                    and isinstance(e.args[0], ast.Constant) and e.args[0].value == key and dotted_name(e.func.value) == base)

        def at(e: ast.AST) -> Optional[bool]:
            if isinstance(e, ast.Compare) and len(e.ops) == 1:
                a, b, op = e.left, e.comparators[0], e.ops[0]
                if isinstance(a, ast.Constant) and a.value == key and isinstance(op, (ast.In, ast.NotIn)):
                    holder = b
                    if isinstance(holder, ast.Call) and isinstance(holder.func, ast.Attribute) and holder.func.attr == "keys" and not holder.args:
                        holder = holder.func.value
                    if dotted_name(holder) == base:
                        return isinstance(op, ast.In)
                nt = _none_test(e)
                if nt is not None and is_get(nt[0]) and isinstance(op, (ast.Is, ast.IsNot)):
                    return nt[1]
            if is_get(e):
                return True     # a true `B.get(k)` was found under k
            return None
        return at

    def _guarded_in_expression(self, sub: ast.AST, base: str, key: str) -> bool:
        """`B[k] if k in B else d`, `k in B and B[k]`, `k not in B or B[k]`, `[.. B[k] .. for .. if k in B]`."""
        at = self.atom(base, key)
        cur = sub
        for a in ancestors(sub):
            if isinstance(a, ast.stmt) or isinstance(a, FuncNode + (ast.Lambda,)):
                break
            if isinstance(a, ast.IfExp):
                e = edges_guaranteeing(a.test, at)
                if (cur is a.body and "T" in e) or (cur is a.orelse and "F" in e):
                    return True
            elif isinstance(a, ast.BoolOp):
                idx = next((i for i, v in enumerate(a.values) if v is cur), 0)
                want = "T" if isinstance(a.op, ast.And) else "F"
                if any(want in edges_guaranteeing(v, at) for v in a.values[:idx]):
                    return True
            elif isinstance(a, (ast.ListComp, ast.SetComp, ast.GeneratorExp, ast.DictComp)):
                inside_elt = cur is not None and not isinstance(cur, ast.comprehension)
                if inside_elt and any("T" in edges_guaranteeing(t, at) for g_ in a.generators for t in g_.ifs):
                    return True
            cur = a
        return False

    # -- what a CFG node does to the fact ------------------------------------
    def _value_has(self, mod, fn: ast.AST, v: Optional[ast.AST], key: str, at_nodes: List[int], depth: int) -> bool:
        if v is None or depth > 3:
            return False
        keys = _display_keys(v)
        if keys is not None:
            if key in keys:
                return True
            if isinstance(v, ast.Dict):
                return any(k is None and self._value_has(mod, fn, sv, key, at_nodes, depth + 1) for k, sv in zip(v.keys, v.values))
            return False
        if isinstance(v, ast.IfExp):
            return self._value_has(mod, fn, v.body, key, at_nodes, depth + 1) and self._value_has(mod, fn, v.orelse, key, at_nodes, depth + 1)
        if isinstance(v, ast.NamedExpr):
            return self._value_has(mod, fn, v.value, key, at_nodes, depth + 1)
        if isinstance(v, ast.BinOp) and isinstance(v.op, ast.BitOr):
            return self._value_has(mod, fn, v.left, key, at_nodes, depth + 1) or self._value_has(mod, fn, v.right, key, at_nodes, depth + 1)
        if isinstance(v, ast.Call):
            f = v.func
            if isinstance(f, ast.Name) and f.id == "dict" and len(v.args) == 1:
                return key in {k.arg for k in v.keywords} or self._value_has(mod, fn, v.args[0], key, at_nodes, depth + 1)
            if isinstance(f, ast.Attribute) and f.attr == "copy" and not v.args and not v.keywords:
                return self._value_has(mod, fn, f.value, key, at_nodes, depth + 1)
            if isinstance(f, ast.Name) and f.id in ("deepcopy",) or (isinstance(f, ast.Attribute) and f.attr == "deepcopy"):
                return bool(v.args) and self._value_has(mod, fn, v.args[0], key, at_nodes, depth + 1)
            return self._returns_have(mod, v, key, depth + 1)
        if dotted_name(v) is not None:
            return bool(at_nodes) and self.holds(mod, fn, dotted_name(v), key, at_nodes, depth + 1)
        return False

    def _returns_have(self, mod, call: ast.Call, key: str, depth: int) -> bool:
        try:
            targets = [t for t in self.repo.resolve_call(mod, call) if isinstance(t[1], FuncNode)]
        except Exception:
            targets = []
        concrete = [t for t in targets if not _is_abstract(t[1])]
        if not concrete:
            return False
        for m_, t_ in concrete:
            tag = (id(t_), "<return>", key)
            if tag in self._busy:
                return False
            self._busy.add(tag)
            try:
                rets = [r_ for r_ in walk_no_nested(t_) if isinstance(r_, ast.Return)]
                if not rets or any(isinstance(x, (ast.Yield, ast.YieldFrom)) for x in walk_no_nested(t_)):
                    return False
                for r_ in rets:
                    if not self._value_has(m_, t_, r_.value, key, self.nodes_of(t_, r_), depth):
                        return False
            finally:
                self._busy.discard(tag)
        return True

    def _effect(self, mod, fn: ast.AST, n, base: str, key: str, depth: int) -> Tuple[bool, bool]:
        """(establishes, loses) the fact `key in base` when CFG node *n* completes normally."""
        root = base.split(".")[0]
        gen = kill = keeps = False
        a = n.ast
        if a is None:
            return False, False
        if n.kind == "stmt" and not isinstance(a, FuncNode + (ast.ClassDef,)):
            pairs: List[Tuple[ast.AST, Optional[ast.AST]]] = []
            if isinstance(a, ast.Assign):
                pairs = [(t, a.value) for t in a.targets]
            elif isinstance(a, ast.AnnAssign):
                pairs = [(a.target, a.value)]
            for t, v in pairs:
                if isinstance(t, (ast.Tuple, ast.List)) and isinstance(v, (ast.Tuple, ast.List)) and len(t.elts) == len(v.elts):
                    sub_pairs = list(zip(t.elts, v.elts))
                else:
                    sub_pairs = [(t, v)]
                for t2, v2 in sub_pairs:
                    if dotted_name(t2) == base and v2 is not None:
                        if _copy_of(v2, base):
                            keeps = True    # `B = dict(B)` / `B = {**B, ..}`: what held of B still holds
                            if key in (_display_keys(v2) or set()):
                                gen = True
                            continue
                        # the right-hand side is evaluated with the facts that hold on entry to this statement
                        if self._value_has(mod, fn, v2, key, [n.id], depth):
                            gen = True
                        else:
                            kill = True
                    elif isinstance(t2, ast.Subscript) and dotted_name(t2.value) == base and isinstance(t2.slice, ast.Constant) and t2.slice.value == key:
                        gen = True
            if isinstance(a, ast.AugAssign) and dotted_name(a.target) == base and isinstance(a.op, ast.BitOr) and self._value_has(mod, fn, a.value, key, [n.id], depth):
                gen = True
            if isinstance(a, ast.Delete):
                for t in a.targets:
                    if isinstance(t, ast.Subscript) and dotted_name(t.value) == base:
                        kill = True
        part = n.part if n.kind != "except" else None
        if part is not None and not (n.kind == "stmt" and isinstance(a, FuncNode + (ast.ClassDef,))):
            for c in walk_no_nested(part):
                if isinstance(c, ast.Call) and isinstance(c.func, ast.Attribute) and dotted_name(c.func.value) == base:
                    m_ = c.func.attr
                    if m_ == "setdefault" and c.args and isinstance(c.args[0], ast.Constant) and c.args[0].value == key:
                        gen = True
                    elif m_ == "update" and ((c.args and key in (_display_keys(c.args[0]) or set())) or any(k.arg == key for k in c.keywords)):
                        gen = True
                    elif m_ in ("pop", "__delitem__") and not (c.args and isinstance(c.args[0], ast.Constant) and c.args[0].value != key):
                        kill = True
                    elif m_ in ("clear", "popitem"):
                        kill = True
        defs, unb = _node_defs(n)
        if root in unb:
            kill = True
        if root in defs and not gen and not keeps:
            kill = True
        return gen, (kill and not gen)

    def holds(self, mod, fn: ast.AST, base: str, key: str, at_nodes: List[int], depth: int = 0) -> bool:
        """`key in base` on every path from the entry of *fn* to each of *at_nodes*."""
        if depth > 4 or isinstance(fn, ast.Lambda):
            return False
        tag = (id(fn), base, key)
        if tag in self._busy:
            return False
        self._busy.add(tag)
        try:
            g = self.cfg(fn)
            at = self.atom(base, key)
            effects: Dict[int, Tuple[bool, bool]] = {}

            def run_from(entry_fact: bool) -> bool:
                seen: Set[Tuple[int, bool]] = {(g.entry, entry_fact)}
                todo = [(g.entry, entry_fact)]
                while todo:
                    nid, has = todo.pop()
                    n = g.nodes[nid]
                    if nid not in effects:
                        effects[nid] = self._effect(mod, fn, n, base, key, depth)
                    gen, kill = effects[nid]
                    guaranteed = edges_guaranteeing(n.part, at) if n.kind in ("if", "while") and n.part is not None else set()
                    for t, lab in g.succ[nid]:
                        if lab in (EXC, BASE):
                            out = has and not kill
                        else:
                            out = (has or gen) and not kill
                            if lab in guaranteed:
                                out = True
                        if (t, out) not in seen:
                            seen.add((t, out))
                            todo.append((t, out))
                return not any((u, False) in seen for u in at_nodes)

            if run_from(False):
                return True
            # B is a parameter of the function: the mapping every caller hands over holds the key
            if base in _param_names(fn) and run_from(True):
                sites = self.sites_of(fn)
                if not sites:
                    return False
                for c in sites:
                    binding = _bind_params(fn, c) or {}
                    arg = binding.get(base)
                    from ..engine import enclosing_function
                    caller = enclosing_function(c)
                    if arg is None or caller is None or isinstance(caller, ast.Lambda):
                        return False
                    cmod = self.repo.module_of(caller)
                    if not self._value_has(cmod, caller, arg, key, self.nodes_of(caller, c), depth + 1):
                        return False
                return True
            # B is an attribute of the instance: every store of it in the class binds a display that holds the key
            if base.startswith("self.") and base.count(".") == 1:
                from ..engine import enclosing_class
                cls = enclosing_class(fn)
                if cls is None:
                    return False
                stores = 0
                for x in ast.walk(cls):
                    if isinstance(x, (ast.Assign, ast.AnnAssign)):
                        for t in (x.targets if isinstance(x, ast.Assign) else [x.target]):
                            if dotted_name(t) == base:
                                if x.value is None or key not in (_display_keys(x.value) or set()):
                                    return False
                                stores += 1
                    elif isinstance(x, ast.Call) and isinstance(x.func, ast.Attribute) and dotted_name(x.func.value) == base and x.func.attr in ("pop", "clear", "popitem", "__delitem__"):
                        return False
                    elif isinstance(x, ast.Delete) and any(isinstance(t, ast.Subscript) and dotted_name(t.value) == base for t in x.targets):
                        return False
                return stores > 0
            return False
        finally:
            self._busy.discard(tag)


def _key_lookups(region: ast.AST) -> List[Tuple[ast.AST, ast.AST, str, str]]:
    """[(site, base expression, key, how)] for the lookups of a constant text key evaluated in *region* that raise
    KeyError when the key is absent; annotations are not evaluated code and are skipped."""
    skip: Set[int] = set()
    for x in ast.walk(region):
        if isinstance(x, ast.AnnAssign):
            skip |= {id(y) for y in ast.walk(x.annotation)}
        elif isinstance(x, ast.arg) and x.annotation is not None:
            skip |= {id(y) for y in ast.walk(x.annotation)}
        elif isinstance(x, FuncNode) and x.returns is not None:
            skip |= {id(y) for y in ast.walk(x.returns)}
    out: List[Tuple[ast.AST, ast.AST, str, str]] = []
    for x in walk_no_nested(region):
        if id(x) in skip:
            continue
        if isinstance(x, ast.Subscript) and isinstance(x.ctx, (ast.Load, ast.Del)) and isinstance(x.slice, ast.Constant) and isinstance(x.slice.value, str):
            out.append((x, x.value, x.slice.value, "subscript"))
        elif (isinstance(x, ast.Call) and isinstance(x.func, ast.Attribute) and x.func.attr in ("pop", "__getitem__", "__delitem__") and len(x.args) == 1 and not x.keywords
              and isinstance(x.args[0], ast.Constant) and isinstance(x.args[0].value, str)):
            out.append((x, x.func.value, x.args[0].value, f".{x.func.attr}() without default"))
    return out


def _closing_key_lookup_rule(repo: Repo, R: Report) -> None:
    r = R.rule("C06-D1i-closing-code-key-lookups-total", "the code that runs while execute() holds a caught exception (its handlers / finally blocks and every helper they call) looks up a constant key of a mapping (`m['k']`, `m.pop('k')`, `del m['k']`) only when the key is present on every path: bound by a display / store / setdefault that dominates the lookup (through call arguments and return values), proven by a `'k' in m` / `m.get('k')` test edge, or inside a try that contains KeyError - a key that is written only under a condition (a summary that exists only at some trace detail levels) raises KeyError inside `except BaseException`: the error SER / pipeline_end is not written and the caller gets KeyError instead of the exception of the node", 3)
    C = _closing_closure(repo)
    if len(C.info) < 3:
        raise AnalysisError("execute(): the helpers called from its handlers were not found (call graph from the closing code is empty)")
    by_fn = {fid: sites for fid, (_m, _f, _p, sites) in C.info.items()}
    K = _KeyFacts(repo, sites_of=lambda fn: by_fn.get(id(fn), []))
    typing_like = {"Optional", "Union", "List", "Dict", "Tuple", "Set", "Callable", "Type", "Literal", "Annotated", "ClassVar", "Final", "Sequence", "Mapping", "Iterable", "Iterator"}

    def decide(mod, fn: ast.AST, region: ast.AST, qn: str, path: Tuple[str, ...], sites: List[ast.Call]) -> int:
        bad = 0
        lookups = _key_lookups(region)
        for site, base_e, key, how in lookups:
            if isinstance(base_e, ast.Name) and base_e.id in typing_like and base_e.id not in _local_names(fn):
                continue    # Optional["Forward"] inside a cast(...) - a type expression
            if _contained_for(site, KEY_CONTAINING):
                continue
            if sites and all(_contained_for(c, KEY_CONTAINING) for c in sites):
                continue
            base = dotted_name(base_e)
            ok = False
            if base is not None:
                ok = K._guarded_in_expression(site, base, key) or K.holds(mod, fn, base, key, K.nodes_of(fn, site))
                if not ok and isinstance(base_e, ast.Name) and base_e.id not in _local_names(fn):
                    # a module-level table: a display that holds the key
                    lit = _module_literal(repo, mod, fn, base_e)
                    ok = key in (_display_keys(lit) or set())
            else:
                ok = K._value_has(mod, fn, base_e, key, K.nodes_of(fn, site), 0)
            if not ok:
                bad += 1
                R.violation(r, mod.rel, qn, norm(stmt_of(site))[:110],
                            f"`{norm(site)[:60]}` ({how}) looks up the key {key!r}, which is not present on every path that reaches this statement (it is stored only under a condition, or by the caller only sometimes), outside any try that contains KeyError. The statement runs inside execute()'s handlers ({' -> '.join(path[-4:])}): when the key is absent KeyError is raised there, the error SER / pipeline_end is not written and the caller receives KeyError instead of the exception the node raised", site.lineno)
        return bad

    n_funcs = 0
    raw = C.raw
    for label, body in _handler_regions(raw):
        bad = sum(decide(C.omod, raw, st, EXECUTE, (EXECUTE,), []) for st in body)
        if not bad:
            R.ok(r, ORCH, EXECUTE, f"{label}: key lookups", "none, or the key is present on every path")
    for _id, (mod, fn, path, sites) in sorted(C.info.items(), key=lambda kv: (kv[1][0].rel, kv[1][1].lineno)):
        n_funcs += 1
        qn = qualname_of(fn)
        if not decide(mod, fn, fn, qn, path, sites):
            R.ok(r, mod.rel, qn, f"{qn}: key lookups", "none, or the key is present on every path")
    if n_funcs < 3:
        raise AnalysisError("closing code: fewer than three helpers on the call graph from execute()'s handlers")
