"""C17 - the CLI never executes a configuration its pre-flight checks reject.

D1 every executing call in cli._run is dominated by every gate (CFG + guard dominance),
   CLI flags reach the gates (flag-driven sections stay attached to the parsed config),
   nothing that `_run` calls before the last gate passed can create/modify a file or emit a trace record
   (call-graph closure of every pre-gate call: constructors of the trace driver, the execution
   components, the Pipeline, run-space expansion, the dry-run printers),
   the missing-key gate compares the *untransformed* key set of the context the first run receives,
D2 exit-code table,
D3 success iff all runs completed; stop at first failure,
D4 the required-key set the missing-key gate relies on is order-sensitive (C02-D2 rule re-applied);
   the validation gate applies the data-type test to every node that declares an input type and has
   a typed predecessor (the run-time gate of _DataNode._process is unconditional).
"""
from __future__ import annotations

import ast
from typing import Dict, List, Optional, Set, Tuple

from ..cfg import BASE, CFG, EXC, edges_guaranteeing, reaching_defs, returns_only_through
from ..engine import (
    AnalysisError,
    FuncNode,
    Repo,
    assigned_value,
    call_attr,
    call_name,
    calls_in,
    dotted_name,
    kwarg,
    norm,
    stmt_of,
    walk_no_nested,
)
from ..report import Report

CLI = "semantiva/cli/__init__.py"
EXEC_ATTRS = {"process", "execute", "emit_start", "emit_end", "on_pipeline_start", "on_node_event", "on_pipeline_end", "on_run_space_start", "on_run_space_end"}
DOCUMENTED_CODES = {"EXIT_SUCCESS": 0, "EXIT_CLI_ERROR": 1, "EXIT_FILE_ERROR": 2, "EXIT_CONFIG_ERROR": 3, "EXIT_RUNTIME_ERROR": 4, "EXIT_INTERRUPT": 5}
GATE_CALLS = ("parse_pipeline_config", "build_pipeline_inspection", "validate_pipeline", "expand_run_space")


def exec_nodes(g: CFG) -> List:
    out = []
    for n in g.nodes:
        if n.ast is None or n.kind not in ("stmt",):
            continue
        for c in calls_in(n.ast):
            if isinstance(c.func, ast.Attribute) and c.func.attr in EXEC_ATTRS:
                out.append(n)
                break
    return out


def run(repo: Repo, R: Report) -> None:
    mod = repo.module(CLI)
    fn = repo.func(CLI, "_run")
    R.assume(
        "constructing Pipeline(...) and the trace driver executes no node (that they create / open no file is decided by C17-D1-preflight-writes-nothing over the resolvable call graph)",
        "calls before the gates whose target is not statically known (classes taken from the execution-component registry: transport_cls(), executor_cls(), orchestrator factories of plug-ins) and file writes that are not visible as such in the call (third-party savers) do not write files",
        "print/logger calls do not raise",
    )
    R.undecided("that sinks/trace files are really untouched (nothing is run); accuracy of inspection itself beyond the order-sensitivity rule and the coverage of the data-type test; open(...) with a non-literal mode")

    def may_raise(part: ast.AST) -> Set[str]:
        for n in walk_no_nested(part):
            if isinstance(n, ast.Raise):
                return {EXC}
            if isinstance(n, ast.Call):
                d = call_name(n) or ""
                if d == "print" or d.split(".")[0] == "logger" or d in ("isinstance", "len", "sorted", "set", "dict", "str", "any", "repr", "getattr"):
                    continue
                return {EXC, BASE}
        return set()

    g = CFG(fn, may_raise=may_raise)
    # ---- roles (locals are identified by what defines them, not by their names)
    from ..pat import find, find1, match, name_of

    m = find1(fn, "_PC_ = parse_pipeline_config(_CFG_, source_path=_ANY_, base_dir=_ANY_)") or find1(fn, "_PC_ = parse_pipeline_config(_CFG_)")
    if m is None:
        pcs = [n for n in ast.walk(fn) if isinstance(n, ast.Assign) and isinstance(n.value, ast.Call) and call_attr(n.value) == "parse_pipeline_config" and n.value.args]
        if not pcs:
            raise AnalysisError("_run: parse_pipeline_config(...) assignment not found")
        PCFG, CONFIG = dotted_name(pcs[0].targets[0]), dotted_name(pcs[0].value.args[0])
    else:
        PCFG, CONFIG = name_of(m[1], "_PC_"), name_of(m[1], "_CFG_")
    mi = find1(fn, f"_I_ = build_pipeline_inspection({PCFG}.nodes)")
    INSP = name_of(mi[1], "_I_") if mi else "__missing__"
    # --context dictionary: filled in the loop over args.contexts
    CTX = None
    for lp in [n for n in walk_no_nested(fn) if isinstance(n, ast.For) and dotted_name(n.iter) == "args.contexts"]:
        for st in ast.walk(lp):
            if isinstance(st, ast.Assign) and isinstance(st.targets[0], ast.Subscript) and isinstance(st.targets[0].value, ast.Name):
                CTX = st.targets[0].value.id
    # missing-key list: the `if X:` whose body lists missing keys; X = sorted(required.difference(supplied.keys()))
    MISSING = _missing_role(fn, fn) or _missing_role(_run_normal_form(repo, fn), fn)
    EXITVAR = None
    for r in [n for n in walk_no_nested(fn) if isinstance(n, ast.Return) and isinstance(n.value, ast.Name)]:
        if r.value.id not in DOCUMENTED_CODES:
            EXITVAR = r.value.id
    if MISSING is None or EXITVAR is None or CTX is None:
        raise AnalysisError(f"_run: roles not recognised (missing={MISSING}, exit={EXITVAR}, context={CTX})")
    ex = exec_nodes(g)
    proc = [n for n in ex if any(call_attr(c) == "process" for c in calls_in(n.ast))]
    if len(proc) != 1:
        raise AnalysisError(f"_run: expected one pipeline.process site, found {len(proc)}")
    if len(ex) < 2:
        raise AnalysisError("_run: executing call sites not found")

    # ---------------------------------------------------------------- D1 gates
    r_gate = R.rule("C17-D1-gates-dominate-execution", "every executing call in _run (pipeline.process, run-space emit_start/emit_end, driver calls) is reachable only after each gate passed: config parsed, inspected, validated, run space expanded, no --validate, no missing key, no dry run", 12)
    gate_nodes = {}
    for n in g.nodes:
        if n.ast is None or n.kind != "stmt":
            continue
        for c in calls_in(n.ast):
            a = call_attr(c)
            if a in GATE_CALLS and a not in gate_nodes:
                gate_nodes[a] = n
    for name in GATE_CALLS:
        gn = gate_nodes.get(name)
        if gn is None:
            R.violation(r_gate, CLI, "_run", f"{name}(...)", f"pre-flight gate {name} is no longer called in _run", fn.lineno)
            continue
        # (a) dominates every executing node
        not_dom = [e for e in ex if not g.dominated_by_node(e.id, gn.id)]
        R.check(not not_dom, r_gate, CLI, "_run", f"{name}(...) dominates execution", f"an executing call is reachable without {name} having run: `{norm(not_dom[0].ast)[:70]}`" if not_dom else "", gn.line)
        # (b) a failing gate reaches no executing call
        fail_succ = [t for t, lab in g.succ[gn.id] if lab in (EXC, BASE)]
        seen = g.reach(fail_succ)
        hit = [e for e in ex if e.id in seen]
        R.check(not hit, r_gate, CLI, "_run", f"{name}(...) failure -> no execution", "after this gate raised, an executing call is still reachable", gn.line, g.path_to(seen, hit[0].id) if hit else None)
        # (c) a failing gate ends in a non-zero exit
        rets = [n for n in g.nodes if n.id in seen and n.kind == "stmt" and isinstance(n.ast, ast.Return)]
        zero = [n for n in rets if dotted_name(n.ast.value) == "EXIT_SUCCESS" or (isinstance(n.ast.value, ast.Constant) and n.ast.value.value == 0)]
        R.check(not zero and (bool(rets) or g.exc_exit in seen), r_gate, CLI, "_run", f"{name}(...) failure -> non-zero exit", "a rejected configuration exits with the success code", gn.line)

    def flag_atom(expr_text: str):
        def atom(e: ast.AST) -> Optional[bool]:
            # the atom is "the flag is NOT set"
            if dotted_name(e) == expr_text:
                return False
            return None
        return atom

    flag_tests = ["args.validate", "args.dry_run", f"{PCFG}.run_space.dry_run", MISSING]
    for ft in flag_tests:
        holds, path, guards = returns_only_through(g, flag_atom(ft), targets=[e.id for e in ex])
        R.check(holds and guards > 0, r_gate, CLI, "_run", f"`if {ft}:` false-branch dominates execution",
                f"an executing call is reachable although `{ft}` holds (or the test vanished)", fn.lineno, path)
        # the true branch returns EXIT_SUCCESS for validate / dry runs, non-zero for missing
        for n in g.nodes:
            if n.kind == "if" and n.part is not None and dotted_name(n.part) == ft:
                t_succ = [t for t, lab in g.succ[n.id] if lab == "T"]
                seen = g.reach(t_succ, blocked={t for t, lab in g.succ[n.id] if lab == "F"})
                rets = [m for m in g.nodes if m.id in seen and m.kind == "stmt" and isinstance(m.ast, ast.Return)]
                want_zero = ft != MISSING
                vals = {dotted_name(m.ast.value) for m in rets}
                ok = bool(rets) and (vals == {"EXIT_SUCCESS"} if want_zero else "EXIT_SUCCESS" not in vals and vals <= set(DOCUMENTED_CODES))
                R.check(ok, r_gate, CLI, "_run", f"`if {ft}:` exit code", f"the `{ft}` branch exits with {sorted(map(str, vals))}", n.line)
    # ---- nothing called before the last gate passed writes a file or emits a trace record
    preflight_effects_rule(repo, R, mod, fn, g, gate_nodes, flag_tests, flag_atom)

    # missing is computed from inspection.required_context_keys minus supplied keys
    r_miss = R.rule("C17-D1-missing-key-set", "missing = inspection.required_context_keys minus the keys supplied by --context and the run space: the supplied side is the untransformed key set of a mapping that holds exactly the --context keys plus the keys of a planned run (what the first run receives as its context)", 4)
    for ok, stmt, what, line in missing_key_gate(repo, fn, MISSING, INSP, CTX):
        R.check(ok, r_miss, CLI, "_run", stmt, what, line or fn.lineno)
    insp = assigned_value(fn, INSP)
    ok = any(isinstance(v, ast.Call) and call_attr(v) == "build_pipeline_inspection" and v.args and PCFG in ast.unparse(v.args[0]) for v in insp)
    R.check(ok, r_miss, CLI, "_run", "inspection = build_pipeline_inspection(pipeline_cfg.nodes)", "the inspected nodes are not the parsed configuration's nodes", fn.lineno)

    # flags reach the gates: sections written from args.* are attached to config before parsing
    r_attach = R.rule("C17-D1-flags-reach-gates", "every mapping that receives a CLI-flag value (run_space dry_run / max_runs, execution, trace options) is attached to the configuration that is parsed", 3)
    def attached_at(holder: str, use_stmt: ast.AST, depth: int = 0) -> bool:
        """Every definition of *holder* reaching *use_stmt* makes it a part of `config`."""
        if holder == CONFIG:
            return True
        if depth > 4:
            return False
        uses = g.nodes_for(use_stmt)
        if not uses:
            return False
        defs = reaching_defs(g, holder, uses[0])
        if not defs:
            return False
        def form(v: Optional[ast.AST], at: ast.AST) -> bool:
            if isinstance(v, ast.IfExp):
                return form(v.body, at) and form(v.orelse, at)
            base = None
            if isinstance(v, ast.Call) and call_attr(v) == "setdefault" and isinstance(v.func, ast.Attribute):
                base = dotted_name(v.func.value)
            elif isinstance(v, ast.Subscript):
                base = dotted_name(v.value)
            return base is not None and attached_at(base, at, depth + 1)

        return all(form(getattr(d.ast, "value", None), d.ast) for d in defs)

    assigns = [n for n in walk_no_nested(fn) if isinstance(n, ast.Assign) and len(n.targets) == 1]
    n_flag_stores = 0
    for a in assigns:
        t = a.targets[0]
        if isinstance(t, ast.Subscript) and isinstance(t.value, ast.Name) and isinstance(t.slice, ast.Constant):
            uses_args = any(isinstance(x, ast.Attribute) and isinstance(x.value, ast.Name) and x.value.id == "args" for x in ast.walk(a.value)) or (
                isinstance(a.value, ast.Constant) and a.value.value is True)
            if not uses_args:
                continue
            holder = t.value.id
            if holder == CTX or not _feeds_config(fn, holder, CONFIG):
                continue
            n_flag_stores += 1
            ok = attached_at(holder, a) or any(isinstance(b.targets[0], ast.Subscript) and dotted_name(b.targets[0].value) == CONFIG and isinstance(b.value, ast.Name) and b.value.id == holder and b.lineno > a.lineno for b in assigns)
            R.check(ok, r_attach, CLI, "_run", norm(a), f"the flag value is written into `{holder}`, which is not (a part of) the configuration that gets parsed: the flag is silently ignored and the gate it controls stays open", a.lineno)
    if n_flag_stores == 0:
        raise AnalysisError("_run: no flag-driven configuration stores found")
    parse_call = next((c for c in calls_in(fn) if call_attr(c) == "parse_pipeline_config"), None)
    R.check(parse_call is not None and parse_call.args and dotted_name(parse_call.args[0]) == CONFIG, r_attach, CLI, "_run", "parse_pipeline_config(config, ...)", "the parsed object is not the merged configuration", fn.lineno)

    # ---------------------------------------------------------------- D2 exit codes
    r_codes = R.rule("C17-D2-exit-codes", "EXIT_* constants carry the documented numbers; every return of _run is one of them (or exit_code); helpers exit with them", 10)
    for name, val in DOCUMENTED_CODES.items():
        found = [st for st in mod.tree.body if isinstance(st, ast.Assign) and any(isinstance(t, ast.Name) and t.id == name for t in st.targets)]
        ok = len(found) == 1 and isinstance(found[0].value, ast.Constant) and found[0].value.value == val
        R.check(ok, r_codes, CLI, "<module>", f"{name} = {val}", f"{name} is not the documented value {val}", found[0].lineno if found else 0)
    for n in walk_no_nested(fn):
        if isinstance(n, ast.Return):
            d = dotted_name(n.value) if n.value is not None else None
            R.check(d in DOCUMENTED_CODES or d == EXITVAR, r_codes, CLI, "_run", norm(n), "return value is not an EXIT_* constant", n.lineno)
    ly = repo.func(CLI, "_load_yaml")
    for h in [x for x in ast.walk(ly) if isinstance(x, ast.ExceptHandler)]:
        tname = ast.unparse(h.type) if h.type is not None else ""
        want = "EXIT_FILE_ERROR" if "FileNotFoundError" in tname else "EXIT_CONFIG_ERROR"
        codes = [dotted_name(c.args[0]) for c in ast.walk(h) if isinstance(c, ast.Call) and call_attr(c) == "SystemExit" and c.args]
        R.check(codes == [want], r_codes, CLI, "_load_yaml", norm(h), f"{tname} does not exit with {want}", h.lineno)
    # class -> code for the gates of _run
    want_by_gate = {"parse_pipeline_config": "EXIT_CONFIG_ERROR", "build_pipeline_inspection": "EXIT_CONFIG_ERROR", "validate_pipeline": "EXIT_CONFIG_ERROR", "expand_run_space": "EXIT_CONFIG_ERROR"}
    for name, want in want_by_gate.items():
        gn = gate_nodes.get(name)
        if gn is None:
            continue
        fail_succ = [t for t, lab in g.succ[gn.id] if lab == EXC]
        seen = g.reach(fail_succ, skip_labels={BASE})
        # handlers directly attached: first returns reached without passing another gate
        rets = set()
        for t in fail_succ:
            sub = g.reach([t])
            for m in g.nodes:
                if m.id in sub and m.kind == "stmt" and isinstance(m.ast, ast.Return) and g.nodes[t].kind == "except":
                    h = g.nodes[t].ast
                    if any(x is m.ast for x in ast.walk(h)):
                        rets.add(dotted_name(m.ast.value))
        R.check(rets == {want}, r_codes, CLI, "_run", f"{name} failure -> {want}", f"rejection by {name} exits with {sorted(map(str, rets))} instead of {want}", gn.line)

    # ---------------------------------------------------------------- D3 success iff all runs completed
    r_succ = R.rule("C17-D3-success-iff-all-runs", "exit_code starts as EXIT_SUCCESS and is changed only by the handlers of the run loop, each to a non-zero code; a failing run leaves the loop (no later run starts) and reaches `return exit_code` through such a handler", 4)
    pn = proc[0]
    ec_assigns = [n for n in walk_no_nested(fn) if isinstance(n, ast.Assign) and any(isinstance(t, ast.Name) and t.id == EXITVAR for t in n.targets)]
    inits = [a for a in ec_assigns if dotted_name(a.value) == "EXIT_SUCCESS"]
    others = [a for a in ec_assigns if a not in inits]
    R.check(len(inits) == 1, r_succ, CLI, "_run", "exit_code = EXIT_SUCCESS", "exit_code is not initialised exactly once to success", fn.lineno)
    for a in others:
        in_handler = any(isinstance(x, ast.ExceptHandler) for x in _anc(a))
        d = dotted_name(a.value)
        R.check(in_handler and d in DOCUMENTED_CODES and DOCUMENTED_CODES[d] != 0, r_succ, CLI, "_run", norm(a), "exit_code is set outside a failure handler or to a zero / unknown code", a.lineno)
    for label, labs in (("Exception", {EXC}), ("BaseException", {BASE})):
        fail_succ = [t for t, lab in g.succ[pn.id] if lab in labs]
        seen = g.reach(fail_succ)
        R.check(pn.id not in seen, r_succ, CLI, "_run", f"process failure ({label}) -> loop left", "after a failed run the loop continues: later runs are started", pn.line, g.path_to(seen, pn.id) if pn.id in seen else None)
        if label == "Exception":
            setters = {n.id for n in g.nodes if n.ast is not None and any(n.ast is a for a in others)}
            bad = g.must_pass(fail_succ, [g.ret_exit], lambda n: n.id in setters)
            R.check(not bad, r_succ, CLI, "_run", "process failure (Exception) -> non-zero exit_code", "a failed run can reach `return exit_code` with the success code", pn.line, bad[0][1] if bad else None)
    # KeyboardInterrupt maps to EXIT_INTERRUPT
    ki = [h for h in ast.walk(fn) if isinstance(h, ast.ExceptHandler) and h.type is not None and "KeyboardInterrupt" in ast.unparse(h.type)]
    ok = bool(ki) and any(isinstance(a, ast.Assign) and dotted_name(a.value) == "EXIT_INTERRUPT" for a in ast.walk(ki[0]))
    R.check(ok, r_codes, CLI, "_run", "except KeyboardInterrupt -> EXIT_INTERRUPT", "interrupt is not mapped to the documented code", ki[0].lineno if ki else fn.lineno)
    rt = [h for h in ast.walk(fn) if isinstance(h, ast.ExceptHandler) and h.type is not None and ast.unparse(h.type).strip("()\n ") == "Exception" and any(isinstance(a, ast.Assign) and any(dotted_name(t) == EXITVAR for t in a.targets) for a in ast.walk(h))]
    ok = bool(rt) and any(isinstance(a, ast.Assign) and dotted_name(a.value) == "EXIT_RUNTIME_ERROR" for a in ast.walk(rt[0]))
    R.check(ok, r_codes, CLI, "_run", "except Exception -> EXIT_RUNTIME_ERROR", "run failure is not mapped to the documented code", rt[0].lineno if rt else fn.lineno)

    # ---------------------------------------------------------------- D4 dependency on inspection
    from . import c02

    R.rule_prefix = "C17-D4/"
    try:
        c02.required_keys_rule(repo, R)
    finally:
        R.rule_prefix = ""
    validation_gate_rule(repo, R)


def _anc(n):
    from ..engine import ancestors
    return ancestors(n)


def _feeds_config(fn: ast.AST, holder: str, config: str) -> bool:
    """Is *holder* a mapping that is meant to become part of the configuration (it is obtained from the
    configuration, or stored into it)?  Mappings that are unrelated to it (summaries, metadata of a run)
    are not subject to the attachment rule."""
    for v in assigned_value(fn, holder):
        names = {x.id for x in ast.walk(v) if isinstance(x, ast.Name)}
        if config in names:
            return True
        for nm in names:
            if nm != holder and _feeds_config_depth(fn, nm, config, 0):
                return True
    for n in ast.walk(fn):
        if isinstance(n, ast.Assign) and isinstance(n.value, ast.Name) and n.value.id == holder and any(isinstance(t, ast.Subscript) and dotted_name(t.value) == config for t in n.targets):
            return True
    return False


def _feeds_config_depth(fn: ast.AST, name: str, config: str, depth: int) -> bool:
    if depth > 3:
        return False
    for v in assigned_value(fn, name):
        names = {x.id for x in ast.walk(v) if isinstance(x, ast.Name)}
        if config in names:
            return True
        if any(_feeds_config_depth(fn, nm, config, depth + 1) for nm in names if nm != name):
            return True
    return False


# ---------------------------------------------------------------------------------------------
# D1: side effects of what runs before the gates have passed
# ---------------------------------------------------------------------------------------------
# file-system operations that create / modify / delete something (unambiguous method names)
FS_WRITE_ATTRS = {
    "mkdir", "makedirs", "touch", "write_text", "write_bytes", "unlink", "rmdir", "rmtree", "symlink_to", "hardlink_to",
    "mkdtemp", "mkstemp", "NamedTemporaryFile", "TemporaryDirectory", "FileHandler", "RotatingFileHandler",
    "TimedRotatingFileHandler", "copyfile", "copytree", "copy2",
}
# names that are only file operations when qualified by these modules (list.remove, str.replace, dict.copy ...)
FS_WRITE_QUALIFIED = {"os": {"remove", "rename", "replace", "renames", "truncate", "link", "symlink"}, "shutil": {"copy", "move", "make_archive"}}
# the trace-driver / run-space emitter protocol: each of these writes a trace record (and opens the file)
TRACE_EMIT_ATTRS = EXEC_ATTRS - {"process", "execute"}


def _fs_effect(c: ast.Call) -> Optional[str]:
    """What *c* does to the file system / the trace, when that is visible from the call itself."""
    f = c.func
    name = f.attr if isinstance(f, ast.Attribute) else f.id if isinstance(f, ast.Name) else None
    if name is None:
        return None
    if name in FS_WRITE_ATTRS:
        return f"file-system write `{name}`"
    if isinstance(f, ast.Attribute):
        recv = dotted_name(f.value) or ""
        if name in FS_WRITE_QUALIFIED.get(recv.split(".")[-1], ()):
            return f"file-system write `{recv}.{name}`"
    if name == "open":
        # builtin open(path, mode) / io.open / gzip.open(path, mode)  vs  Path.open(mode)
        builtin_like = isinstance(f, ast.Name) or (dotted_name(f.value) or "") in ("io", "gzip", "bz2", "lzma", "codecs", "os")
        if isinstance(f, ast.Attribute) and dotted_name(f.value) == "os":
            return None  # os.open takes integer flags; not modelled
        mode = kwarg(c, "mode")
        if mode is None:
            pos = 1 if builtin_like else 0
            mode = c.args[pos] if len(c.args) > pos else None
        if mode is None:
            return None  # default mode: read
        if isinstance(mode, ast.Constant) and isinstance(mode.value, str):
            return f"file opened for writing (mode {mode.value!r})" if set(mode.value) & set("wax+") else None
        return None  # mode not a literal: not decided here
    if isinstance(f, ast.Attribute) and name in TRACE_EMIT_ATTRS:
        return f"trace emission `{name}`"
    return None


def post_gate_nodes(g: CFG, gate_nodes: Dict[str, object], flag_tests: List[str], flag_atom) -> Tuple[Set[int], Set[int]]:
    """(nodes reachable from the entry, nodes reachable only after every gate passed)."""
    reachable = set(g.reach([g.entry]))
    post = set(reachable)
    for gn in gate_nodes.values():
        post -= set(g.reach([g.entry], blocked={gn.id}))
    for ft in flag_tests:
        atom = flag_atom(ft)
        blocked_edges = {(n.id, e) for n in g.nodes if n.kind in ("if", "while") and n.part is not None for e in edges_guaranteeing(n.part, atom)}
        if blocked_edges:
            post -= set(g.reach([g.entry], blocked_edges=blocked_edges))
    return reachable, post


def preflight_effects_rule(repo: Repo, R: Report, mod, fn: ast.AST, g: CFG, gate_nodes, flag_tests, flag_atom) -> None:
    """Every call that `_run` can make *before* all gates have passed (it is made for configurations that
    are going to be rejected, and for --validate / dry runs) must not be able to reach - through the
    call graph - an operation that creates or modifies a file or emits a trace record."""
    from ..engine import qualname_of

    r = R.rule("C17-D1-preflight-writes-nothing", "no call that _run makes before every gate has passed (loaders, parser, inspection, validation, the constructors of the trace driver / execution components / Pipeline, run-space expansion, the validate and dry-run branches) reaches a file-creating or file-modifying operation or a trace-driver emission through the call graph", 8)
    reachable, post = post_gate_nodes(g, gate_nodes, flag_tests, flag_atom)
    pre_calls: List[ast.Call] = []
    seen_calls: Set[int] = set()
    for n in g.nodes:
        if n.id not in reachable or n.id in post or n.part is None:
            continue
        for c in calls_in(n.part):
            if id(c) not in seen_calls:
                seen_calls.add(id(c))
                pre_calls.append(c)
    if not pre_calls:
        raise AnalysisError("_run: no call found before the gates")
    pre_calls.sort(key=lambda c: (c.lineno, c.col_offset))
    roots: List[Tuple[object, ast.AST]] = []
    root_site: Dict[str, ast.Call] = {}
    resolved_calls: List[Tuple[ast.Call, List[str]]] = []
    for c in pre_calls:
        if call_attr(c) in EXEC_ATTRS and isinstance(c.func, ast.Attribute):
            continue  # an executing call before a gate: that is rule C17-D1-gates-dominate-execution
        direct = _fs_effect(c)
        if direct:
            R.violation(r, CLI, "_run", norm(c)[:100], f"{direct} in _run at a point that is reached although a gate has not passed (rejected configuration, --validate or dry run): the run leaves a file behind", c.lineno)
            continue
        targets = repo.resolve_call(mod, c)
        keys = []
        for m, node in targets:
            key = f"{m.rel}:{qualname_of(node)}"
            keys.append(key)
            if key not in root_site:
                root_site[key] = c
                roots.append((m, node))
        if keys:
            resolved_calls.append((c, keys))
    clo = _closure(repo, roots)
    dirty_roots: Set[str] = set()
    reported: Set[Tuple[str, int, int]] = set()
    for _id, (m, node, path) in clo.items():
        for k in calls_in(node, include_nested=True):
            eff = _fs_effect(k)
            if not eff:
                continue
            dirty_roots.add(path[0])
            key3 = (m.rel, k.lineno, k.col_offset)
            if key3 in reported:
                continue
            reported.add(key3)
            c = root_site[path[0]]
            chain = " -> ".join(p.split(":", 1)[1] for p in path)
            R.violation(r, m.rel, qualname_of(node), norm(k)[:100], f"{eff}, reachable from `_run` line {c.lineno} ({chain}) before every pre-flight gate has passed: a configuration that is rejected afterwards, --validate or a dry run leaves a file / trace behind although no node ran", k.lineno, list(path))
    for c, keys in resolved_calls:
        if not (set(keys) & dirty_roots):
            R.ok(r, CLI, "_run", norm(c)[:100], "", c.lineno)


# ---------------------------------------------------------------------------------------------
# D4: the validation gate is as strict as the run-time gate
# ---------------------------------------------------------------------------------------------
VALIDATOR = "semantiva/inspection/validator.py"


def _implies_legit(test: ast.AST, polarity: bool, legit: Set[str]) -> bool:
    """Does `test` evaluating to *polarity* imply that one of the expressions in *legit* is None?"""
    if isinstance(test, ast.UnaryOp) and isinstance(test.op, ast.Not):
        return _implies_legit(test.operand, not polarity, legit)
    if isinstance(test, ast.BoolOp):
        conj = isinstance(test.op, ast.And)
        if conj == polarity:  # (A and B) true / (A or B) false: every operand has that value
            return any(_implies_legit(v, polarity, legit) for v in test.values)
        return all(_implies_legit(v, polarity, legit) for v in test.values)
    if isinstance(test, ast.Compare) and len(test.ops) == 1:
        left, op, right = test.left, test.ops[0], test.comparators[0]
        if isinstance(left, ast.Constant) and left.value is None:
            left, right = right, left
        if isinstance(right, ast.Constant) and right.value is None and ast.unparse(left) in legit:
            if isinstance(op, (ast.Is, ast.Eq)):
                return polarity is True
            if isinstance(op, (ast.IsNot, ast.NotEq)):
                return polarity is False
        return False
    if isinstance(test, ast.Call):
        return polarity is True and ast.unparse(test) in legit  # the compatibility test itself holds
    if ast.unparse(test) in legit:  # bare truthiness of an object-or-None / class-or-None
        return polarity is False
    return False


def validation_gate_rule(repo: Repo, R: Report) -> None:
    """`_DataNode._process` raises TypeError for *every* node whose input type is not a superclass of
    the data it receives.  The CLI stops such a configuration before execution only if the validator
    applies its compatibility test to every node that declares an input type and has a typed
    predecessor; and a failed test has to become a node error (validate_pipeline raises on those)."""
    from ..normal import nfunc
    from ..pat import find

    r = R.rule("C17-D4-validation-covers-typed-nodes", "in the data-flow validation loop every node reaches the compatibility test unless its input type is None or there is no typed predecessor (no other way round the test), and an incompatible pair reaches the statement that records a node error; validate_pipeline runs that validation before it collects and raises the recorded errors", 2)
    fname = "_validate_data_flow_compatibility"
    vf = nfunc(repo, VALIDATOR, fname, keep=("_is_compatible",), consts=False)
    hits = [(n, e) for n, e in find(vf, "_is_compatible(_P_.output_type, _N_.input_type)", nested=False)]
    if len(hits) != 1:
        raise AnalysisError(f"{fname}: expected one _is_compatible(<pred>.output_type, <node>.input_type) test, found {len(hits)}")
    comp, env = hits[0]
    P, N = ast.unparse(env["_P_"]), ast.unparse(env["_N_"])
    loop = next((a for a in _anc(comp) if isinstance(a, ast.For)), None)
    if loop is None or ast.unparse(loop.target) != N:
        raise AnalysisError(f"{fname}: the compatibility test is not inside the loop over the inspected nodes")
    g = CFG(vf, may_raise=lambda part: set())
    head = g.nodes_for(loop)
    comp_stmt = stmt_of(comp)
    cn = g.nodes_for(comp_stmt)
    if len(head) != 1 or len(cn) != 1:
        raise AnalysisError(f"{fname}: loop / test not found in the control-flow graph")
    head, cn = head[0], cn[0]
    legit = {P, f"{N}.input_type", ast.unparse(comp)}
    recorders = {n.id for n in g.nodes if n.part is not None and any(call_attr(c) in ("append", "extend", "add", "insert") and isinstance(c.func, ast.Attribute) and (_root_name(c.func.value) == N or "errors" in ast.unparse(c.func)) for c in calls_in(n.part))}
    recorders |= {n.id for n in g.nodes if n.kind == "stmt" and isinstance(n.ast, ast.Raise)}
    if not recorders:
        raise AnalysisError(f"{fname}: no statement records an error of the node")
    # an edge is fine when taking it implies: no typed predecessor, or no input type, or the pair is compatible
    fine_edges: Set[Tuple[int, str]] = set()
    tests = {}
    for n in g.nodes:
        if n.kind in ("if", "while") and n.part is not None:
            t = tests[n.id] = _named_test(g, n, {_root_name(env["_P_"]), _root_name(env["_N_"])})
            for lab, pol in (("T", True), ("F", False)):
                if _implies_legit(t, pol, legit):
                    fine_edges.add((n.id, lab))
    body_entry = [t for t, lab in g.succ[head] if lab == "T"]
    seen = g.reach(body_entry, blocked=recorders, blocked_edges=fine_edges)
    leaves = [x for x in (head, g.ret_exit) if x in seen]
    path = g.path_to(seen, leaves[0]) if leaves else None
    what, line = "", loop.lineno
    if leaves:
        # name the branch that lets the iteration end without a verdict
        on_path, cur = [], leaves[0]
        while cur is not None:
            on_path.append(cur)
            prev = seen.get(cur)
            cur = prev[0] if prev else None
        guilty = [g.nodes[i] for i in reversed(on_path) if i in tests and not all((i, lab) in fine_edges for lab in ("T", "F"))]
        comp_text = ast.unparse(comp)
        tested = any(comp_text in ast.unparse(tests[i]) for i in on_path if i in tests)
        gtxt = f" (`if {norm(tests[guilty[-1].id])[:90]}`)" if guilty else ""
        line = guilty[-1].line if guilty else loop.lineno
        if tested:
            what = f"an incompatible (predecessor output, node input) pair can end the iteration without a recorded error{gtxt}: validate_pipeline does not reject the configuration, the CLI runs it and the node raises TypeError after earlier nodes (sinks, trace) already ran"
        else:
            what = f"a node that declares an input type and has a typed predecessor can go round the compatibility test{gtxt}: validation accepts a pipeline whose node raises TypeError at run time, after earlier nodes (sinks, trace) already ran"
    R.check(not leaves, r, VALIDATOR, fname, f"each node: no typed predecessor | no input type | {norm(comp)[:60]} | error recorded", what, line, path)
    # ... and validate_pipeline runs the data-flow validation before it decides, and raises on recorded errors
    vp = nfunc(repo, VALIDATOR, "validate_pipeline", keep=(fname,), consts=False)
    gv = CFG(vp, may_raise=lambda part: set())
    flow_calls = [n for n in gv.nodes if n.part is not None and any((call_attr(c) or call_name(c)) == fname for c in calls_in(n.part))]
    raises = [n for n in gv.nodes if n.kind == "stmt" and isinstance(n.ast, ast.Raise)]
    reads = [n for n in gv.nodes if n.part is not None and any(isinstance(x, ast.Attribute) and x.attr == "errors" for x in ast.walk(n.part)) and n not in flow_calls]
    ok = bool(flow_calls) and bool(raises) and bool(reads) and all(gv.dominated_by_node(x.id, flow_calls[0].id) for x in raises + reads)
    R.check(ok, r, VALIDATOR, "validate_pipeline", f"{fname}(...) runs before the errors are collected and raised",
            "validate_pipeline does not run the data-flow validation before it collects the recorded errors (or never raises): an incompatible pipeline passes the validation gate", vp.lineno)


# ---------------------------------------------------------------------------------------------
# D1: the missing-key gate compares the right two sets
# ---------------------------------------------------------------------------------------------
_KEY_PRESERVING_CTORS = {"set", "frozenset", "list", "tuple", "sorted", "dict", "iter", "OrderedDict"}


def _key_roots(e: Optional[ast.AST]) -> Optional[List[ast.AST]]:
    """The mapping expressions whose *unchanged* key sets make up the value of *e* (a key view, a copy, a
    union of such); None when keys are computed / transformed on the way."""
    if e is None:
        return None
    if isinstance(e, (ast.Name, ast.Subscript, ast.Attribute)):
        return [e]
    if isinstance(e, ast.Call):
        f = e.func
        if isinstance(f, ast.Attribute) and f.attr in ("keys", "copy") and not e.args and not e.keywords:
            return _key_roots(f.value)
        if isinstance(f, ast.Attribute) and f.attr == "union" and not e.keywords:
            parts = [_key_roots(f.value)] + [_key_roots(a) for a in e.args]
            return None if any(p is None for p in parts) else [x for p in parts for x in p]
        if isinstance(f, ast.Name) and f.id in _KEY_PRESERVING_CTORS and not e.keywords:
            if not e.args:
                return []
            return _key_roots(e.args[0]) if len(e.args) == 1 else None
        return None
    if isinstance(e, ast.BinOp) and isinstance(e.op, ast.BitOr):
        l, r = _key_roots(e.left), _key_roots(e.right)
        return None if l is None or r is None else l + r
    if isinstance(e, (ast.SetComp, ast.ListComp, ast.GeneratorExp)):
        if len(e.generators) == 1 and not e.generators[0].ifs and isinstance(e.elt, ast.Name) and isinstance(e.generators[0].target, ast.Name) and e.elt.id == e.generators[0].target.id:
            return _key_roots(e.generators[0].iter)
        return None
    if isinstance(e, ast.Dict):
        if all(k is None for k in e.keys):
            parts = [_key_roots(v) for v in e.values]
            return None if any(p is None for p in parts) else [x for p in parts for x in p]
        return None
    if isinstance(e, (ast.Set, ast.List, ast.Tuple)) and not e.elts:
        return []
    if isinstance(e, ast.IfExp):
        l, r = _key_roots(e.body), _key_roots(e.orelse)
        return None if l is None or r is None else l + r
    return None


def missing_key_gate(repo: Repo, fn: ast.AST, MISSING: str, INSP: str, CTX: str) -> List[Tuple[bool, str, str, int]]:
    """Obligations on `missing = <required> - <supplied>` (analysed on the normal form, so naming the
    supplied set or the key view does not matter)."""
    from ..engine import mutation_sites
    from ..normal import nfunc
    from ..pat import find1, name_of

    out: List[Tuple[bool, str, str, int]] = []
    nf = _run_normal_form(repo, fn)
    src = nf if len(assigned_value(nf, MISSING)) == 1 else fn
    mv = assigned_value(src, MISSING)
    diff = None
    if len(mv) == 1:
        diffs = [c for c in ast.walk(mv[0]) if isinstance(c, ast.Call) and call_attr(c) == "difference" and len(c.args) == 1] or [b for b in ast.walk(mv[0]) if isinstance(b, ast.BinOp) and isinstance(b.op, ast.Sub)]
        diff = diffs[0] if diffs else None
    if diff is None:
        return [(False, "missing = required_external - supplied", "the missing-key gate is not (inspection's required keys) minus (supplied keys)", 0)]
    left = diff.func.value if isinstance(diff, ast.Call) else diff.left
    right = diff.args[0] if isinstance(diff, ast.Call) else diff.right
    line = getattr(diff, "lineno", 0)
    # -- required side: comes from inspection.required_context_keys
    def from_inspection(e: ast.AST, depth: int = 0) -> bool:
        if "required_context_keys" in ast.unparse(e) and INSP in {x.id for x in ast.walk(e) if isinstance(x, ast.Name)}:
            return True
        if depth > 3:
            return False
        return any(from_inspection(v, depth + 1) for x in ast.walk(e) if isinstance(x, ast.Name) for v in assigned_value(src, x.id))

    out.append((from_inspection(left), "missing = required_external - supplied", "the missing-key gate is not (inspection's required keys) minus (supplied keys)", line))
    # -- supplied side: an untransformed key set
    def expand(e: ast.AST, depth: int = 0) -> Optional[List[ast.AST]]:
        """_key_roots, looking through locals that merely name a (possibly transformed) key set."""
        rs = _key_roots(e)
        if rs is None or depth > 4:
            return rs
        res: List[ast.AST] = []
        for x in rs:
            defs = assigned_value(src, x.id) if isinstance(x, ast.Name) else []
            if isinstance(x, ast.Name) and x.id != CTX and len(defs) == 1 and not mutation_sites(src, {x.id}):
                sub = expand(defs[0], depth + 1)
                if sub is None:
                    return None
                res.extend(sub)
            else:
                res.append(x)
        return res

    roots = expand(right)
    out.append((roots is not None, "supplied keys are compared as they are", f"the supplied side `{norm(right)[:90]}`{_defined_as(src, right)} is not the plain key set of the probed context: keys are computed / normalised before the comparison, while the context handed to the pipeline keeps the original keys - a key the nodes will not find counts as supplied and the run starts", line))
    if roots is None:
        return out
    # -- ... of a mapping made of the --context keys and the keys of a planned run
    mr = find1(src, "_RUNS_, _META_ = expand_run_space(_ANY_, cwd=_ANY_)") or find1(src, "_RUNS_, _META_ = expand_run_space(_ANY_)")
    RUNS = name_of(mr[1], "_RUNS_") if mr else None
    run_vars = set()
    for lp in [n for n in walk_no_nested(src) if isinstance(n, ast.For)]:
        it = lp.iter.args[0] if isinstance(lp.iter, ast.Call) and call_name(lp.iter) == "enumerate" and lp.iter.args else lp.iter
        if RUNS and dotted_name(it) == RUNS:
            tgt = lp.target.elts[-1] if isinstance(lp.target, ast.Tuple) else lp.target
            if isinstance(tgt, ast.Name):
                run_vars.add(tgt.id)

    def base_ok(e: ast.AST, depth: int = 0) -> Optional[str]:
        """None if *e* holds only --context keys / keys of a planned run; else the offending text."""
        if isinstance(e, ast.Subscript) and RUNS and dotted_name(e.value) == RUNS:
            return None
        if isinstance(e, ast.Name):
            if e.id == CTX or e.id in run_vars:
                return None
            if depth > 4:
                return e.id
            defs = assigned_value(src, e.id)
            if not defs:
                return e.id
            for d in defs:
                rs = _key_roots(d)
                if rs is None:
                    return norm(d)[:80]
                for x in rs:
                    bad = base_ok(x, depth + 1)
                    if bad:
                        return bad
            for site, _r in mutation_sites(src, {e.id}):
                if isinstance(site, ast.Call) and call_attr(site) == "update" and len(site.args) == 1 and not site.keywords:
                    rs = _key_roots(site.args[0])
                    if rs is None:
                        return norm(site)[:80]
                    for x in rs:
                        bad = base_ok(x, depth + 1)
                        if bad:
                            return norm(site)[:80]
                else:
                    return norm(site)[:80]
            return None
        return norm(e)[:80]

    offenders = [b for b in (base_ok(x) for x in roots) if b]
    has_ctx = any(_mentions(src, x, CTX) for x in roots)
    out.append((not offenders and has_ctx, "supplied = keys(--context) + keys(planned run)", (f"the probed context receives keys from `{offenders[0]}`, which is neither the --context mapping nor a planned run: the gate can count a key as supplied that no run receives" if offenders else "the supplied side does not contain the --context keys"), line))
    return out


def _mentions(fn: ast.AST, e: ast.AST, name: str, depth: int = 0) -> bool:
    names = {x.id for x in ast.walk(e) if isinstance(x, ast.Name)}
    if name in names:
        return True
    if depth > 3:
        return False
    return any(_mentions(fn, v, name, depth + 1) for nm in names for v in assigned_value(fn, nm))


def _defined_as(fn: ast.AST, e: ast.AST) -> str:
    if isinstance(e, ast.Name):
        d = assigned_value(fn, e.id)
        if len(d) == 1:
            return f" (= `{norm(d[0])[:90]}`)"
    return ""


def _root_name(e: ast.AST) -> Optional[str]:
    while isinstance(e, (ast.Attribute, ast.Subscript)):
        e = e.value
    return e.id if isinstance(e, ast.Name) else None


def _closure(repo: Repo, roots) -> Dict[int, Tuple[object, ast.AST, Tuple[str, ...]]]:
    """Call-graph closure with precise resolution; a call of a *private* method on an object whose
    class is not known statically (`driver._open_file(...)`) is resolved by name - private method
    names are specific enough for that, public ones (`process`, `get`, ...) are not."""
    from ..engine import qualname_of

    seen: Dict[int, Tuple[object, ast.AST, Tuple[str, ...]]] = {}
    todo = [(m, n, (f"{m.rel}:{qualname_of(n)}",)) for m, n in roots]
    while todo:
        m, n, path = todo.pop()
        if id(n) in seen:
            continue
        seen[id(n)] = (m, n, path)
        repo.consulted.add(m.rel)
        for call in calls_in(n, include_nested=True):
            targets = repo.resolve_call(m, call)
            f = call.func
            if not targets and isinstance(f, ast.Attribute) and f.attr.startswith("_") and not f.attr.startswith("__"):
                targets = repo.resolve_call_by_name(call)
            for tm, tn in targets:
                if id(tn) not in seen:
                    todo.append((tm, tn, path + (f"{tm.rel}:{qualname_of(tn)}",)))
    return seen


def _named_test(g: CFG, n, keep_roots: Set[Optional[str]]) -> ast.AST:
    """The test of branch node *n* with a local that only names a boolean expression computed by the
    statement right before the branch (`skip = a is None or b is None` / `if skip:`) replaced by it."""
    import copy

    test = n.part
    subst: Dict[str, ast.AST] = {}
    for x in ast.walk(test):
        if isinstance(x, ast.Name) and x.id not in keep_roots and x.id not in subst:
            defs = reaching_defs(g, x.id, n.id)
            if len(defs) == 1 and defs[0].kind == "stmt" and isinstance(defs[0].ast, (ast.Assign, ast.AnnAssign)):
                d = defs[0]
                val = d.ast.value
                tgts = d.ast.targets if isinstance(d.ast, ast.Assign) else [d.ast.target]
                if len(tgts) == 1 and isinstance(tgts[0], ast.Name) and isinstance(val, (ast.BoolOp, ast.Compare, ast.UnaryOp)) and [t for t, _l in g.succ[d.id] if _l == "n"] == [n.id]:
                    subst[x.id] = val
    if not subst:
        return test

    class T(ast.NodeTransformer):
        def visit_Name(self, node: ast.Name):
            return copy.deepcopy(subst[node.id]) if node.id in subst and isinstance(node.ctx, ast.Load) else node

    return ast.fix_missing_locations(T().visit(copy.deepcopy(test)))


def _run_normal_form(repo: Repo, fn: ast.AST) -> ast.AST:
    """`_run` with its private helpers inlined and naming locals substituted (used for def-use questions
    only; control-flow questions are asked on the function as written)."""
    from ..normal import nfunc

    try:
        return nfunc(repo, CLI, "_run", consts=False, copyprop="all")
    except AnalysisError:
        return nfunc(repo, CLI, "_run", inline=False, consts=False, copyprop="all")


def _missing_role(tree: ast.AST, fn: ast.AST) -> Optional[str]:
    """The local that holds the missing keys: assigned (in *tree*) from a set difference and tested by an
    `if <name>:` of `_run` itself."""
    found = None
    for cand in [n for n in walk_no_nested(tree) if isinstance(n, ast.Assign) and isinstance(n.targets[0], ast.Name)]:
        if any(isinstance(c, ast.Call) and call_attr(c) == "difference" for c in ast.walk(cand.value)) or (any(isinstance(b, ast.BinOp) and isinstance(b.op, ast.Sub) for b in ast.walk(cand.value)) and "required" in ast.unparse(cand.value)):
            if any(isinstance(i, ast.If) and dotted_name(i.test) == cand.targets[0].id for i in walk_no_nested(fn)):
                found = cand.targets[0].id
    return found
