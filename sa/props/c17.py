"""C17 - the CLI never executes a configuration its pre-flight checks reject.

D1 every executing call in cli._run is dominated by every gate (CFG + guard dominance),
   CLI flags reach the gates (flag-driven sections stay attached to the parsed config),
   nothing that `_run` calls before the last gate passed can create/modify a file or emit a trace record
   (call-graph closure of every pre-gate call: constructors of the trace driver, the execution
   components, the Pipeline, run-space expansion, the dry-run printers),
   the missing-key gate compares the *untransformed* key set of the context the first run receives,
   that one probed run stands for all: every run dictionary expand_run_space builds has a key set
   that does not depend on per-run data (C17-D1-runs-share-key-shape),
   the cap the expansion gate enforces is the configured number, 0 included: parser and the
   --run-space-max-runs override hand it on unchanged (C17-D1-cap-value-reaches-gate),
D2 exit-code table,
D3 success iff all runs completed; stop at first failure,
D4 the required-key set the missing-key gate relies on is order-sensitive (C02-D2 rule re-applied);
   the validation gate applies the data-type test to every node that declares an input type and has
   a typed predecessor (the run-time gate of _DataNode._process is unconditional);
   that test answers 'compatible' only for output == input / issubclass(output, input), which is what the
   run-time gate accepts (C17-D4-validation-accepts-only-gate-accepted).
Round 4: a requested run-space dry run reaches its gate - the parser stores a value that is truthy for every
   truthy `dry_run` entry, the CLI writes the entry whenever --run-space-dry-run is given
   (C17-D1-dry-run-request-reaches-gate); the expansion gate rejects mismatched lengths instead of
   truncating: every lock-step walk over several sequences in run_space.py is dominated by a raising test
   that compares their lengths with each other (C17-D1-position-merge-length-guarded).
Defect 4eea17b: an unreadable / undecodable run-space source file reaches the `except` clauses around the
   expand_run_space call as a class they map to the configuration-error exit (C17-D2/C08-D4-read-errors-converted:
   C08's exception-propagation rule re-applied; the classes are read from those except clauses, so the two agree).
Round 5: the configuration is complete when it is parsed - no write into `config` (directly, through a local naming a
   part of it, or by a helper that writes into its parameter: --set overrides) is reachable after
   parse_pipeline_config (C17-D1-config-complete-before-parse); the identity-compared `object()` marker for "no
   default" reaches the required-key analysis uncopied - no deep copy in the returned-value flow of the functions that
   hand it on (C17-D4-absence-sentinel-survives-copies); every placeholder a template's construction-time check
   hands on has passed a test admitting plain identifier-like names only, which is what `template.format(**values)`
   can resolve as a keyword (C17-D4-template-placeholders-renderable).
Round 6: what runs is what the gates looked at - the constructor of the object `.process` is called on receives the
   very expression build_pipeline_inspection received, not rebound / modified in between
   (C17-D4-executed-config-is-inspected-config), building nodes for inspection leaves the caller's node configuration
   as it was and the run side hands the declared parameters on (C17-D4/C02-D7, C17-D4/C02-D8 re-applied), and the
   `parameters` metadata the builder reads lists every parameter kind the node resolves at run time, generated IO
   adapter classes included (C17-D4/C02-D6 re-applied); the expansion gate rejects two columns re-keyed onto one
   name: a store under a key looked up in a rename table is reachable only over an edge that established
   `key not in <filed so far>` with a raising other side (C17-D1-rekeyed-entries-collision-rejected).
Round 7: calls of `_run` (and of the helpers of its module) to functions of the package are read by parameter, not by
   spelling: a leading keyword argument that names the next positional parameter is put into its slot before anything
   else looks at the call (`_positional_calls`); the classifier behind required_context_keys and the run-time parameter
   resolver are one first-match decision, found by role through their parameter names, compared with the shared
   chain extraction of `_chains` (C17-D4-gate-classifier-agrees-with-resolver); in the loop over the blocks of the
   run-space specification the record of keys seen so far grows only by key sets a raising overlap test has compared
   with it - every mapping, in the state in which it is remembered - and by all of them
   (C17-D1-cross-block-keys-rejected).
Round 8: parser and `_run` prefer the same run-space block - the ordered places each consults (top level, nested under
   `pipeline`) are computed as a first-match chain over reaching definitions and compared, and a block `_run` creates or
   replaces goes where the parser looks first (C17-D1-run-space-block-precedence-agrees); the helper that applies a
   caller-supplied key path to the configuration (--set) stores only over an edge that established the entry exists
   (C17-D1-override-replaces-existing-only); whether a signature parameter is listed in the `parameters` metadata is
   decided by name and kind only, followed into the functions whose result the metadata builder walks
   (C17-D4-parameter-metadata-lists-every-parameter).  `_run`, the loaders that exit themselves, the block parser, the
   data-flow validator and its compatibility test are found by role, not by name.
"""
from __future__ import annotations

import ast
from typing import Dict, List, Optional, Set, Tuple

from ..cfg import BASE, CFG, EXC, edges_guaranteeing, reaching_defs, returns_only_through
from ..engine import (
    AnalysisError,
    FuncNode,
    Repo,
    assigned_value,
    call_attr,
    call_name,
    calls_in,
    dotted_name,
    kwarg,
    norm,
    stmt_of,
    walk_no_nested,
)
from ..report import Report

CLI = "semantiva/cli/__init__.py"
EXEC_ATTRS = {"process", "execute", "emit_start", "emit_end", "on_pipeline_start", "on_node_event", "on_pipeline_end", "on_run_space_start", "on_run_space_end"}
DOCUMENTED_CODES = {"EXIT_SUCCESS": 0, "EXIT_CLI_ERROR": 1, "EXIT_FILE_ERROR": 2, "EXIT_CONFIG_ERROR": 3, "EXIT_RUNTIME_ERROR": 4, "EXIT_INTERRUPT": 5}
GATE_CALLS = ("parse_pipeline_config", "build_pipeline_inspection", "validate_pipeline", "expand_run_space")


def exec_nodes(g: CFG) -> List:
    out = []
    for n in g.nodes:
        if n.ast is None or n.kind not in ("stmt",):
            continue
        for c in calls_in(n.ast):
            if isinstance(c.func, ast.Attribute) and c.func.attr in EXEC_ATTRS:
                out.append(n)
                break
    return out


def _positional_calls(repo: Repo, mod, fn: ast.AST) -> int:
    """Put the calls of *fn* to functions / classes of the package into one spelling: a leading keyword argument that
    names the next positional parameter of the (uniquely resolved) target is moved to its position -
    `parse_pipeline_config(config=config, source_path=p)` reads `parse_pipeline_config(config, source_path=p)`.
    Only the first keyword is ever moved (and again while that holds), so the evaluation order of the arguments and
    the binding are exactly what they were; keyword-only parameters, `*args` / `**kw` calls and unresolved or
    ambiguous targets are left alone.  Every rule below that asks "what is handed over as <parameter>" can then
    look at the positional slot, whichever way the caller spelled the call.  Returns the number of moved arguments."""
    from ..engine import enclosing_class

    moved = 0
    for c in calls_in(fn, include_nested=True):
        if not c.keywords or c.keywords[0].arg is None or any(isinstance(a, ast.Starred) for a in c.args):
            continue
        targets = repo.resolve_call(mod, c)
        if len(targets) != 1 or not isinstance(targets[0][1], FuncNode):
            continue
        node = targets[0][1]
        if node.args.vararg is not None:
            continue
        params = [a.arg for a in node.args.posonlyargs + node.args.args]
        n_posonly = len(node.args.posonlyargs)
        if enclosing_class(node) is not None and not any((dotted_name(d) or "").split(".")[-1] == "staticmethod" for d in node.decorator_list):
            if not params:
                continue
            params, n_posonly = params[1:], max(0, n_posonly - 1)
        while c.keywords and c.keywords[0].arg is not None and n_posonly <= len(c.args) < len(params) and c.keywords[0].arg == params[len(c.args)]:
            k = c.keywords.pop(0)
            k.value._parent = c  # type: ignore[attr-defined]
            c.args.append(k.value)
            moved += 1
    return moved


def _run_function(repo: Repo) -> ast.AST:
    """The `run` sub-command of the CLI module, by what it does: the one function that calls every pre-flight gate
    (parser, inspection, validation, run-space expansion) - whatever it is called."""
    mod = repo.module(CLI)
    cands = [f for _q, f in mod.defs.items() if isinstance(f, FuncNode) and set(GATE_CALLS) <= {call_attr(c) for c in calls_in(f)}]
    if len(cands) == 1:
        return cands[0]
    return repo.func(CLI, "_run")


def run(repo: Repo, R: Report) -> None:
    mod = repo.module(CLI)
    fn = _run_function(repo)
    for _q, _f in list(mod.defs.items()):
        if isinstance(_f, FuncNode):
            _positional_calls(repo, mod, _f)  # _run and the helpers its normal form inlines
    R.assume(
        "constructing Pipeline(...) and the trace driver executes no node (that they create / open no file is decided by C17-D1-preflight-writes-nothing over the resolvable call graph)",
        "calls before the gates whose target is not statically known (classes taken from the execution-component registry: transport_cls(), executor_cls(), orchestrator factories of plug-ins) and file writes that are not visible as such in the call (third-party savers) do not write files",
        "print/logger calls do not raise",
    )
    R.undecided("that sinks/trace files are really untouched (nothing is run); accuracy of inspection itself beyond the order-sensitivity rule and the coverage of the data-type test; open(...) with a non-literal mode")

    def may_raise(part: ast.AST) -> Set[str]:
        for n in walk_no_nested(part):
            if isinstance(n, ast.Raise):
                return {EXC}
            if isinstance(n, ast.Call):
                d = call_name(n) or ""
                if d == "print" or d.split(".")[0] == "logger" or d in ("isinstance", "len", "sorted", "set", "dict", "str", "any", "repr", "getattr"):
                    continue
                return {EXC, BASE}
        return set()

    g = CFG(fn, may_raise=may_raise)
    # ---- roles (locals are identified by what defines them, not by their names)
    from ..pat import find, find1, match, name_of

    m = find1(fn, "_PC_ = parse_pipeline_config(_CFG_, source_path=_ANY_, base_dir=_ANY_)") or find1(fn, "_PC_ = parse_pipeline_config(_CFG_)")
    if m is None:
        pcs = [n for n in ast.walk(fn) if isinstance(n, ast.Assign) and isinstance(n.value, ast.Call) and call_attr(n.value) == "parse_pipeline_config" and n.value.args]
        if not pcs:
            raise AnalysisError("_run: parse_pipeline_config(...) assignment not found")
        PCFG, CONFIG = dotted_name(pcs[0].targets[0]), dotted_name(pcs[0].value.args[0])
    else:
        PCFG, CONFIG = name_of(m[1], "_PC_"), name_of(m[1], "_CFG_")
    mi = find1(fn, f"_I_ = build_pipeline_inspection({PCFG}.nodes)") or find1(fn, "_I_ = build_pipeline_inspection(_X_)")
    INSP = name_of(mi[1], "_I_") if mi else "__missing__"
    # --context dictionary: filled in the loop over args.contexts
    CTX = None
    for lp in [n for n in walk_no_nested(fn) if isinstance(n, ast.For) and dotted_name(n.iter) == "args.contexts"]:
        for st in ast.walk(lp):
            if isinstance(st, ast.Assign) and isinstance(st.targets[0], ast.Subscript) and isinstance(st.targets[0].value, ast.Name):
                CTX = st.targets[0].value.id
    # missing-key list: the `if X:` whose body lists missing keys; X = sorted(required.difference(supplied.keys()))
    MISSING = _missing_role(fn, fn) or _missing_role(_run_normal_form(repo, fn), fn)
    EXITVAR = None
    for r in [n for n in walk_no_nested(fn) if isinstance(n, ast.Return) and isinstance(n.value, ast.Name)]:
        if r.value.id not in DOCUMENTED_CODES:
            EXITVAR = r.value.id
    if MISSING is None or EXITVAR is None or CTX is None:
        raise AnalysisError(f"_run: roles not recognised (missing={MISSING}, exit={EXITVAR}, context={CTX})")
    ex = exec_nodes(g)
    proc = [n for n in ex if any(call_attr(c) == "process" for c in calls_in(n.ast))]
    if len(proc) != 1:
        raise AnalysisError(f"_run: expected one pipeline.process site, found {len(proc)}")
    if len(ex) < 2:
        raise AnalysisError("_run: executing call sites not found")

    # ---------------------------------------------------------------- D1 gates
    r_gate = R.rule("C17-D1-gates-dominate-execution", "every executing call in _run (pipeline.process, run-space emit_start/emit_end, driver calls) is reachable only after each gate passed: config parsed, inspected, validated, run space expanded, no --validate, no missing key, no dry run", 12)
    gate_nodes = {}
    for n in g.nodes:
        if n.ast is None or n.kind != "stmt":
            continue
        for c in calls_in(n.ast):
            a = call_attr(c)
            if a in GATE_CALLS and a not in gate_nodes:
                gate_nodes[a] = n
    for name in GATE_CALLS:
        gn = gate_nodes.get(name)
        if gn is None:
            R.violation(r_gate, CLI, "_run", f"{name}(...)", f"pre-flight gate {name} is no longer called in _run", fn.lineno)
            continue
        # (a) dominates every executing node
        not_dom = [e for e in ex if not g.dominated_by_node(e.id, gn.id)]
        R.check(not not_dom, r_gate, CLI, "_run", f"{name}(...) dominates execution", f"an executing call is reachable without {name} having run: `{norm(not_dom[0].ast)[:70]}`" if not_dom else "", gn.line)
        # (b) a failing gate reaches no executing call
        fail_succ = [t for t, lab in g.succ[gn.id] if lab in (EXC, BASE)]
        seen = g.reach(fail_succ)
        hit = [e for e in ex if e.id in seen]
        R.check(not hit, r_gate, CLI, "_run", f"{name}(...) failure -> no execution", "after this gate raised, an executing call is still reachable", gn.line, g.path_to(seen, hit[0].id) if hit else None)
        # (c) a failing gate ends in a non-zero exit
        rets = [n for n in g.nodes if n.id in seen and n.kind == "stmt" and isinstance(n.ast, ast.Return)]
        zero = [n for n in rets if dotted_name(n.ast.value) == "EXIT_SUCCESS" or (isinstance(n.ast.value, ast.Constant) and n.ast.value.value == 0)]
        R.check(not zero and (bool(rets) or g.exc_exit in seen), r_gate, CLI, "_run", f"{name}(...) failure -> non-zero exit", "a rejected configuration exits with the success code", gn.line)

    def flag_atom(expr_text: str):
        def atom(e: ast.AST) -> Optional[bool]:
            # the atom is "the flag is NOT set"
            if dotted_name(e) == expr_text:
                return False
            return None
        return atom

    flag_tests = ["args.validate", "args.dry_run", f"{PCFG}.run_space.dry_run", MISSING]
    for ft in flag_tests:
        holds, path, guards = returns_only_through(g, flag_atom(ft), targets=[e.id for e in ex])
        R.check(holds and guards > 0, r_gate, CLI, "_run", f"`if {ft}:` false-branch dominates execution",
                f"an executing call is reachable although `{ft}` holds (or the test vanished)", fn.lineno, path)
        # the true branch returns EXIT_SUCCESS for validate / dry runs, non-zero for missing
        for n in g.nodes:
            if n.kind == "if" and n.part is not None and dotted_name(n.part) == ft:
                t_succ = [t for t, lab in g.succ[n.id] if lab == "T"]
                seen = g.reach(t_succ, blocked={t for t, lab in g.succ[n.id] if lab == "F"})
                rets = [m for m in g.nodes if m.id in seen and m.kind == "stmt" and isinstance(m.ast, ast.Return)]
                want_zero = ft != MISSING
                vals = {dotted_name(m.ast.value) for m in rets}
                ok = bool(rets) and (vals == {"EXIT_SUCCESS"} if want_zero else "EXIT_SUCCESS" not in vals and vals <= set(DOCUMENTED_CODES))
                R.check(ok, r_gate, CLI, "_run", f"`if {ft}:` exit code", f"the `{ft}` branch exits with {sorted(map(str, vals))}", n.line)
    # ---- nothing called before the last gate passed writes a file or emits a trace record
    preflight_effects_rule(repo, R, mod, fn, g, gate_nodes, flag_tests, flag_atom)

    # missing is computed from inspection.required_context_keys minus supplied keys
    r_miss = R.rule("C17-D1-missing-key-set", "missing = inspection.required_context_keys minus the keys supplied by --context and the run space: the supplied side is the untransformed key set of a mapping that holds exactly the --context keys plus the keys of a planned run (what the first run receives as its context)", 4)
    for ok, stmt, what, line in missing_key_gate(repo, fn, MISSING, INSP, CTX):
        R.check(ok, r_miss, CLI, "_run", stmt, what, line or fn.lineno)
    insp = assigned_value(fn, INSP)
    ok = any(isinstance(v, ast.Call) and call_attr(v) == "build_pipeline_inspection" and v.args and PCFG in ast.unparse(_canon_local(fn, v.args[0])) for v in insp)
    R.check(ok, r_miss, CLI, "_run", "inspection = build_pipeline_inspection(pipeline_cfg.nodes)", "the inspected nodes are not the parsed configuration's nodes", fn.lineno)

    # flags reach the gates: sections written from args.* are attached to config before parsing
    r_attach = R.rule("C17-D1-flags-reach-gates", "every mapping that receives a CLI-flag value (run_space dry_run / max_runs, execution, trace options) is attached to the configuration that is parsed", 3)
    def attached_at(holder: str, use_stmt: ast.AST, depth: int = 0) -> bool:
        """Every definition of *holder* reaching *use_stmt* makes it a part of `config`."""
        if holder == CONFIG:
            return True
        if depth > 4:
            return False
        uses = g.nodes_for(use_stmt)
        if not uses:
            return False
        defs = reaching_defs(g, holder, uses[0])
        if not defs:
            return False
        def form(v: Optional[ast.AST], at: ast.AST) -> bool:
            if isinstance(v, ast.IfExp):
                return form(v.body, at) and form(v.orelse, at)
            if isinstance(v, ast.Constant) and v.value is None:
                return True  # "no block yet": a store into None raises (the flag is not silently lost), like `m.get(k)` below
            base = None
            if isinstance(v, ast.Call) and call_attr(v) == "setdefault" and isinstance(v.func, ast.Attribute):
                base = dotted_name(v.func.value)
            elif isinstance(v, ast.Call) and call_attr(v) == "get" and isinstance(v.func, ast.Attribute) and len(v.args) == 1 and not v.keywords:
                # `m.get(k)`: the object stored in m (or None - a store into None raises, it is not silently lost)
                fv = v.func.value
                base = dotted_name(fv) if not isinstance(fv, ast.Subscript) else dotted_name(fv.value)
            elif isinstance(v, ast.Subscript):
                base = dotted_name(v.value)
            return base is not None and attached_at(base, at, depth + 1)

        return all(form(getattr(d.ast, "value", None), d.ast) for d in defs)

    assigns = [n for n in walk_no_nested(fn) if isinstance(n, ast.Assign) and len(n.targets) == 1]
    n_flag_stores = 0
    for a in assigns:
        t = a.targets[0]
        if isinstance(t, ast.Subscript) and isinstance(t.value, ast.Name) and isinstance(t.slice, ast.Constant):
            uses_args = any(isinstance(x, ast.Attribute) and isinstance(x.value, ast.Name) and x.value.id == "args" for x in ast.walk(a.value)) or (
                isinstance(a.value, ast.Constant) and a.value.value is True)
            if not uses_args:
                continue
            holder = t.value.id
            if holder == CTX or not _feeds_config(fn, holder, CONFIG):
                continue
            # flow-sensitively: a name that is re-used, at this store, for a mapping unrelated to the configuration
            # (every definition reaching the store is a fresh value that reads nothing of it) is not a section
            a_nodes = g.nodes_for(a)
            r_defs = [d for d in (reaching_defs(g, holder, a_nodes[0]) if a_nodes else []) if d.kind == "stmt" and getattr(d.ast, "value", None) is not None]
            if r_defs and not any(isinstance(b.targets[0], ast.Subscript) and dotted_name(b.targets[0].value) == CONFIG and isinstance(b.value, ast.Name) and b.value.id == holder for b in assigns):
                def _reads_config(v: ast.AST) -> bool:
                    names = {x.id for x in ast.walk(v) if isinstance(x, ast.Name)}
                    return CONFIG in names or any(nm != holder and _feeds_config_depth(fn, nm, CONFIG, 0) for nm in names)
                if not any(_reads_config(d.ast.value) for d in r_defs):
                    continue
            n_flag_stores += 1
            ok = attached_at(holder, a) or any(isinstance(b.targets[0], ast.Subscript) and dotted_name(b.targets[0].value) == CONFIG and isinstance(b.value, ast.Name) and b.value.id == holder and b.lineno > a.lineno for b in assigns)
            R.check(ok, r_attach, CLI, "_run", norm(a), f"the flag value is written into `{holder}`, which is not (a part of) the configuration that gets parsed: the flag is silently ignored and the gate it controls stays open", a.lineno)
    if n_flag_stores == 0:
        raise AnalysisError("_run: no flag-driven configuration stores found")
    # the run-space flags go into the block the parser reads: every place parse_pipeline_config may take the
    # run-space block from (top level, nested under `pipeline`) is consulted by the CLI before it creates a block of
    # its own - otherwise the new block shadows the declared one and the declared plan (and its cap) vanish
    def key_path(e: Optional[ast.AST], root: str) -> Optional[Tuple[str, ...]]:
        if isinstance(e, ast.Name):
            return () if e.id == root else None
        if isinstance(e, ast.Subscript) and isinstance(e.slice, ast.Constant) and isinstance(e.slice.value, str):
            b = key_path(e.value, root)
            return None if b is None else b + (e.slice.value,)
        if isinstance(e, ast.Call) and isinstance(e.func, ast.Attribute) and e.func.attr in ("get", "setdefault") and e.args and isinstance(e.args[0], ast.Constant) and isinstance(e.args[0].value, str):
            b = key_path(e.func.value, root)
            return None if b is None else b + (e.args[0].value,)
        return None

    parser_chain, block_site = _parser_block_chain(repo, mod, fn)
    parser_paths: Set[Tuple[str, ...]] = {p for p, _k in parser_chain}
    if not parser_paths:
        raise AnalysisError("parse_pipeline_config: where the run-space block is read from was not recognised")
    rs_holders = {a.targets[0].value.id for a in assigns if isinstance(a.targets[0], ast.Subscript) and isinstance(a.targets[0].value, ast.Name) and isinstance(a.targets[0].slice, ast.Constant) and a.targets[0].slice.value in ("max_runs", "dry_run") and _feeds_config(fn, a.targets[0].value.id, CONFIG)}
    for holder in sorted(rs_holders):
        cli_paths = {kp for v in assigned_value(fn, holder) for kp in [key_path(v, CONFIG)] if kp}
        # flow-sensitively (a sub-mapping named by a local: `p = config.get("pipeline"); .. p.get("run_space")`)
        _bc = _BlockChain(fn, g, CONFIG)
        for a in assigns:
            t = a.targets[0]
            if isinstance(t, ast.Subscript) and isinstance(t.value, ast.Name) and t.value.id == holder and isinstance(t.slice, ast.Constant) and t.slice.value in ("max_runs", "dry_run") and g.nodes_for(a):
                cli_paths |= {p_ for p_, _k in (_bc.chain(t.value, g.nodes_for(a)[0]) or [])}
        missing_paths = sorted(parser_paths - cli_paths)
        R.check(not missing_paths, r_attach, CLI, "_run", f"run-space flags are applied to the block the parser reads ({sorted('.'.join(p) for p in parser_paths)})", f"the parser takes the run-space block from {['.'.join(p) for p in missing_paths]} when the top-level one is absent, but the CLI never looks there before writing the flag into a block of its own: with a run space declared at {['.'.join(p) for p in missing_paths]}, `--run-space-max-runs` / `--run-space-dry-run` create a top-level block that shadows it - the declared plan vanishes and an over-cap configuration is executed", fn.lineno)
    block_precedence_rule(repo, R, fn, g, CONFIG, parser_chain, block_site, assigns)
    parse_call = next((c for c in calls_in(fn) if call_attr(c) == "parse_pipeline_config"), None)
    R.check(parse_call is not None and parse_call.args and dotted_name(parse_call.args[0]) == CONFIG, r_attach, CLI, "_run", "parse_pipeline_config(config, ...)", "the parsed object is not the merged configuration", fn.lineno)
    config_complete_rule(repo, R, mod, fn, g, CONFIG)
    override_replaces_existing_rule(repo, R, mod, fn, CONFIG)

    # ---------------------------------------------------------------- D2 exit codes
    r_codes = R.rule("C17-D2-exit-codes", "EXIT_* constants carry the documented numbers; every return of _run is one of them (or exit_code); helpers exit with them", 10)
    for name, val in DOCUMENTED_CODES.items():
        found = [st for st in mod.tree.body if isinstance(st, ast.Assign) and any(isinstance(t, ast.Name) and t.id == name for t in st.targets)]
        ok = len(found) == 1 and isinstance(found[0].value, ast.Constant) and found[0].value.value == val
        R.check(ok, r_codes, CLI, "<module>", f"{name} = {val}", f"{name} is not the documented value {val}", found[0].lineno if found else 0)
    for n in walk_no_nested(fn):
        if isinstance(n, ast.Return):
            d = dotted_name(n.value) if n.value is not None else None
            R.check(d in DOCUMENTED_CODES or d == EXITVAR, r_codes, CLI, "_run", norm(n), "return value is not an EXIT_* constant", n.lineno)
    # the loaders _run calls that end the process themselves (found by that: a helper of the module, called from _run,
    # whose exception handlers raise SystemExit)
    loaders = []
    for c in calls_in(fn):
        for m_, t_ in repo.resolve_call(mod, c):
            if m_ is mod and isinstance(t_, FuncNode) and t_ is not fn and t_ not in loaders and any(isinstance(x, ast.Call) and call_attr(x) == "SystemExit" for h in ast.walk(t_) if isinstance(h, ast.ExceptHandler) for x in ast.walk(h)):
                loaders.append(t_)
    if not loaders:
        loaders = [repo.func(CLI, "_load_yaml")]
    for ly in loaders:
        for h in [x for x in ast.walk(ly) if isinstance(x, ast.ExceptHandler)]:
            tname = ast.unparse(h.type) if h.type is not None else ""
            want = "EXIT_FILE_ERROR" if "FileNotFoundError" in tname else "EXIT_CONFIG_ERROR"
            codes = [dotted_name(c.args[0]) for c in ast.walk(h) if isinstance(c, ast.Call) and call_attr(c) == "SystemExit" and c.args]
            R.check(codes == [want], r_codes, CLI, ly.name, norm(h), f"{tname} does not exit with {want}", h.lineno)
    # class -> code for the gates of _run
    want_by_gate = {"parse_pipeline_config": "EXIT_CONFIG_ERROR", "build_pipeline_inspection": "EXIT_CONFIG_ERROR", "validate_pipeline": "EXIT_CONFIG_ERROR", "expand_run_space": "EXIT_CONFIG_ERROR"}
    for name, want in want_by_gate.items():
        gn = gate_nodes.get(name)
        if gn is None:
            continue
        fail_succ = [t for t, lab in g.succ[gn.id] if lab == EXC]
        seen = g.reach(fail_succ, skip_labels={BASE})
        # handlers directly attached: first returns reached without passing another gate
        rets = set()
        for t in fail_succ:
            sub = g.reach([t])
            for m in g.nodes:
                if m.id in sub and m.kind == "stmt" and isinstance(m.ast, ast.Return) and g.nodes[t].kind == "except":
                    h = g.nodes[t].ast
                    if any(x is m.ast for x in ast.walk(h)):
                        rets.add(dotted_name(m.ast.value))
        R.check(rets == {want}, r_codes, CLI, "_run", f"{name} failure -> {want}", f"rejection by {name} exits with {sorted(map(str, rets))} instead of {want}", gn.line)

    # ---------------------------------------------------------------- D3 success iff all runs completed
    r_succ = R.rule("C17-D3-success-iff-all-runs", "exit_code starts as EXIT_SUCCESS and is changed only by the handlers of the run loop, each to a non-zero code; a failing run leaves the loop (no later run starts) and reaches `return exit_code` through such a handler", 4)
    pn = proc[0]
    ec_assigns = [n for n in walk_no_nested(fn) if isinstance(n, ast.Assign) and any(isinstance(t, ast.Name) and t.id == EXITVAR for t in n.targets)]
    inits = [a for a in ec_assigns if dotted_name(a.value) == "EXIT_SUCCESS"]
    others = [a for a in ec_assigns if a not in inits]
    R.check(len(inits) == 1, r_succ, CLI, "_run", "exit_code = EXIT_SUCCESS", "exit_code is not initialised exactly once to success", fn.lineno)
    for a in others:
        in_handler = any(isinstance(x, ast.ExceptHandler) for x in _anc(a))
        d = dotted_name(a.value)
        R.check(in_handler and d in DOCUMENTED_CODES and DOCUMENTED_CODES[d] != 0, r_succ, CLI, "_run", norm(a), "exit_code is set outside a failure handler or to a zero / unknown code", a.lineno)
    for label, labs in (("Exception", {EXC}), ("BaseException", {BASE})):
        fail_succ = [t for t, lab in g.succ[pn.id] if lab in labs]
        seen = g.reach(fail_succ)
        R.check(pn.id not in seen, r_succ, CLI, "_run", f"process failure ({label}) -> loop left", "after a failed run the loop continues: later runs are started", pn.line, g.path_to(seen, pn.id) if pn.id in seen else None)
        if label == "Exception":
            setters = {n.id for n in g.nodes if n.ast is not None and any(n.ast is a for a in others)}
            bad = g.must_pass(fail_succ, [g.ret_exit], lambda n: n.id in setters)
            R.check(not bad, r_succ, CLI, "_run", "process failure (Exception) -> non-zero exit_code", "a failed run can reach `return exit_code` with the success code", pn.line, bad[0][1] if bad else None)
    # KeyboardInterrupt maps to EXIT_INTERRUPT
    ki = [h for h in ast.walk(fn) if isinstance(h, ast.ExceptHandler) and h.type is not None and "KeyboardInterrupt" in ast.unparse(h.type)]
    ok = bool(ki) and any(isinstance(a, ast.Assign) and dotted_name(a.value) == "EXIT_INTERRUPT" for a in ast.walk(ki[0]))
    R.check(ok, r_codes, CLI, "_run", "except KeyboardInterrupt -> EXIT_INTERRUPT", "interrupt is not mapped to the documented code", ki[0].lineno if ki else fn.lineno)
    rt = [h for h in ast.walk(fn) if isinstance(h, ast.ExceptHandler) and h.type is not None and ast.unparse(h.type).strip("()\n ") == "Exception" and any(isinstance(a, ast.Assign) and any(dotted_name(t) == EXITVAR for t in a.targets) for a in ast.walk(h))]
    ok = bool(rt) and any(isinstance(a, ast.Assign) and dotted_name(a.value) == "EXIT_RUNTIME_ERROR" for a in ast.walk(rt[0]))
    R.check(ok, r_codes, CLI, "_run", "except Exception -> EXIT_RUNTIME_ERROR", "run failure is not mapped to the documented code", rt[0].lineno if rt else fn.lineno)

    # ---------------------------------------------------------------- D4 dependency on inspection
    from . import c02

    # own rule first: a changed shape of the metadata builders that C02's re-applied rules cannot read must not hide a
    # verdict that is already decidable here
    metadata_lists_every_parameter_rule(repo, R)
    R.rule_prefix = "C17-D4/"
    try:
        c02.required_keys_rule(repo, R)
    finally:
        R.rule_prefix = ""
    inspected_is_executed_rule(repo, R, fn, g, PCFG)
    gate_classifier_rule(repo, R)
    validation_gate_rule(repo, R)
    compat_test_rule(repo, R)
    runs_share_key_shape_rule(repo, R, fn)
    cap_value_rule(repo, R, fn)
    dry_run_request_rule(repo, R, fn)
    position_merge_rule(repo, R)
    rekeying_collision_rule(repo, R)
    cross_block_keys_rule(repo, R)
    absence_sentinel_rule(repo, R)
    template_placeholder_rule(repo, R)
    # the expansion gate rejects an unreadable source with the configuration-error exit: every failure of reading a
    # source file reaches the `except` clauses around expand_run_space as a class they map (C08's rule, CLI view)
    from . import c08

    R.rule_prefix = "C17-D2/"
    try:
        c08.read_errors_rule(repo, R, library_view=False)
    finally:
        R.rule_prefix = ""


def _anc(n):
    from ..engine import ancestors
    return ancestors(n)


def _feeds_config(fn: ast.AST, holder: str, config: str) -> bool:
    """Is *holder* a mapping that is meant to become part of the configuration (it is obtained from the
    configuration, or stored into it)?  Mappings that are unrelated to it (summaries, metadata of a run)
    are not subject to the attachment rule."""
    for v in assigned_value(fn, holder):
        names = {x.id for x in ast.walk(v) if isinstance(x, ast.Name)}
        if config in names:
            return True
        for nm in names:
            if nm != holder and _feeds_config_depth(fn, nm, config, 0):
                return True
    for n in ast.walk(fn):
        if isinstance(n, ast.Assign) and isinstance(n.value, ast.Name) and n.value.id == holder and any(isinstance(t, ast.Subscript) and dotted_name(t.value) == config for t in n.targets):
            return True
    return False


def _feeds_config_depth(fn: ast.AST, name: str, config: str, depth: int) -> bool:
    if depth > 3:
        return False
    for v in assigned_value(fn, name):
        names = {x.id for x in ast.walk(v) if isinstance(x, ast.Name)}
        if config in names:
            return True
        if any(_feeds_config_depth(fn, nm, config, depth + 1) for nm in names if nm != name):
            return True
    return False


# ---------------------------------------------------------------------------------------------
# D1: side effects of what runs before the gates have passed
# ---------------------------------------------------------------------------------------------
# file-system operations that create / modify / delete something (unambiguous method names)
FS_WRITE_ATTRS = {
    "mkdir", "makedirs", "touch", "write_text", "write_bytes", "unlink", "rmdir", "rmtree", "symlink_to", "hardlink_to",
    "mkdtemp", "mkstemp", "NamedTemporaryFile", "TemporaryDirectory", "FileHandler", "RotatingFileHandler",
    "TimedRotatingFileHandler", "copyfile", "copytree", "copy2",
}
# names that are only file operations when qualified by these modules (list.remove, str.replace, dict.copy ...)
FS_WRITE_QUALIFIED = {"os": {"remove", "rename", "replace", "renames", "truncate", "link", "symlink"}, "shutil": {"copy", "move", "make_archive"}}
# the trace-driver / run-space emitter protocol: each of these writes a trace record (and opens the file)
TRACE_EMIT_ATTRS = EXEC_ATTRS - {"process", "execute"}


def _fs_effect(c: ast.Call) -> Optional[str]:
    """What *c* does to the file system / the trace, when that is visible from the call itself."""
    f = c.func
    name = f.attr if isinstance(f, ast.Attribute) else f.id if isinstance(f, ast.Name) else None
    if name is None:
        return None
    if name in FS_WRITE_ATTRS:
        return f"file-system write `{name}`"
    if isinstance(f, ast.Attribute):
        recv = dotted_name(f.value) or ""
        if name in FS_WRITE_QUALIFIED.get(recv.split(".")[-1], ()):
            return f"file-system write `{recv}.{name}`"
    if name == "open":
        # builtin open(path, mode) / io.open / gzip.open(path, mode)  vs  Path.open(mode)
        builtin_like = isinstance(f, ast.Name) or (dotted_name(f.value) or "") in ("io", "gzip", "bz2", "lzma", "codecs", "os")
        if isinstance(f, ast.Attribute) and dotted_name(f.value) == "os":
            return None  # os.open takes integer flags; not modelled
        mode = kwarg(c, "mode")
        if mode is None:
            pos = 1 if builtin_like else 0
            mode = c.args[pos] if len(c.args) > pos else None
        if mode is None:
            return None  # default mode: read
        if isinstance(mode, ast.Constant) and isinstance(mode.value, str):
            return f"file opened for writing (mode {mode.value!r})" if set(mode.value) & set("wax+") else None
        return None  # mode not a literal: not decided here
    if isinstance(f, ast.Attribute) and name in TRACE_EMIT_ATTRS:
        return f"trace emission `{name}`"
    return None


def post_gate_nodes(g: CFG, gate_nodes: Dict[str, object], flag_tests: List[str], flag_atom) -> Tuple[Set[int], Set[int]]:
    """(nodes reachable from the entry, nodes reachable only after every gate passed)."""
    reachable = set(g.reach([g.entry]))
    post = set(reachable)
    for gn in gate_nodes.values():
        post -= set(g.reach([g.entry], blocked={gn.id}))
    for ft in flag_tests:
        atom = flag_atom(ft)
        blocked_edges = {(n.id, e) for n in g.nodes if n.kind in ("if", "while") and n.part is not None for e in edges_guaranteeing(n.part, atom)}
        if blocked_edges:
            post -= set(g.reach([g.entry], blocked_edges=blocked_edges))
    return reachable, post


def preflight_effects_rule(repo: Repo, R: Report, mod, fn: ast.AST, g: CFG, gate_nodes, flag_tests, flag_atom) -> None:
    """Every call that `_run` can make *before* all gates have passed (it is made for configurations that
    are going to be rejected, and for --validate / dry runs) must not be able to reach - through the
    call graph - an operation that creates or modifies a file or emits a trace record."""
    from ..engine import qualname_of

    r = R.rule("C17-D1-preflight-writes-nothing", "no call that _run makes before every gate has passed (loaders, parser, inspection, validation, the constructors of the trace driver / execution components / Pipeline, run-space expansion, the validate and dry-run branches) reaches a file-creating or file-modifying operation or a trace-driver emission through the call graph", 8)
    reachable, post = post_gate_nodes(g, gate_nodes, flag_tests, flag_atom)
    pre_calls: List[ast.Call] = []
    seen_calls: Set[int] = set()
    for n in g.nodes:
        if n.id not in reachable or n.id in post or n.part is None:
            continue
        for c in calls_in(n.part):
            if id(c) not in seen_calls:
                seen_calls.add(id(c))
                pre_calls.append(c)
    if not pre_calls:
        raise AnalysisError("_run: no call found before the gates")
    pre_calls.sort(key=lambda c: (c.lineno, c.col_offset))
    roots: List[Tuple[object, ast.AST]] = []
    root_site: Dict[str, ast.Call] = {}
    resolved_calls: List[Tuple[ast.Call, List[str]]] = []
    for c in pre_calls:
        if call_attr(c) in EXEC_ATTRS and isinstance(c.func, ast.Attribute):
            continue  # an executing call before a gate: that is rule C17-D1-gates-dominate-execution
        direct = _fs_effect(c)
        if direct:
            R.violation(r, CLI, "_run", norm(c)[:100], f"{direct} in _run at a point that is reached although a gate has not passed (rejected configuration, --validate or dry run): the run leaves a file behind", c.lineno)
            continue
        targets = repo.resolve_call(mod, c)
        keys = []
        for m, node in targets:
            key = f"{m.rel}:{qualname_of(node)}"
            keys.append(key)
            if key not in root_site:
                root_site[key] = c
                roots.append((m, node))
        if keys:
            resolved_calls.append((c, keys))
    clo = _closure(repo, roots)
    dirty_roots: Set[str] = set()
    reported: Set[Tuple[str, int, int]] = set()
    for _id, (m, node, path) in clo.items():
        for k in calls_in(node, include_nested=True):
            eff = _fs_effect(k)
            if not eff:
                continue
            dirty_roots.add(path[0])
            key3 = (m.rel, k.lineno, k.col_offset)
            if key3 in reported:
                continue
            reported.add(key3)
            c = root_site[path[0]]
            chain = " -> ".join(p.split(":", 1)[1] for p in path)
            R.violation(r, m.rel, qualname_of(node), norm(k)[:100], f"{eff}, reachable from `_run` line {c.lineno} ({chain}) before every pre-flight gate has passed: a configuration that is rejected afterwards, --validate or a dry run leaves a file / trace behind although no node ran", k.lineno, list(path))
    for c, keys in resolved_calls:
        if not (set(keys) & dirty_roots):
            R.ok(r, CLI, "_run", norm(c)[:100], "", c.lineno)


# ---------------------------------------------------------------------------------------------
# D4: the validation gate is as strict as the run-time gate
# ---------------------------------------------------------------------------------------------
VALIDATOR = "semantiva/inspection/validator.py"


def _implies_legit(test: ast.AST, polarity: bool, legit: Set[str]) -> bool:
    """Does `test` evaluating to *polarity* imply that one of the expressions in *legit* is None?"""
    if isinstance(test, ast.UnaryOp) and isinstance(test.op, ast.Not):
        return _implies_legit(test.operand, not polarity, legit)
    if isinstance(test, ast.BoolOp):
        conj = isinstance(test.op, ast.And)
        if conj == polarity:  # (A and B) true / (A or B) false: every operand has that value
            return any(_implies_legit(v, polarity, legit) for v in test.values)
        return all(_implies_legit(v, polarity, legit) for v in test.values)
    if isinstance(test, ast.Compare) and len(test.ops) == 1:
        left, op, right = test.left, test.ops[0], test.comparators[0]
        if isinstance(left, ast.Constant) and left.value is None:
            left, right = right, left
        if isinstance(right, ast.Constant) and right.value is None and ast.unparse(left) in legit:
            if isinstance(op, (ast.Is, ast.Eq)):
                return polarity is True
            if isinstance(op, (ast.IsNot, ast.NotEq)):
                return polarity is False
        return False
    if isinstance(test, ast.Call):
        return polarity is True and ast.unparse(test) in legit  # the compatibility test itself holds
    if ast.unparse(test) in legit:  # bare truthiness of an object-or-None / class-or-None
        return polarity is False
    return False


def _validator_roles(repo: Repo) -> Tuple[str, str]:
    """(data-flow validation function, compatibility test) of the validator module, found by what they do: the function
    (called from validate_pipeline) that hands `<pred>.output_type` and `<node>.input_type` to a function of the package,
    and that function - whatever the two are called."""
    from ..engine import qualname_of

    vmod = repo.module(VALIDATOR)
    found: List[Tuple[str, str]] = []
    for qn, f in vmod.defs.items():
        if not isinstance(f, FuncNode):
            continue
        for c in calls_in(f):
            attrs = [a.attr for a in list(c.args) + [k.value for k in c.keywords] if isinstance(a, ast.Attribute)]
            if "output_type" in attrs and "input_type" in attrs and isinstance(c.func, ast.Name):
                if any(isinstance(t, FuncNode) for _m, t in repo.resolve_call(vmod, c)) and (qn, c.func.id) not in found:
                    found.append((qn, c.func.id))
    if len(found) == 1:
        return found[0]
    return "_validate_data_flow_compatibility", "_is_compatible"


def validation_gate_rule(repo: Repo, R: Report) -> None:
    """`_DataNode._process` raises TypeError for *every* node whose input type is not a superclass of
    the data it receives.  The CLI stops such a configuration before execution only if the validator
    applies its compatibility test to every node that declares an input type and has a typed
    predecessor; and a failed test has to become a node error (validate_pipeline raises on those)."""
    from ..normal import nfunc
    from ..pat import find

    r = R.rule("C17-D4-validation-covers-typed-nodes", "in the data-flow validation loop every node reaches the compatibility test unless its input type is None or there is no typed predecessor (no other way round the test), and an incompatible pair reaches the statement that records a node error; validate_pipeline runs that validation before it collects and raises the recorded errors", 2)
    fname, cname = _validator_roles(repo)
    vf = nfunc(repo, VALIDATOR, fname, keep=(cname,), consts=False)
    hits = [(n, e) for n, e in find(vf, f"{cname}(_P_.output_type, _N_.input_type)", nested=False)]
    if len(hits) != 1:
        raise AnalysisError(f"{fname}: expected one {cname}(<pred>.output_type, <node>.input_type) test, found {len(hits)}")
    comp, env = hits[0]
    P, N = ast.unparse(env["_P_"]), ast.unparse(env["_N_"])
    loop = next((a for a in _anc(comp) if isinstance(a, ast.For)), None)
    if loop is None or ast.unparse(loop.target) != N:
        raise AnalysisError(f"{fname}: the compatibility test is not inside the loop over the inspected nodes")
    g = CFG(vf, may_raise=lambda part: set())
    head = g.nodes_for(loop)
    comp_stmt = stmt_of(comp)
    cn = g.nodes_for(comp_stmt)
    if len(head) != 1 or len(cn) != 1:
        raise AnalysisError(f"{fname}: loop / test not found in the control-flow graph")
    head, cn = head[0], cn[0]
    legit = {P, f"{N}.input_type", ast.unparse(comp)}
    recorders = {n.id for n in g.nodes if n.part is not None and any(call_attr(c) in ("append", "extend", "add", "insert") and isinstance(c.func, ast.Attribute) and (_root_name(c.func.value) == N or "errors" in ast.unparse(c.func)) for c in calls_in(n.part))}
    recorders |= {n.id for n in g.nodes if n.kind == "stmt" and isinstance(n.ast, ast.Raise)}
    if not recorders:
        raise AnalysisError(f"{fname}: no statement records an error of the node")
    # an edge is fine when taking it implies: no typed predecessor, or no input type, or the pair is compatible
    fine_edges: Set[Tuple[int, str]] = set()
    tests = {}
    for n in g.nodes:
        if n.kind in ("if", "while") and n.part is not None:
            t = tests[n.id] = _named_test(g, n, {_root_name(env["_P_"]), _root_name(env["_N_"])})
            for lab, pol in (("T", True), ("F", False)):
                if _implies_legit(t, pol, legit):
                    fine_edges.add((n.id, lab))
    body_entry = [t for t, lab in g.succ[head] if lab == "T"]
    seen = g.reach(body_entry, blocked=recorders, blocked_edges=fine_edges)
    leaves = [x for x in (head, g.ret_exit) if x in seen]
    path = g.path_to(seen, leaves[0]) if leaves else None
    what, line = "", loop.lineno
    if leaves:
        # name the branch that lets the iteration end without a verdict
        on_path, cur = [], leaves[0]
        while cur is not None:
            on_path.append(cur)
            prev = seen.get(cur)
            cur = prev[0] if prev else None
        guilty = [g.nodes[i] for i in reversed(on_path) if i in tests and not all((i, lab) in fine_edges for lab in ("T", "F"))]
        comp_text = ast.unparse(comp)
        tested = any(comp_text in ast.unparse(tests[i]) for i in on_path if i in tests)
        gtxt = f" (`if {norm(tests[guilty[-1].id])[:90]}`)" if guilty else ""
        line = guilty[-1].line if guilty else loop.lineno
        if tested:
            what = f"an incompatible (predecessor output, node input) pair can end the iteration without a recorded error{gtxt}: validate_pipeline does not reject the configuration, the CLI runs it and the node raises TypeError after earlier nodes (sinks, trace) already ran"
        else:
            what = f"a node that declares an input type and has a typed predecessor can go round the compatibility test{gtxt}: validation accepts a pipeline whose node raises TypeError at run time, after earlier nodes (sinks, trace) already ran"
    R.check(not leaves, r, VALIDATOR, fname, f"each node: no typed predecessor | no input type | {norm(comp)[:60]} | error recorded", what, line, path)
    # ... and validate_pipeline runs the data-flow validation before it decides, and raises on recorded errors
    vp = nfunc(repo, VALIDATOR, "validate_pipeline", keep=(fname,), consts=False)
    gv = CFG(vp, may_raise=lambda part: set())
    flow_calls = [n for n in gv.nodes if n.part is not None and any((call_attr(c) or call_name(c)) == fname for c in calls_in(n.part))]
    raises = [n for n in gv.nodes if n.kind == "stmt" and isinstance(n.ast, ast.Raise)]
    reads = [n for n in gv.nodes if n.part is not None and any(isinstance(x, ast.Attribute) and x.attr == "errors" for x in ast.walk(n.part)) and n not in flow_calls]
    ok = bool(flow_calls) and bool(raises) and bool(reads) and all(gv.dominated_by_node(x.id, flow_calls[0].id) for x in raises + reads)
    R.check(ok, r, VALIDATOR, "validate_pipeline", f"{fname}(...) runs before the errors are collected and raised",
            "validate_pipeline does not run the data-flow validation before it collects the recorded errors (or never raises): an incompatible pipeline passes the validation gate", vp.lineno)


# ---------------------------------------------------------------------------------------------
# D1: the missing-key gate compares the right two sets
# ---------------------------------------------------------------------------------------------
_KEY_PRESERVING_CTORS = {"set", "frozenset", "list", "tuple", "sorted", "dict", "iter", "OrderedDict"}


def _key_roots(e: Optional[ast.AST]) -> Optional[List[ast.AST]]:
    """The mapping expressions whose *unchanged* key sets make up the value of *e* (a key view, a copy, a
    union of such); None when keys are computed / transformed on the way."""
    if e is None:
        return None
    if isinstance(e, (ast.Name, ast.Subscript, ast.Attribute)):
        return [e]
    if isinstance(e, ast.Call):
        f = e.func
        if isinstance(f, ast.Attribute) and f.attr in ("keys", "copy") and not e.args and not e.keywords:
            return _key_roots(f.value)
        if isinstance(f, ast.Attribute) and f.attr == "union" and not e.keywords:
            parts = [_key_roots(f.value)] + [_key_roots(a) for a in e.args]
            return None if any(p is None for p in parts) else [x for p in parts for x in p]
        if isinstance(f, ast.Name) and f.id in _KEY_PRESERVING_CTORS and not e.keywords:
            if not e.args:
                return []
            return _key_roots(e.args[0]) if len(e.args) == 1 else None
        return None
    if isinstance(e, ast.BinOp) and isinstance(e.op, ast.BitOr):
        l, r = _key_roots(e.left), _key_roots(e.right)
        return None if l is None or r is None else l + r
    if isinstance(e, (ast.SetComp, ast.ListComp, ast.GeneratorExp)):
        if len(e.generators) == 1 and not e.generators[0].ifs and isinstance(e.elt, ast.Name) and isinstance(e.generators[0].target, ast.Name) and e.elt.id == e.generators[0].target.id:
            return _key_roots(e.generators[0].iter)
        return None
    if isinstance(e, ast.Dict):
        if all(k is None for k in e.keys):
            parts = [_key_roots(v) for v in e.values]
            return None if any(p is None for p in parts) else [x for p in parts for x in p]
        return None
    if isinstance(e, (ast.Set, ast.List, ast.Tuple)) and not e.elts:
        return []
    if isinstance(e, (ast.Set, ast.List, ast.Tuple)) and all(isinstance(x, ast.Starred) for x in e.elts):
        parts = [_key_roots(x.value) for x in e.elts]  # {*a, *b}: the keys of a and of b, as they are
        return None if any(p is None for p in parts) else [x for p in parts for x in p]
    if isinstance(e, ast.IfExp):
        l, r = _key_roots(e.body), _key_roots(e.orelse)
        return None if l is None or r is None else l + r
    return None


def missing_key_gate(repo: Repo, fn: ast.AST, MISSING: str, INSP: str, CTX: str) -> List[Tuple[bool, str, str, int]]:
    """Obligations on `missing = <required> - <supplied>` (analysed on the normal form, so naming the
    supplied set or the key view does not matter)."""
    from ..engine import mutation_sites
    from ..normal import nfunc
    from ..pat import find1, name_of

    out: List[Tuple[bool, str, str, int]] = []
    nf = _run_normal_form(repo, fn)
    src = nf if len(assigned_value(nf, MISSING)) == 1 else fn
    mv = assigned_value(src, MISSING)
    diff = None
    if len(mv) == 1:
        diffs = [c for c in ast.walk(mv[0]) if isinstance(c, ast.Call) and call_attr(c) == "difference" and len(c.args) == 1] or [b for b in ast.walk(mv[0]) if isinstance(b, ast.BinOp) and isinstance(b.op, ast.Sub)]
        diff = diffs[0] if diffs else None
    if diff is None:
        return [(False, "missing = required_external - supplied", "the missing-key gate is not (inspection's required keys) minus (supplied keys)", 0)]
    left = diff.func.value if isinstance(diff, ast.Call) else diff.left
    right = diff.args[0] if isinstance(diff, ast.Call) else diff.right
    line = getattr(diff, "lineno", 0)
    # -- required side: comes from inspection.required_context_keys
    def from_inspection(e: ast.AST, depth: int = 0) -> bool:
        if "required_context_keys" in ast.unparse(e) and INSP in {x.id for x in ast.walk(e) if isinstance(x, ast.Name)}:
            return True
        if depth > 3:
            return False
        return any(from_inspection(v, depth + 1) for x in ast.walk(e) if isinstance(x, ast.Name) for v in assigned_value(src, x.id))

    out.append((from_inspection(left), "missing = required_external - supplied", "the missing-key gate is not (inspection's required keys) minus (supplied keys)", line))
    # -- supplied side: an untransformed key set
    def expand(e: ast.AST, depth: int = 0) -> Optional[List[ast.AST]]:
        """_key_roots, looking through locals that merely name a (possibly transformed) key set."""
        rs = _key_roots(e)
        if rs is None or depth > 4:
            return rs
        res: List[ast.AST] = []
        for x in rs:
            defs = assigned_value(src, x.id) if isinstance(x, ast.Name) else []
            if isinstance(x, ast.Name) and x.id != CTX and len(defs) == 1 and not mutation_sites(src, {x.id}):
                sub = expand(defs[0], depth + 1)
                if sub is None:
                    return None
                res.extend(sub)
            else:
                res.append(x)
        return res

    roots = expand(right)
    out.append((roots is not None, "supplied keys are compared as they are", f"the supplied side `{norm(right)[:90]}`{_defined_as(src, right)} is not the plain key set of the probed context: keys are computed / normalised before the comparison, while the context handed to the pipeline keeps the original keys - a key the nodes will not find counts as supplied and the run starts", line))
    if roots is None:
        return out
    # -- ... of a mapping made of the --context keys and the keys of a planned run
    mr = find1(src, "_RUNS_, _META_ = expand_run_space(_ANY_, cwd=_ANY_)") or find1(src, "_RUNS_, _META_ = expand_run_space(_ANY_)")
    RUNS = name_of(mr[1], "_RUNS_") if mr else None
    run_vars = set()
    for lp in [n for n in walk_no_nested(src) if isinstance(n, ast.For)]:
        it = lp.iter.args[0] if isinstance(lp.iter, ast.Call) and call_name(lp.iter) == "enumerate" and lp.iter.args else lp.iter
        if RUNS and dotted_name(it) == RUNS:
            tgt = lp.target.elts[-1] if isinstance(lp.target, ast.Tuple) else lp.target
            if isinstance(tgt, ast.Name):
                run_vars.add(tgt.id)

    def base_ok(e: ast.AST, depth: int = 0) -> Optional[str]:
        """None if *e* holds only --context keys / keys of a planned run; else the offending text."""
        if isinstance(e, ast.Subscript) and RUNS and dotted_name(e.value) == RUNS:
            return None
        if isinstance(e, ast.Name):
            if e.id == CTX or e.id in run_vars:
                return None
            if depth > 4:
                return e.id
            defs = assigned_value(src, e.id)
            if not defs:
                return e.id
            for d in defs:
                rs = _key_roots(d)
                if rs is None:
                    return norm(d)[:80]
                for x in rs:
                    bad = base_ok(x, depth + 1)
                    if bad:
                        return bad
            for site, _r in mutation_sites(src, {e.id}):
                if isinstance(site, ast.Call) and call_attr(site) == "update" and len(site.args) == 1 and not site.keywords:
                    rs = _key_roots(site.args[0])
                    if rs is None:
                        return norm(site)[:80]
                    for x in rs:
                        bad = base_ok(x, depth + 1)
                        if bad:
                            return norm(site)[:80]
                else:
                    return norm(site)[:80]
            return None
        return norm(e)[:80]

    offenders = [b for b in (base_ok(x) for x in roots) if b]
    has_ctx = any(_mentions(src, x, CTX) for x in roots)
    out.append((not offenders and has_ctx, "supplied = keys(--context) + keys(planned run)", (f"the probed context receives keys from `{offenders[0]}`, which is neither the --context mapping nor a planned run: the gate can count a key as supplied that no run receives" if offenders else "the supplied side does not contain the --context keys"), line))
    return out


def _mentions(fn: ast.AST, e: ast.AST, name: str, depth: int = 0) -> bool:
    names = {x.id for x in ast.walk(e) if isinstance(x, ast.Name)}
    if name in names:
        return True
    if depth > 3:
        return False
    return any(_mentions(fn, v, name, depth + 1) for nm in names for v in assigned_value(fn, nm))


def _defined_as(fn: ast.AST, e: ast.AST) -> str:
    if isinstance(e, ast.Name):
        d = assigned_value(fn, e.id)
        if len(d) == 1:
            return f" (= `{norm(d[0])[:90]}`)"
    return ""


def _root_name(e: ast.AST) -> Optional[str]:
    while isinstance(e, (ast.Attribute, ast.Subscript)):
        e = e.value
    return e.id if isinstance(e, ast.Name) else None


def _closure(repo: Repo, roots) -> Dict[int, Tuple[object, ast.AST, Tuple[str, ...]]]:
    """Call-graph closure with precise resolution; a call of a *private* method on an object whose
    class is not known statically (`driver._open_file(...)`) is resolved by name - private method
    names are specific enough for that, public ones (`process`, `get`, ...) are not."""
    from ..engine import qualname_of

    seen: Dict[int, Tuple[object, ast.AST, Tuple[str, ...]]] = {}
    todo = [(m, n, (f"{m.rel}:{qualname_of(n)}",)) for m, n in roots]
    while todo:
        m, n, path = todo.pop()
        if id(n) in seen:
            continue
        seen[id(n)] = (m, n, path)
        repo.consulted.add(m.rel)
        for call in calls_in(n, include_nested=True):
            targets = repo.resolve_call(m, call)
            f = call.func
            if not targets and isinstance(f, ast.Attribute) and f.attr.startswith("_") and not f.attr.startswith("__"):
                targets = repo.resolve_call_by_name(call)
            for tm, tn in targets:
                if id(tn) not in seen:
                    todo.append((tm, tn, path + (f"{tm.rel}:{qualname_of(tn)}",)))
    return seen


def _named_test(g: CFG, n, keep_roots: Set[Optional[str]]) -> ast.AST:
    """The test of branch node *n* with a local that only names a boolean expression computed by the
    statement right before the branch (`skip = a is None or b is None` / `if skip:`) replaced by it."""
    import copy

    test = n.part
    subst: Dict[str, ast.AST] = {}
    for x in ast.walk(test):
        if isinstance(x, ast.Name) and x.id not in keep_roots and x.id not in subst:
            defs = reaching_defs(g, x.id, n.id)
            if len(defs) == 1 and defs[0].kind == "stmt" and isinstance(defs[0].ast, (ast.Assign, ast.AnnAssign)):
                d = defs[0]
                val = d.ast.value
                tgts = d.ast.targets if isinstance(d.ast, ast.Assign) else [d.ast.target]
                if len(tgts) == 1 and isinstance(tgts[0], ast.Name) and isinstance(val, (ast.BoolOp, ast.Compare, ast.UnaryOp)) and [t for t, _l in g.succ[d.id] if _l == "n"] == [n.id]:
                    subst[x.id] = val
    if not subst:
        return test

    class T(ast.NodeTransformer):
        def visit_Name(self, node: ast.Name):
            return copy.deepcopy(subst[node.id]) if node.id in subst and isinstance(node.ctx, ast.Load) else node

    return ast.fix_missing_locations(T().visit(copy.deepcopy(test)))


def _run_normal_form(repo: Repo, fn: ast.AST) -> ast.AST:
    """`_run` with its private helpers inlined and naming locals substituted (used for def-use questions
    only; control-flow questions are asked on the function as written)."""
    from ..normal import nfunc

    from ..engine import qualname_of

    qn = qualname_of(fn)
    try:
        return nfunc(repo, CLI, qn, consts=False, copyprop="all")
    except AnalysisError:
        return nfunc(repo, CLI, qn, inline=False, consts=False, copyprop="all")


def _missing_role(tree: ast.AST, fn: ast.AST) -> Optional[str]:
    """The local that holds the missing keys: assigned (in *tree*) from a set difference and tested by an
    `if <name>:` of `_run` itself."""
    found = None
    for cand in [n for n in walk_no_nested(tree) if isinstance(n, ast.Assign) and isinstance(n.targets[0], ast.Name)]:
        if any(isinstance(c, ast.Call) and call_attr(c) == "difference" for c in ast.walk(cand.value)) or (any(isinstance(b, ast.BinOp) and isinstance(b.op, ast.Sub) for b in ast.walk(cand.value)) and "required" in ast.unparse(cand.value)):
            if any(isinstance(i, ast.If) and dotted_name(i.test) == cand.targets[0].id for i in walk_no_nested(fn)):
                found = cand.targets[0].id
    return found


# ---------------------------------------------------------------------------------------------
# D1: one planned run stands for all of them in the missing-key gate -> all runs share one key set
# ---------------------------------------------------------------------------------------------
RUN_SPACE = "semantiva/execution/run_space.py"
_LIST_GROW = {"append", "extend", "insert", "update", "setdefault", "add", "appendleft", "__setitem__"}
_DICT_MUT = {"update", "setdefault", "pop", "popitem", "clear", "__setitem__", "__delitem__"}


def _loads(e: Optional[ast.AST]) -> Set[str]:
    """Names read by *e* as data (the plain name of a called function is not data)."""
    if e is None:
        return set()
    skip = {id(c.func) for c in ast.walk(e) if isinstance(c, ast.Call) and isinstance(c.func, ast.Name)}
    return {x.id for x in ast.walk(e) if isinstance(x, ast.Name) and id(x) not in skip}


def _target_names(t: ast.AST) -> List[str]:
    return [x.id for x in ast.walk(t) if isinstance(x, ast.Name)]


def _bind(target: ast.AST, it: ast.AST) -> List[Tuple[List[str], ast.AST]]:
    """(names, expression they take their values from) for `for target in it`: element-wise for zip(...),
    the iterable for everything else."""
    if isinstance(target, (ast.Tuple, ast.List)) and isinstance(it, ast.Call) and call_name(it) == "zip" and len(it.args) == len(target.elts) and not any(isinstance(a, ast.Starred) for a in it.args):
        return [(_target_names(t), a) for t, a in zip(target.elts, it.args)]
    return [(_target_names(target), it)]


def _comps_with_elt(e: ast.AST) -> List[ast.AST]:
    """Comprehensions (innermost first) that have *e* inside their element expression, up to the statement."""
    out, child = [], e
    for a in _anc(e):
        if isinstance(a, (ast.ListComp, ast.GeneratorExp, ast.SetComp)) and any(child is x or any(child is y for y in ast.walk(x)) for x in [a.elt]):
            out.append(a)
        if isinstance(a, ast.stmt):
            break
        child = a
    return out


def _run_flow(fn: ast.AST, seeds: List[ast.AST]) -> Set[str]:
    """Locals of *fn* whose value can become (part of) the seed expressions: backward data flow through
    assignments, container growth, loop and comprehension targets."""
    live: Set[str] = set()
    for s in seeds:
        live |= _loads(s)
    changed = True
    relevant = [n for n in walk_no_nested(fn) if isinstance(n, (ast.Assign, ast.AnnAssign, ast.AugAssign, ast.Call, ast.For, ast.AsyncFor, ast.comprehension))]
    while changed:
        changed = False
        before = len(live)
        for n in relevant:
            if isinstance(n, (ast.Assign, ast.AnnAssign, ast.AugAssign)) and getattr(n, "value", None) is not None:
                tgts = n.targets if isinstance(n, ast.Assign) else [n.target]
                for t in tgts:
                    if isinstance(t, (ast.Tuple, ast.List)) and isinstance(n.value, (ast.Tuple, ast.List)) and len(t.elts) == len(n.value.elts):
                        for te, ve in zip(t.elts, n.value.elts):
                            if set(_target_names(te)) & live:
                                live |= _loads(ve)
                    elif isinstance(t, (ast.Subscript, ast.Attribute)):
                        if _root_name(t) in live:
                            live |= _loads(n.value)
                    elif set(_target_names(t)) & live:
                        live |= _loads(n.value)
            elif isinstance(n, ast.Call) and isinstance(n.func, ast.Attribute) and n.func.attr in _LIST_GROW and _root_name(n.func.value) in live:
                for a in list(n.args) + [k.value for k in n.keywords]:
                    live |= _loads(a)
            elif isinstance(n, (ast.For, ast.AsyncFor)):
                for names, src in _bind(n.target, n.iter):
                    if set(names) & live:
                        live |= _loads(src)
            elif isinstance(n, ast.comprehension):
                for names, src in _bind(n.target, n.iter):
                    if set(names) & live:
                        live |= _loads(src)
        changed = len(live) != before
    return live


def _variant_closure(scope_nodes: List[ast.AST], var: Set[str]) -> Set[str]:
    """*var* plus the locals that are computed from them inside *scope_nodes* (loop bodies)."""
    var = set(var)
    changed = True
    while changed:
        before = len(var)
        for body in scope_nodes:
            for n in walk_no_nested(body):
                if isinstance(n, (ast.Assign, ast.AnnAssign, ast.AugAssign)) and getattr(n, "value", None) is not None:
                    tgts = n.targets if isinstance(n, ast.Assign) else [n.target]
                    if _loads(n.value) & var:
                        for t in tgts:
                            if isinstance(t, ast.Name) or isinstance(t, (ast.Tuple, ast.List)):
                                var |= set(_target_names(t))
                elif isinstance(n, (ast.For, ast.AsyncFor)) and n is not body:
                    for names, src in _bind(n.target, n.iter):
                        if _loads(src) & var:
                            var |= set(names)
                elif isinstance(n, ast.NamedExpr) and _loads(n.value) & var:
                    var.add(n.target.id)
        changed = len(var) != before
    return var


def _variant_tests_in(expr: ast.AST, var: Set[str]) -> List[ast.AST]:
    """Tests inside a mapping-building expression that decide *which keys* it has and that read per-run
    data: filters of comprehensions, conditions choosing what is merged in (`**(a if t else b)`, dict(a if t else b))."""
    out: List[ast.AST] = []

    def keyed(e: ast.AST, v: Set[str]) -> None:
        if isinstance(e, ast.IfExp):
            if _loads(e.test) & v:
                out.append(e.test)
            keyed(e.body, v)
            keyed(e.orelse, v)
        elif isinstance(e, (ast.DictComp, ast.ListComp, ast.GeneratorExp, ast.SetComp)):
            v = set(v)
            for gen in e.generators:
                for names, src in _bind(gen.target, gen.iter):
                    if _loads(src) & v:
                        v |= set(names)
                for t in gen.ifs:
                    if _loads(t) & v:
                        out.append(t)
        elif isinstance(e, ast.Dict):
            for k, val in zip(e.keys, e.values):
                if k is None:
                    keyed(val, v)
        elif isinstance(e, ast.Call) and call_name(e) in ("dict", "OrderedDict", "zip", "filter", "list", "tuple", "iter", "chain", "itertools.chain"):
            if call_name(e) == "filter" and e.args and _loads(e) & v:
                out.append(e.args[0])
            for a in e.args:
                keyed(a.value if isinstance(a, ast.Starred) else a, v)
            for k in e.keywords:
                if k.arg is None:
                    keyed(k.value, v)
        elif isinstance(e, ast.BinOp) and isinstance(e.op, ast.BitOr):
            keyed(e.left, v)
            keyed(e.right, v)

    keyed(expr, var)
    return out


def runs_share_key_shape_rule(repo: Repo, R: Report, run_fn: ast.AST) -> None:
    """`_run` decides "no required key is missing" on ONE planned run (`runs[0]`).  That stands for every
    run only if all runs produced by `expand_run_space` carry the same keys: wherever a run dictionary
    is built per run, no test that reads per-run data (the cell value, the row index) may decide whether
    a key enters it.  Otherwise run 1 passes the gate and executes, and a later run fails inside a node."""
    from ..engine import qualname_of

    r = R.rule("C17-D1-runs-share-key-shape", "the missing-key gate probes one planned run as the representative of all (runs[<const>]): every run dictionary that expand_run_space produces is built with a key set that does not depend on per-run data - no filter / condition reading the row's values or index decides whether a key enters a run", 2)
    nf = _run_normal_form(repo, run_fn)
    probes_one = False
    for src in (run_fn, nf):
        for a in ast.walk(src):
            if isinstance(a, ast.Assign) and isinstance(a.value, ast.Call) and call_attr(a.value) == "expand_run_space" and isinstance(a.targets[0], (ast.Tuple, ast.Name)):
                runs_name = a.targets[0].elts[0].id if isinstance(a.targets[0], ast.Tuple) and isinstance(a.targets[0].elts[0], ast.Name) else a.targets[0].id if isinstance(a.targets[0], ast.Name) else None
                if runs_name and any(isinstance(s, ast.Subscript) and dotted_name(s.value) == runs_name and isinstance(s.slice, ast.Constant) for s in ast.walk(src)):
                    probes_one = True
    if not probes_one:
        R.ok(r, CLI, "_run", "the gate does not take one run as representative", "", run_fn.lineno)
        R.ok(r, CLI, "_run", "(rule not needed)", "", run_fn.lineno)
        return
    mod = repo.module(RUN_SPACE)
    top = repo.func(RUN_SPACE, "expand_run_space")
    done: Set[Tuple[str, Tuple[str, ...]]] = set()

    def same_module_target(call: ast.Call) -> Optional[ast.AST]:
        for m, node in repo.resolve_call(mod, call):
            if m.rel == RUN_SPACE and isinstance(node, FuncNode):
                return node
        return None

    def analyse(fn: ast.AST, seeds: List[ast.AST], outer_var: Set[str], chain: Tuple[str, ...]) -> None:
        key = (qualname_of(fn), tuple(sorted(outer_var)))
        if key in done or len(chain) > 6:
            return
        done.add(key)
        fname = qualname_of(fn)
        live = _run_flow(fn, seeds)
        # expressions that flow into a run / a list of runs
        roots: List[ast.AST] = list(seeds)
        for n in walk_no_nested(fn):
            if isinstance(n, (ast.Assign, ast.AnnAssign)) and n.value is not None:
                tgts = n.targets if isinstance(n, ast.Assign) else [n.target]
                if any((isinstance(t, ast.Name) and t.id in live) or (isinstance(t, (ast.Subscript, ast.Attribute)) and _root_name(t) in live) or (isinstance(t, (ast.Tuple, ast.List)) and set(_target_names(t)) & live) for t in tgts):
                    roots.append(n.value)
            elif isinstance(n, ast.Call) and isinstance(n.func, ast.Attribute) and n.func.attr in _LIST_GROW and _root_name(n.func.value) in live:
                roots.extend(n.args)
        seen_e: Set[int] = set()
        for root in roots:
            for e in ast.walk(root):
                if id(e) in seen_e:
                    continue
                is_dict = isinstance(e, (ast.Dict, ast.DictComp)) or (isinstance(e, ast.Call) and call_name(e) in ("dict", "OrderedDict"))
                callee = same_module_target(e) if isinstance(e, ast.Call) and not is_dict else None
                if not is_dict and callee is None:
                    continue
                seen_e.add(id(e))
                comps = _comps_with_elt(e)
                var: Set[str] = set(outer_var)
                scopes: List[ast.AST] = []
                local_var: Set[str] = set()
                for c in reversed(comps):
                    for gen in c.generators:
                        local_var |= set(_target_names(gen.target))
                st = stmt_of(e)
                dname = None
                if not comps:
                    # statement level: `d = {...}` / `lst.append({...})` inside the loop(s) that produce the runs
                    loops = [a for a in _anc(st) if isinstance(a, (ast.For, ast.AsyncFor, ast.While))]
                    if isinstance(st, (ast.Assign, ast.AnnAssign)) and st.value is e:
                        t0 = st.targets[0] if isinstance(st, ast.Assign) else st.target
                        dname = t0.id if isinstance(t0, ast.Name) else None
                    recv = None
                    if loops:
                        body_of = loops[0]
                        for c in walk_no_nested(body_of):
                            if isinstance(c, ast.Call) and isinstance(c.func, ast.Attribute) and c.func.attr in ("append", "insert", "add") and isinstance(c.func.value, ast.Name):
                                if (dname and any(isinstance(a, ast.Name) and a.id == dname for a in c.args)) or any(a is e for a in c.args):
                                    recv = c.func.value.id
                    variant_loops = []
                    if recv is not None:
                        created = [n for n in walk_no_nested(fn) if isinstance(n, (ast.Assign, ast.AnnAssign)) and any(isinstance(t, ast.Name) and t.id == recv for t in (n.targets if isinstance(n, ast.Assign) else [n.target]))]
                        for l in loops:
                            if created and all(any(a is l for a in _anc(cr)) for cr in created):
                                break  # the receiving list is created inside this loop: one list per iteration
                            variant_loops.append(l)
                    elif loops and any(isinstance(y, (ast.Yield, ast.YieldFrom)) and (any(x is e for x in ast.walk(y)) or (dname and dname in _loads(y))) for y in walk_no_nested(loops[0])):
                        variant_loops = loops  # a generator of runs: every enclosing loop produces elements
                    for l in variant_loops:
                        if isinstance(l, (ast.For, ast.AsyncFor)):
                            local_var |= set(_target_names(l.target))
                        scopes.append(l)
                var |= local_var
                if not var:
                    continue  # built once, not per run
                var = _variant_closure((scopes or [fn]) if outer_var else scopes, var)
                if callee is not None:
                    params = [a.arg for a in callee.args.posonlyargs + callee.args.args]
                    vparams = {params[i] for i, a in enumerate(e.args) if i < len(params) and not isinstance(a, ast.Starred) and _loads(a) & var}
                    vparams |= {k.arg for k in e.keywords if k.arg and _loads(k.value) & var}
                    rets = [x.value for x in walk_no_nested(callee) if isinstance(x, ast.Return) and x.value is not None]
                    if vparams and rets:
                        analyse(callee, rets, vparams, chain + (fname,))
                    continue
                bad: List[Tuple[ast.AST, str]] = []
                for t in _variant_tests_in(e, var):
                    bad.append((t, f"the filter / condition `{norm(t)[:70]}` inside the run dictionary `{norm(e)[:80]}` reads per-run data"))
                if dname is not None and scopes:
                    inner = scopes[0]
                    for n in walk_no_nested(inner):
                        mut = None
                        if isinstance(n, ast.Call) and isinstance(n.func, ast.Attribute) and n.func.attr in _DICT_MUT and isinstance(n.func.value, ast.Name) and n.func.value.id == dname:
                            mut = n
                            for a in n.args[:1] if n.func.attr == "update" else []:
                                for t in _variant_tests_in(a, var):
                                    bad.append((t, f"the condition `{norm(t)[:70]}` chooses what `{norm(n)[:70]}` merges into the run"))
                        elif isinstance(n, (ast.Assign, ast.AugAssign, ast.Delete)):
                            tg = n.targets if isinstance(n, (ast.Assign, ast.Delete)) else [n.target]
                            if any(isinstance(t, ast.Subscript) and isinstance(t.value, ast.Name) and t.value.id == dname for t in tg):
                                mut = n
                        if mut is None:
                            continue
                        mst = stmt_of(mut)
                        child = mst
                        for a in _anc(mst):
                            if a is inner:
                                break
                            if isinstance(a, (ast.If, ast.While)) and _loads(a.test) & var and not _same_key_both_branches(a, mst, dname):
                                bad.append((a.test, f"`{norm(mst)[:70]}` changes the keys of the run only when `{norm(a.test)[:70]}`, a test on per-run data"))
                            if isinstance(a, (ast.For, ast.AsyncFor, ast.While)):
                                # a variant `continue` / `break` of this inner loop skips the store for some runs
                                for j in walk_no_nested(a):
                                    if isinstance(j, (ast.Continue, ast.Break)) and next((x for x in _anc(j) if isinstance(x, (ast.For, ast.AsyncFor, ast.While))), None) is a:
                                        for g in _anc(j):
                                            if g is a:
                                                break
                                            if isinstance(g, ast.If) and _loads(g.test) & var:
                                                bad.append((g.test, f"`{norm(mst)[:70]}` is skipped for some keys when `{norm(g.test)[:70]}`, a test on per-run data"))
                            child = a
                where = " <- ".join((fname,) + tuple(reversed(chain)))
                if bad:
                    seen_t: Set[int] = set()
                    for t, why in bad:
                        if id(t) in seen_t:
                            continue
                        seen_t.add(id(t))
                        R.violation(r, RUN_SPACE, fname, norm(e)[:100], f"{why}: the planned runs no longer share one key set, but `_run` checks the required context keys against one run only (runs[0]) - a run that lacks the key is started after earlier runs already executed and wrote their outputs / traces, and fails in a node (exit 4) instead of being rejected up front (exit 3) [{where}]", getattr(t, "lineno", getattr(e, "lineno", 0)))
                else:
                    R.ok(r, RUN_SPACE, fname, norm(e)[:100], "", getattr(e, "lineno", 0))

    rets = [x.value for x in walk_no_nested(top) if isinstance(x, ast.Return) and x.value is not None]
    seeds = [v.elts[0] if isinstance(v, ast.Tuple) and v.elts else v for v in rets]
    if not seeds:
        raise AnalysisError("expand_run_space: no return value found")
    analyse(top, seeds, set(), ())
    # list producers called outside a per-run position (`context_runs = _expand_entries(...)`): their returned lists are lists of runs
    todo = [top]
    visited = {id(top)}
    while todo:
        f = todo.pop()
        live = _run_flow(f, seeds if f is top else [x.value for x in walk_no_nested(f) if isinstance(x, ast.Return) and x.value is not None])
        for n in walk_no_nested(f):
            if isinstance(n, (ast.Assign, ast.AnnAssign)) and n.value is not None:
                tgts = n.targets if isinstance(n, ast.Assign) else [n.target]
                flat = [x for t in tgts for x in _target_names(t)]
                if not (set(flat) & live):
                    continue
                vals = [n.value]
            elif isinstance(n, ast.Call) and isinstance(n.func, ast.Attribute) and n.func.attr in _LIST_GROW and _root_name(n.func.value) in live:
                vals = list(n.args)
            elif isinstance(n, ast.Return) and n.value is not None and f is not top:
                vals = [n.value]
            else:
                continue
            for v in vals:
                for c in ast.walk(v):
                    if isinstance(c, ast.Call):
                        callee = same_module_target(c)
                        if callee is not None and id(callee) not in visited and not _comps_with_elt(c):
                            visited.add(id(callee))
                            crets = [x.value for x in walk_no_nested(callee) if isinstance(x, ast.Return) and x.value is not None]
                            # positional narrowing: `a, b = f()` with f returning tuples
                            if isinstance(n, ast.Assign) and isinstance(n.targets[0], ast.Tuple) and n.value is c and crets and all(isinstance(x, ast.Tuple) and len(x.elts) == len(n.targets[0].elts) for x in crets):
                                idxs = [i for i, te in enumerate(n.targets[0].elts) if set(_target_names(te)) & live]
                                crets = [x.elts[i] for x in crets for i in idxs]
                            if crets:
                                analyse(callee, crets, set(), (qualname_of(f),))
                                todo.append(callee)


# ---------------------------------------------------------------------------------------------
# D1: the cap that the expansion gate enforces is the configured number (0 included)
# ---------------------------------------------------------------------------------------------
LOADER = "semantiva/configurations/load_pipeline_from_yaml.py"
CAP_KEY = "max_runs"
_VALUE_KEEPING_CALLS = {"int", "index", "operator.index"}
_VALUE_CHANGING_CALLS = {"min", "max", "abs", "round", "bool", "pow", "divmod", "len"}


def _presence_test(t: ast.AST) -> bool:
    """A test that asks whether a value was supplied at all (`x is None`, `"k" in m`, isinstance), not what it is."""
    if isinstance(t, ast.UnaryOp) and isinstance(t.op, ast.Not):
        return _presence_test(t.operand)
    if isinstance(t, ast.BoolOp):
        return all(_presence_test(v) for v in t.values)
    if isinstance(t, ast.Compare) and len(t.ops) == 1:
        op, l, r = t.ops[0], t.left, t.comparators[0]
        if isinstance(op, (ast.Is, ast.IsNot)) and any(isinstance(x, ast.Constant) and x.value is None for x in (l, r)):
            return True
        if isinstance(op, (ast.In, ast.NotIn)) and isinstance(l, ast.Constant) and isinstance(l.value, str):
            return True
        if isinstance(op, (ast.Eq, ast.NotEq)) and any(isinstance(x, ast.Constant) and x.value is None for x in (l, r)):
            return True
        return False
    if isinstance(t, ast.Call) and call_name(t) in ("isinstance", "hasattr"):
        return True
    return False


class _CapFlow:
    """Does an expression hand on the supplied cap unchanged for every integer (0 included)?
    kind: 'src' (the supplied value, possibly through int()), 'default' (a value that does not depend on
    it), 'bad' (the supplied value is replaced / changed depending on what it is), 'unknown'."""

    def __init__(self, repo: Repo, mod, fn: ast.AST, is_source) -> None:
        self.repo, self.mod, self.fn, self.is_source = repo, mod, fn, is_source
        self.why: List[Tuple[ast.AST, str]] = []

    def mentions_src(self, e: ast.AST, env: Dict[str, str], fn: ast.AST) -> bool:
        for x in ast.walk(e):
            if self.is_source(x):
                return True
            if isinstance(x, ast.Name) and (env.get(x.id) == "src" or (x.id not in env and self._name_kind(x.id, env, fn, 0, quiet=True) == "src")):
                return True
        return False

    def _name_kind(self, name: str, env: Dict[str, str], fn: ast.AST, depth: int, quiet: bool = False) -> str:
        if name in env:
            return env[name]
        if depth > 6:
            return "unknown"
        defs = [n for n in walk_no_nested(fn) if isinstance(n, (ast.Assign, ast.AnnAssign)) and n.value is not None and any(isinstance(t, ast.Name) and t.id == name for t in (n.targets if isinstance(n, ast.Assign) else [n.target]))]
        if not defs:
            return "default" if name not in {a.arg for a in fn.args.posonlyargs + fn.args.args + fn.args.kwonlyargs} else "unknown"
        env = dict(env)
        env[name] = "default"  # cut cycles (x = x or d handled below through the BoolOp itself)
        kinds = []
        for d in defs:
            env2 = dict(env)
            # `x = f(x)`: the right-hand x is the earlier definition
            earlier = [o for o in defs if o is not d and o.lineno < d.lineno]
            if name in _loads(d.value) and earlier:
                ks = [self.kind(o.value, env, fn, depth + 1, quiet) for o in earlier]
                env2[name] = "bad" if "bad" in ks else "src" if "src" in ks else "unknown" if "unknown" in ks else "default"
            k = self.kind(d.value, env2, fn, depth + 1, quiet)
            kinds.append(k)
            # a re-definition guarded by a test on the value itself
            if k != "bad" and len(defs) > 1:
                for a in _anc(d):
                    if a is fn:
                        break
                    if isinstance(a, ast.If) and not _presence_test(a.test):
                        env3 = dict(env)
                        others = [self.kind(o.value, env, fn, depth + 1, True) for o in defs if o is not d]
                        env3[name] = "src" if "src" in others else "default"
                        if self.mentions_src(a.test, env3, fn):
                            if not quiet:
                                self.why.append((a.test, f"`{norm(d)[:60]}` replaces the supplied value when `{norm(a.test)[:60]}` - a test on the value itself, not on its presence"))
                            kinds.append("bad")
        return "bad" if "bad" in kinds else "src" if "src" in kinds else "unknown" if "unknown" in kinds else "default"

    def kind(self, e: Optional[ast.AST], env: Dict[str, str], fn: ast.AST, depth: int = 0, quiet: bool = False) -> str:
        def note(node, text):
            if not quiet:
                self.why.append((node, text))

        if e is None or depth > 8:
            return "unknown"
        if self.is_source(e):
            # m.get(key, d) / m.get(key) / m[key] / m.pop(key, d)
            return "src"
        if isinstance(e, ast.Constant):
            return "default"
        if isinstance(e, ast.Name):
            return self._name_kind(e.id, env, fn, depth, quiet)
        if isinstance(e, ast.Attribute):
            return "default" if not self.mentions_src(e, env, fn) else "unknown"
        if isinstance(e, ast.NamedExpr):
            return self.kind(e.value, env, fn, depth + 1, quiet)
        if isinstance(e, ast.IfExp):
            kb, ko = self.kind(e.body, env, fn, depth + 1, quiet), self.kind(e.orelse, env, fn, depth + 1, quiet)
            if "bad" in (kb, ko):
                return "bad"
            if not _presence_test(e.test) and self.mentions_src(e.test, env, fn) and "src" in (kb, ko):
                note(e.test, f"`{norm(e)[:80]}` keeps the supplied value only when `{norm(e.test)[:50]}` - a test on the value itself (0 is falsy), not on its presence")
                return "bad"
            return "src" if "src" in (kb, ko) else "unknown" if "unknown" in (kb, ko) else "default"
        if isinstance(e, ast.BoolOp):
            ks = [self.kind(v, env, fn, depth + 1, quiet) for v in e.values]
            if "bad" in ks:
                return "bad"
            if "src" in ks[:-1]:
                op = "or" if isinstance(e.op, ast.Or) else "and"
                note(e, f"`{norm(e)[:80]}`: `{op}` decides on the truthiness of the supplied value, so a supplied 0 is replaced by the other operand")
                return "bad"
            return "src" if "src" in ks else "unknown" if "unknown" in ks else "default"
        if isinstance(e, (ast.BinOp, ast.UnaryOp)):
            if self.mentions_src(e, env, fn):
                note(e, f"`{norm(e)[:80]}` computes a different number from the supplied value")
                return "bad"
            return "default"
        if isinstance(e, ast.Call):
            cn = call_name(e) or ""
            if cn in _VALUE_KEEPING_CALLS and len(e.args) == 1 and not e.keywords:
                return self.kind(e.args[0], env, fn, depth + 1, quiet)
            if cn in _VALUE_CHANGING_CALLS and self.mentions_src(e, env, fn):
                note(e, f"`{norm(e)[:80]}` computes a different number from the supplied value")
                return "bad"
            if not self.mentions_src(e, env, fn):
                return "default"
            # a helper of the repository: follow the value through its parameters
            for m, node in self.repo.resolve_call(self.mod, e):
                if isinstance(node, FuncNode):
                    params = [a.arg for a in node.args.posonlyargs + node.args.args]
                    if params and params[0] in ("self", "cls") and isinstance(e.func, ast.Attribute):
                        params = params[1:]
                    env2: Dict[str, str] = {}
                    for i, a in enumerate(e.args):
                        if i < len(params):
                            env2[params[i]] = self.kind(a, env, fn, depth + 1, quiet)
                    for k in e.keywords:
                        if k.arg:
                            env2[k.arg] = self.kind(k.value, env, fn, depth + 1, quiet)
                    for p in params + [a.arg for a in node.args.kwonlyargs]:
                        env2.setdefault(p, "default")
                    rets = [x.value for x in walk_no_nested(node) if isinstance(x, ast.Return) and x.value is not None]
                    ks = [self.kind(rv, env2, node, depth + 1, quiet) for rv in rets]
                    if ks:
                        return "bad" if "bad" in ks else "src" if "src" in ks else "unknown" if "unknown" in ks else "default"
            return "unknown"
        return "unknown"


def _const_key(e: ast.AST, key: str) -> bool:
    return isinstance(e, ast.Constant) and e.value == key


def _cap_entry(e: ast.AST) -> bool:
    """`<m>.get("max_runs"[, d])`, `<m>.pop("max_runs"[, d])`, `<m>["max_runs"]`."""
    if isinstance(e, ast.Call) and isinstance(e.func, ast.Attribute) and e.func.attr in ("get", "pop") and e.args and _const_key(e.args[0], CAP_KEY):
        return True
    return isinstance(e, ast.Subscript) and isinstance(e.ctx, ast.Load) and _const_key(e.slice, CAP_KEY)


def cap_value_rule(repo: Repo, R: Report, run_fn: ast.AST) -> None:
    """`expand_run_space` rejects a run space that is larger than `spec.max_runs`; the CLI turns that into
    EXIT_CONFIG_ERROR before anything runs.  The number compared there has to be the one the user
    configured - for every integer, 0 ("allow no run") included: the parser stores int(<the max_runs
    entry>) and may fall back to a default only when the entry is absent (a presence test), and the CLI
    stores --run-space-max-runs whenever the flag was given."""
    from ..engine import qualname_of
    from ..normal import nfunc

    r = R.rule("C17-D1-cap-value-reaches-gate", "the run-space cap the expansion gate enforces is the configured number for every integer (0 included): the parser stores int(<the 'max_runs' entry>) and replaces it by a default only on absence (is None / key not present), never on its truthiness or magnitude; _run stores --run-space-max-runs whenever the flag is given (is not None) and unchanged", 2)
    mod = repo.module(LOADER)
    sites = 0
    for qual, node in list(mod.defs.items()):
        if not isinstance(node, FuncNode):
            continue
        raw_hit = any((isinstance(n, ast.Attribute) and n.attr == CAP_KEY and isinstance(n.ctx, ast.Store)) or (isinstance(n, ast.keyword) and n.arg == CAP_KEY) for n in walk_no_nested(node))
        if not raw_hit:
            continue
        try:
            nf = nfunc(repo, LOADER, qual, consts=False)
        except AnalysisError:
            nf = node
        stores: List[Tuple[ast.AST, ast.AST]] = []
        for n in walk_no_nested(nf):
            if isinstance(n, (ast.Assign, ast.AnnAssign)) and n.value is not None:
                tgts = n.targets if isinstance(n, ast.Assign) else [n.target]
                if any(isinstance(t, ast.Attribute) and t.attr == CAP_KEY for t in tgts):
                    stores.append((n, n.value))
            elif isinstance(n, ast.Call):
                for k in n.keywords:
                    if k.arg == CAP_KEY and (call_name(n) or "").split(".")[-1][:1].isupper():
                        stores.append((n, k.value))
        for st, val in stores:
            cf = _CapFlow(repo, mod, nf, _cap_entry)
            k = cf.kind(val, {}, nf)
            if k == "default" and any(isinstance(a, ast.ExceptHandler) for a in _anc(st)):
                continue  # fallback of a failed conversion: not the path of a supplied integer
            sites += 1
            if k == "unknown":
                raise AnalysisError(f"{qual}: how `{norm(st)[:80]}` obtains the cap from the '{CAP_KEY}' entry is not recognised")
            if k == "bad":
                node_, why = cf.why[0] if cf.why else (st, "the supplied value is changed")
                R.violation(r, LOADER, qual, norm(st)[:100], f"{why}: the cap that expand_run_space compares the planned number of runs with is then not the configured one (a configured 0 / small cap is silently widened), RunSpaceMaxRunsExceededError is not raised and `semantiva run` executes a run space it had to reject with EXIT_CONFIG_ERROR", getattr(node_, "lineno", getattr(st, "lineno", 0)))
            elif k == "default":
                R.violation(r, LOADER, qual, norm(st)[:100], f"the stored cap does not come from the '{CAP_KEY}' entry of the run_space block: the configured cap is ignored and a run space that exceeds it is executed", getattr(st, "lineno", 0))
            else:
                R.ok(r, LOADER, qual, norm(st)[:100], "", getattr(st, "lineno", 0))
    if sites == 0:
        raise AnalysisError(f"{LOADER}: no statement stores the run-space cap ('{CAP_KEY}')")
    # ---- CLI override
    cli_mod = repo.module(CLI)
    n_cli = 0
    for n in walk_no_nested(run_fn):
        if not (isinstance(n, ast.Assign) and len(n.targets) == 1 and isinstance(n.targets[0], ast.Subscript) and _const_key(n.targets[0].slice, CAP_KEY)):
            continue
        flags = [dotted_name(x) for x in ast.walk(n.value) if isinstance(x, ast.Attribute) and isinstance(x.value, ast.Name) and x.value.id == "args"]
        if not flags:
            continue
        flag = flags[0]
        n_cli += 1
        cf = _CapFlow(repo, cli_mod, run_fn, lambda e, flag=flag: dotted_name(e) == flag)
        k = cf.kind(n.value, {}, run_fn)
        if k == "bad":
            node_, why = cf.why[0] if cf.why else (n, "the flag value is changed")
            R.violation(r, CLI, "_run", norm(n)[:100], f"{why}: the cap given with the flag is not the one the expansion gate enforces, and a run space that exceeds it is executed", n.lineno)
            continue
        # guards: stored whenever the flag was given
        bad_guard = None
        child: ast.AST = n
        for a in _anc(n):
            if a is run_fn:
                break
            if isinstance(a, ast.If) and flag in {dotted_name(x) for x in ast.walk(a.test) if isinstance(x, ast.Attribute)}:
                in_body = any(child is s for s in a.body)
                if not _given_implies(a.test, flag, in_body):
                    bad_guard = a
            child = a
        if bad_guard is not None:
            R.violation(r, CLI, "_run", norm(n)[:100], f"the flag value is stored only when `{norm(bad_guard.test)[:70]}`, which is not 'the flag was given' (`{flag} is not None`): a given `0` (or another value the test rejects) is dropped, the cap of the file / the default stays in force and a run space the user capped is executed", bad_guard.lineno)
        else:
            R.ok(r, CLI, "_run", norm(n)[:100], "", n.lineno)
    if n_cli == 0:
        raise AnalysisError("_run: the statement that stores --run-space-max-runs into the run_space section was not found")


def _given_implies(test: ast.AST, flag: str, want: bool) -> bool:
    """Does `<flag> is not None` imply that *test* evaluates to *want*?"""
    if isinstance(test, ast.UnaryOp) and isinstance(test.op, ast.Not):
        return _given_implies(test.operand, flag, not want)
    if isinstance(test, ast.Compare) and len(test.ops) == 1 and dotted_name(test.left) == flag and isinstance(test.comparators[0], ast.Constant) and test.comparators[0].value is None:
        if isinstance(test.ops[0], (ast.IsNot, ast.NotEq)):
            return want is True
        if isinstance(test.ops[0], (ast.Is, ast.Eq)):
            return want is False
        return False
    if isinstance(test, ast.BoolOp):
        if isinstance(test.op, ast.Or):
            return any(_given_implies(v, flag, True) for v in test.values) if want else all(_given_implies(v, flag, False) for v in test.values)
        return all(_given_implies(v, flag, True) for v in test.values) if want else any(_given_implies(v, flag, False) for v in test.values)
    return False


def _same_key_both_branches(if_node: ast.AST, store_stmt: ast.AST, dname: str) -> bool:
    """`if t: d[k] = a  else: d[k] = b` - the test chooses the value, not whether the key is present."""
    if not isinstance(if_node, ast.If) or not if_node.orelse:
        return False
    if not (isinstance(store_stmt, ast.Assign) and len(store_stmt.targets) == 1 and isinstance(store_stmt.targets[0], ast.Subscript)):
        return False
    key = ast.unparse(store_stmt.targets[0].slice)

    def stores(body: List[ast.stmt]) -> bool:
        return any(isinstance(s, ast.Assign) and len(s.targets) == 1 and isinstance(s.targets[0], ast.Subscript) and isinstance(s.targets[0].value, ast.Name) and s.targets[0].value.id == dname and ast.unparse(s.targets[0].slice) == key for s in body)

    return stores(if_node.body) and stores(if_node.orelse)


# ---------------------------------------------------------------------------------------------
# D4: what the validation gate accepts, the run-time gate accepts too (round 4)
# ---------------------------------------------------------------------------------------------
def _bind_call_args(call: ast.Call, fn: ast.AST) -> Dict[str, ast.AST]:
    """parameter name -> argument expression of *call* to the (plain) function *fn*."""
    params = [a.arg for a in fn.args.posonlyargs + fn.args.args]
    out: Dict[str, ast.AST] = {}
    for i, a in enumerate(call.args):
        if i < len(params) and not isinstance(a, ast.Starred):
            out[params[i]] = a
    for k in call.keywords:
        if k.arg:
            out[k.arg] = k.value
    return out


def compat_test_rule(repo: Repo, R: Report) -> None:
    """The validation gate stands in for the run-time gate of `_DataNode._process`
    (`issubclass(type(data), input_type)`, else TypeError): data produced by the predecessor is an instance
    of its declared output type, so the only verdicts that guarantee the run-time gate lets it through are
    `output == input` and `issubclass(output, input)`.  Any other accepting answer of the compatibility
    test lets `semantiva run` start a pipeline whose node raises TypeError after earlier nodes already ran."""
    from ..engine import qualname_of
    from ..normal import nfunc

    r = R.rule("C17-D4-validation-accepts-only-gate-accepted", "the compatibility test the data-flow validation applies to (predecessor.output_type, node.input_type) answers 'compatible' only on a path that established output == input or issubclass(output, input) - what the run-time gate issubclass(type(data), input_type) of the node accepts for every instance of the declared output type; it has no other accepting branch (reverse direction, common base, exception fallback)", 1)
    fname = _validator_roles(repo)[0]
    vmod = repo.module(VALIDATOR)
    vf = repo.func(VALIDATOR, fname)
    sites: List[Tuple[ast.Call, ast.AST, str, str]] = []
    for c in calls_in(vf):
        for m, node in repo.resolve_call(vmod, c):
            if not isinstance(node, FuncNode):
                continue
            b = _bind_call_args(c, node)
            outs = [p for p, a in b.items() if isinstance(a, ast.Attribute) and a.attr == "output_type"]
            ins = [p for p, a in b.items() if isinstance(a, ast.Attribute) and a.attr == "input_type"]
            if len(outs) == 1 and len(ins) == 1:
                sites.append((c, node, outs[0], ins[0]))
                repo.consulted.add(m.rel)
    if not sites:
        raise AnalysisError(f"{fname}: no call that tests (<pred>.output_type, <node>.input_type) found")
    for c, node, p_out, p_in in sites:
        qn = qualname_of(node)
        try:
            ic = nfunc(repo, VALIDATOR, qn, copyprop="all")
        except Exception:
            ic = node

        def is_in(e: ast.AST) -> bool:
            return dotted_name(e) == p_in or (isinstance(e, (ast.Tuple, ast.List)) and len(e.elts) == 1 and dotted_name(e.elts[0]) == p_in)

        def gate(e: ast.AST) -> Optional[bool]:
            if isinstance(e, ast.Call) and (call_name(e) or "") in ("issubclass", "builtins.issubclass") and len(e.args) == 2 and not e.keywords:
                if dotted_name(e.args[0]) == p_out and is_in(e.args[1]):
                    return True
                return None
            if isinstance(e, ast.Compare) and len(e.ops) == 1:
                l, op, rgt = e.left, e.ops[0], e.comparators[0]
                if {dotted_name(l), dotted_name(rgt)} == {p_out, p_in}:
                    if isinstance(op, (ast.Eq, ast.Is)):
                        return True
                    if isinstance(op, (ast.NotEq, ast.IsNot)):
                        return False
                # input in output.__mro__ / output.mro()
                mro = rgt.func if isinstance(rgt, ast.Call) and not rgt.args else rgt
                if dotted_name(l) == p_in and isinstance(mro, ast.Attribute) and mro.attr in ("__mro__", "mro") and dotted_name(mro.value) == p_out:
                    if isinstance(op, ast.In):
                        return True
                    if isinstance(op, ast.NotIn):
                        return False
            return None

        g = CFG(ic)
        blocked_edges = {(n.id, lab) for n in g.nodes if n.kind in ("if", "while") and n.part is not None for lab in edges_guaranteeing(n.part, gate)}
        seen = g.reach([g.entry], blocked_edges=blocked_edges)
        # the two type parameters keep their entry value: a verdict computed from them earlier still speaks about them at the return
        stable = not any(isinstance(x, ast.Name) and isinstance(x.ctx, (ast.Store, ast.Del)) and x.id in (p_out, p_in) for x in ast.walk(ic)) and not any(isinstance(x, (ast.Global, ast.Nonlocal)) for x in ast.walk(ic))

        params = {a.arg for a in ic.args.posonlyargs + ic.args.args + ic.args.kwonlyargs} | {a.arg for a in (ic.args.vararg, ic.args.kwarg) if a is not None}

        def local_value(d, name: str) -> Optional[ast.AST]:
            a = d.ast
            if d.kind != "stmt":
                return None
            if isinstance(a, ast.Assign) and len(a.targets) == 1 and isinstance(a.targets[0], ast.Name) and a.targets[0].id == name:
                return a.value
            if isinstance(a, ast.AnnAssign) and isinstance(a.target, ast.Name) and a.target.id == name and a.value is not None:
                return a.value
            return None

        def truth_implies_gate(v: Optional[ast.AST], at: int, depth: int = 0) -> bool:
            """Whenever *v*, evaluated at CFG node *at*, is truthy, output == input or issubclass(output, input) held:
            decided on the expression itself, else on the definitions of the local(s) it reads that reach *at* (a verdict
            computed inside `try:` and returned on the `else:` path / after the statement, a verdict set under a guard)."""
            if v is None or (isinstance(v, ast.Constant) and not v.value):
                return True
            if "T" in edges_guaranteeing(v, gate):
                return True
            if not stable or depth > 6:
                return False
            if isinstance(v, ast.Name):
                defs = reaching_defs(g, v.id, at)
                if not defs or v.id in params:
                    return False  # a parameter's entry value can reach the use besides the definitions
                for d in defs:
                    if d.id not in seen:
                        continue  # bound only where the gate's condition was already established
                    dv = local_value(d, v.id)
                    if dv is None or not truth_implies_gate(dv, d.id, depth + 1):
                        return False
                return True
            if isinstance(v, ast.UnaryOp) and isinstance(v.op, ast.Not):
                return False
            if isinstance(v, ast.BoolOp):
                subs = [truth_implies_gate(x, at, depth + 1) for x in v.values]
                return all(subs) if isinstance(v.op, ast.Or) else any(subs)
            if isinstance(v, ast.IfExp):
                return truth_implies_gate(v.body, at, depth + 1) and truth_implies_gate(v.orelse, at, depth + 1)
            if isinstance(v, ast.Call) and isinstance(v.func, ast.Name) and v.func.id == "bool" and len(v.args) == 1 and not v.keywords:
                return truth_implies_gate(v.args[0], at, depth + 1)
            return False

        bad = []
        for nid in seen:
            n = g.nodes[nid]
            if n.kind == "stmt" and isinstance(n.ast, ast.Return):
                if not truth_implies_gate(n.ast.value, n.id):
                    bad.append(n)
        bad.sort(key=lambda n: n.line)
        for n in bad:
            extra = _non_gate_disjunct(n.ast.value, gate)
            R.violation(r, VALIDATOR, qn, norm(n.ast)[:110], f"`{norm(n.ast)[:90]}` can answer 'compatible' without {p_out} == {p_in} or issubclass({p_out}, {p_in}) having been established{extra}: validate_pipeline accepts a pipeline whose data the node's run-time gate rejects, `semantiva run` (and --validate: 'Config valid.') lets it through, the nodes in front of the mismatch execute (sink output, trace file) and the run dies with TypeError (exit 4) instead of being rejected up front (exit 3)", n.line, path=g.path_to(seen, n.id))
        if not bad:
            R.ok(r, VALIDATOR, qn, f"every accepting return of {qn}({p_out}, {p_in}) is guarded by == or issubclass({p_out}, {p_in})", "", ic.lineno)


def _non_gate_disjunct(v: Optional[ast.AST], gate) -> str:
    """Names the operand of an accepting `or` that is not the run-time gate's condition."""
    if isinstance(v, ast.BoolOp) and isinstance(v.op, ast.Or):
        for x in v.values:
            if "T" not in edges_guaranteeing(x, gate):
                return f" (alternative `{norm(x)[:70]}`)"
    return ""


# ---------------------------------------------------------------------------------------------
# D1: a requested run-space dry run reaches the gate `if pipeline_cfg.run_space.dry_run:` (round 4)
# ---------------------------------------------------------------------------------------------
DRY_KEY = "dry_run"


def _dry_entry(e: ast.AST) -> bool:
    """`<m>.get("dry_run"[, d])`, `<m>.pop("dry_run"[, d])`, `<m>["dry_run"]`."""
    if isinstance(e, ast.Call) and isinstance(e.func, ast.Attribute) and e.func.attr in ("get", "pop") and e.args and _const_key(e.args[0], DRY_KEY):
        return True
    return isinstance(e, ast.Subscript) and isinstance(e.ctx, ast.Load) and _const_key(e.slice, DRY_KEY)


class _TruthFlow:
    """What an expression evaluates to when the configured entry is *some truthy value* (a dry run was
    requested): 'T' truthy for every such value, 'F' falsy, 'N' depends on which truthy value it is or on
    something else (the request is narrowed), 'D' does not depend on the entry, 'U' not recognised."""

    def __init__(self, repo: Repo, mod, is_source) -> None:
        self.repo, self.mod, self.is_source = repo, mod, is_source
        self.why: List[Tuple[ast.AST, str]] = []

    def _note(self, node: ast.AST, text: str, quiet: bool) -> None:
        if not quiet:
            self.why.append((node, text))

    def mentions(self, e: ast.AST, env: Dict[str, str], fn: ast.AST) -> bool:
        for x in ast.walk(e):
            if self.is_source(x):
                return True
            if isinstance(x, ast.Name) and self.name_val(x.id, env, fn, 0, True) in ("T", "F", "N"):
                if env.get(x.id, "?") != "D":
                    return True
        return False

    def name_val(self, name: str, env: Dict[str, str], fn: ast.AST, depth: int, quiet: bool) -> str:
        if name in env:
            return env[name]
        if depth > 6:
            return "U"
        defs = [n for n in walk_no_nested(fn) if isinstance(n, (ast.Assign, ast.AnnAssign)) and n.value is not None and any(isinstance(t, ast.Name) and t.id == name for t in (n.targets if isinstance(n, ast.Assign) else [n.target]))]
        if not defs:
            return "D"
        env = dict(env)
        env[name] = "D"  # cut cycles
        vals: List[str] = []
        strong = False
        for d in defs:
            env2 = dict(env)
            earlier = [o for o in defs if o is not d and o.lineno < d.lineno]
            if name in _loads(d.value) and earlier:
                ks = [self.val(o.value, env, fn, depth + 1, True) for o in earlier]
                env2[name] = "N" if "N" in ks else "T" if "T" in ks else "U" if "U" in ks else "F" if "F" in ks else "D"
            v = self.val(d.value, env2, fn, depth + 1, quiet)
            vals.append(v)
            if v == "T":
                # a T definition counts when it is unconditional or guarded by presence tests only
                guards = []
                for a in _anc(d):
                    if a is fn:
                        break
                    if isinstance(a, (ast.If, ast.While)):
                        guards.append(a.test)
                    elif isinstance(a, (ast.ExceptHandler, ast.For)):
                        guards.append(None)
                if all(t is not None and _presence_test(t) for t in guards):
                    strong = True
        if "N" in vals:
            return "N"
        if "U" in vals:
            return "U"
        if "T" in vals:
            others = [d for d, v in zip(defs, vals) if v != "T"]
            if not others:
                return "T"
            last_t = max(d.lineno for d, v in zip(defs, vals) if v == "T")
            if strong and all(o.lineno < last_t for o in others):
                return "T"  # a constant / default initialisation that the entry overrides
            self._note(defs[0], f"`{name}` keeps the requested value only on some paths ({'; '.join(norm(d)[:40] for d in defs)})", quiet)
            return "N"
        return "F" if vals and all(v == "F" for v in vals) else "D"

    def val(self, e: Optional[ast.AST], env: Dict[str, str], fn: ast.AST, depth: int = 0, quiet: bool = False) -> str:
        if e is None or depth > 8:
            return "U"
        if self.is_source(e):
            return "T"
        if isinstance(e, ast.Constant):
            return "T" if e.value else "F"
        if isinstance(e, ast.Name):
            return self.name_val(e.id, env, fn, depth, quiet)
        if isinstance(e, ast.NamedExpr):
            return self.val(e.value, env, fn, depth + 1, quiet)
        if isinstance(e, ast.UnaryOp) and isinstance(e.op, ast.Not):
            v = self.val(e.operand, env, fn, depth + 1, quiet)
            return {"T": "F", "F": "T"}.get(v, v)
        if isinstance(e, ast.BoolOp):
            vs = [self.val(x, env, fn, depth + 1, quiet) for x in e.values]
            if isinstance(e.op, ast.Or):
                if "T" in vs:
                    return "T"
                if all(v == "F" for v in vs):
                    return "F"
                return "N" if "N" in vs else "U" if "U" in vs else "D"
            if "F" in vs:
                return "F"
            if all(v == "T" for v in vs):
                return "T"
            if "N" in vs:
                return "N"
            if "U" in vs:
                return "U"
            if "T" in vs:  # <request> and <something else>
                other = next(x for x, v in zip(e.values, vs) if v == "D")
                self._note(e, f"`{norm(e)[:80]}` honours the request only when `{norm(other)[:50]}` also holds", quiet)
                return "N"
            return "D"
        if isinstance(e, ast.IfExp):
            t = self.val(e.test, env, fn, depth + 1, quiet)
            b, o = self.val(e.body, env, fn, depth + 1, quiet), self.val(e.orelse, env, fn, depth + 1, quiet)
            if t == "T":
                return b
            if t == "F":
                return o
            if b == o and b in ("T", "F", "D"):
                return b
            if t == "U" or "U" in (b, o):
                return "U"
            if t == "D" and "T" not in (b, o) and "N" not in (b, o):
                return "D"
            if t == "D":
                self._note(e.test, f"`{norm(e)[:80]}` honours the request only depending on `{norm(e.test)[:50]}`", quiet)
            return "N"
        if isinstance(e, ast.Compare):
            if len(e.ops) == 1:
                l, op, rgt = e.left, e.ops[0], e.comparators[0]
                none_r = isinstance(rgt, ast.Constant) and rgt.value is None
                none_l = isinstance(l, ast.Constant) and l.value is None
                if none_r or none_l:
                    v = self.val(l if none_r else rgt, env, fn, depth + 1, True)
                    if v == "T":  # a truthy value is not None
                        return "F" if isinstance(op, (ast.Is, ast.Eq)) else "T" if isinstance(op, (ast.IsNot, ast.NotEq)) else "U"
                if isinstance(op, (ast.In, ast.NotIn)) and _const_key(l, DRY_KEY):
                    return "T" if isinstance(op, ast.In) else "F"  # the entry is present
            if self.mentions(e, env, fn):
                self._note(e, f"`{norm(e)[:80]}` compares the configured value with particular values: other truthy spellings of the request (1, 'y', any non-empty value - all of which `if <entry>:` honoured) come out false", quiet)
                return "N"
            return "D"
        if isinstance(e, ast.Call):
            cn = call_name(e) or ""
            if cn in ("bool", "builtins.bool") and len(e.args) == 1 and not e.keywords:
                return self.val(e.args[0], env, fn, depth + 1, quiet)
            if not self.mentions(e, env, fn):
                return "D"
            if cn in ("isinstance", "type", "issubclass"):
                self._note(e, f"`{norm(e)[:80]}` makes the outcome depend on the type of the configured value", quiet)
                return "N"
            for m, node in self.repo.resolve_call(self.mod, e):
                if isinstance(node, FuncNode):
                    b = _bind_call_args(e, node)
                    env2 = {p: self.val(a, env, fn, depth + 1, quiet) for p, a in b.items()}
                    for p in [a.arg for a in node.args.posonlyargs + node.args.args + node.args.kwonlyargs]:
                        env2.setdefault(p, "D")
                    rets = [x.value for x in walk_no_nested(node) if isinstance(x, ast.Return) and x.value is not None]
                    vs = [self.val(rv, env2, node, depth + 1, quiet) for rv in rets]
                    if vs:
                        return "N" if "N" in vs else "U" if "U" in vs else "T" if all(v == "T" for v in vs) else "F" if all(v == "F" for v in vs) else "N" if "T" in vs and "F" in vs else "U"
            return "U"
        if isinstance(e, (ast.Attribute, ast.Subscript)):
            return "U" if self.mentions(e, env, fn) else "D"
        return "U"


def dry_run_request_rule(repo: Repo, R: Report, run_fn: ast.AST) -> None:
    """`_run` leaves before anything executes when `pipeline_cfg.run_space.dry_run` is truthy.  The request
    is the `dry_run` entry of the run_space block (from the file, --set, or written by --run-space-dry-run):
    the gate honours it only if the parser stores a value that is truthy whenever the entry is - not one
    that survives only for particular spellings - and the CLI writes the entry whenever the flag is given."""
    from ..normal import nfunc

    r = R.rule("C17-D1-dry-run-request-reaches-gate", "the value the parser stores as run_space.dry_run is truthy for every truthy `dry_run` entry of the run_space block (the entry itself / bool(entry) / an equivalent; never `is True`, `== ...`, membership in a list of spellings, a type test or a conjunction with another condition), and _run writes a truthy `dry_run` entry on every path to the parser when --run-space-dry-run is given: otherwise `if pipeline_cfg.run_space.dry_run:` is false for a requested dry run and every planned run executes", 2)
    mod = repo.module(LOADER)
    sites = 0
    for qual, node in list(mod.defs.items()):
        if not isinstance(node, FuncNode):
            continue
        raw_hit = any((isinstance(n, ast.Attribute) and n.attr == DRY_KEY and isinstance(n.ctx, ast.Store)) or (isinstance(n, ast.keyword) and n.arg == DRY_KEY) for n in walk_no_nested(node))
        if not raw_hit:
            continue
        try:
            nf = nfunc(repo, LOADER, qual, consts=False)
        except AnalysisError:
            nf = node
        stores: List[Tuple[ast.AST, ast.AST]] = []
        for n in walk_no_nested(nf):
            if isinstance(n, (ast.Assign, ast.AnnAssign)) and n.value is not None:
                tgts = n.targets if isinstance(n, ast.Assign) else [n.target]
                if any(isinstance(t, ast.Attribute) and t.attr == DRY_KEY for t in tgts):
                    stores.append((n, n.value))
            elif isinstance(n, ast.Call):
                for k in n.keywords:
                    if k.arg == DRY_KEY and (call_name(n) or "").split(".")[-1][:1].isupper():
                        stores.append((n, k.value))
        verdicts = []
        for st, val in stores:
            tf = _TruthFlow(repo, mod, _dry_entry)
            verdicts.append((st, val, tf.val(val, {}, nf), tf))

        def presence_only(st: ast.AST) -> bool:
            for a in _anc(st):
                if a is nf:
                    break
                if isinstance(a, (ast.If, ast.While)) and not _presence_test(a.test):
                    return False
                if isinstance(a, (ast.For, ast.AsyncFor, ast.ExceptHandler)):
                    return False
            return True

        strong_t = [st.lineno for st, _v, v, _tf in verdicts if v == "T" and presence_only(st)]
        for st, val, v, tf in verdicts:
            if v in ("D", "F") and any(isinstance(a, ast.ExceptHandler) for a in _anc(st)):
                continue
            if v in ("D", "F") and strong_t and st.lineno < max(strong_t) and not any(isinstance(a, (ast.If, ast.While, ast.For)) for a in _anc(st) if a is not nf):
                continue  # a default that the entry, when present, overrides afterwards
            sites += 1
            line = getattr(st, "lineno", 0)
            tail = "a requested run-space dry run is then parsed as 'not requested', `if pipeline_cfg.run_space.dry_run:` in _run is skipped and every planned run is executed (sink output, trace files) instead of the plan being printed"
            if v == "T":
                R.ok(r, LOADER, qual, norm(st)[:100], "", line)
            elif v == "U":
                raise AnalysisError(f"{qual}: how `{norm(st)[:80]}` obtains the flag from the '{DRY_KEY}' entry is not recognised")
            elif v == "N":
                node_, why = tf.why[0] if tf.why else (st, f"`{norm(val)[:70]}` is not truthy for every truthy entry")
                R.violation(r, LOADER, qual, norm(st)[:100], f"{why}: {tail}", getattr(node_, "lineno", line) if getattr(node_, "lineno", 0) else line)
            else:
                R.violation(r, LOADER, qual, norm(st)[:100], f"the stored flag does not come from the '{DRY_KEY}' entry of the run_space block (or is its negation): {tail}", line)
    if sites == 0:
        raise AnalysisError(f"{LOADER}: no statement stores the run-space dry-run flag ('{DRY_KEY}')")
    # ---- CLI side: --run-space-dry-run writes the entry on every path that reaches the parser
    cli_mod = repo.module(CLI)
    dest = None
    for c in ast.walk(cli_mod.tree):
        if isinstance(c, ast.Call) and call_attr(c) == "add_argument" and any(isinstance(a, ast.Constant) and a.value == "--run-space-dry-run" for a in c.args):
            d = kwarg(c, "dest")
            dest = d.value if isinstance(d, ast.Constant) and isinstance(d.value, str) else "run_space_dry_run"
    if dest is None:
        raise AnalysisError("cli: the --run-space-dry-run option is not declared")
    flag = f"args.{dest}"
    nf_run = _run_normal_form(repo, run_fn)
    g = CFG(nf_run)

    def given(e: ast.AST) -> Optional[bool]:
        if dotted_name(e) == flag:
            return True
        if isinstance(e, ast.Call) and call_name(e) == "bool" and len(e.args) == 1 and dotted_name(e.args[0]) == flag:
            return True
        if isinstance(e, ast.Compare) and len(e.ops) == 1 and dotted_name(e.left) == flag and isinstance(e.comparators[0], ast.Constant):
            c, op = e.comparators[0].value, e.ops[0]
            pos, neg = isinstance(op, (ast.Is, ast.Eq)), isinstance(op, (ast.IsNot, ast.NotEq))
            if c is True and (pos or neg):
                return pos  # argparse store_true: the flag is a real bool
            if c is False and (pos or neg):
                return neg
            if c is None and pos:
                return False
        return None

    def not_given(e: ast.AST) -> Optional[bool]:
        v = given(e)
        return None if v is None else (not v)

    good_nodes: Set[int] = set()
    first_line = run_fn.lineno
    for n in walk_no_nested(nf_run):
        if isinstance(n, ast.Assign) and len(n.targets) == 1 and isinstance(n.targets[0], ast.Subscript) and _const_key(n.targets[0].slice, DRY_KEY):
            v = n.value
            first_line = n.lineno
            if (isinstance(v, ast.Constant) and bool(v.value)) or given(v) is True:
                good_nodes |= set(g.nodes_for(n))
            elif flag in [dotted_name(x) for x in ast.walk(v) if isinstance(x, ast.Attribute)]:
                R.violation(r, CLI, "_run", norm(n)[:100], f"with `{flag}` given, the value written as the '{DRY_KEY}' entry is `{norm(v)[:60]}`, which is not guaranteed truthy: the dry-run gate stays open and the runs execute", n.lineno)
    parse_nodes = [n.id for n in g.nodes if n.part is not None and any(call_attr(c) == "parse_pipeline_config" for c in calls_in(n.part))]
    if not parse_nodes:
        raise AnalysisError("_run: parse_pipeline_config(...) not found in the control-flow graph")
    # paths on which the flag is known to be unset do not count
    blocked_edges = {(n.id, lab) for n in g.nodes if n.kind in ("if", "while") and n.part is not None for lab in edges_guaranteeing(n.part, not_given)}
    seen = g.reach([g.entry], blocked=good_nodes, blocked_edges=blocked_edges)
    hit = [p for p in parse_nodes if p in seen]
    R.check(not hit, r, CLI, "_run", f"`{flag}` given -> a truthy '{DRY_KEY}' entry is written before parse_pipeline_config", f"with `{flag}` given, the parser can be reached without `<run_space section>['{DRY_KEY}'] = True` having been executed (the store is missing, skipped on some path, made under another condition, or does not overwrite a configured value): the flag is ignored, the dry-run gate stays open and every planned run executes", first_line, g.path_to(seen, hit[0]) if hit else None)


# ---------------------------------------------------------------------------------------------
# D1: an invalid (length-mismatched) run space is rejected, not silently truncated (round 4)
# ---------------------------------------------------------------------------------------------
_LEN_TRANSPARENT = {"len", "set", "frozenset", "list", "tuple", "sorted", "reversed", "sum", "min", "max", "any", "all", "enumerate", "zip", "range", "dict", "iter", "bool", "int", "abs"}
_LEN_KEEPING = {"sorted", "list", "tuple", "reversed"}


def _bindings(fn: ast.AST) -> Dict[str, List[ast.AST]]:
    """local name -> expressions it takes its value(s) from (assignments, for targets, comprehension targets)."""
    out: Dict[str, List[ast.AST]] = {}
    for n in walk_no_nested(fn):
        if isinstance(n, (ast.Assign, ast.AnnAssign)) and getattr(n, "value", None) is not None:
            tgts = n.targets if isinstance(n, ast.Assign) else [n.target]
            for t in tgts:
                if isinstance(t, ast.Name):
                    out.setdefault(t.id, []).append(n.value)
        elif isinstance(n, (ast.For, ast.AsyncFor, ast.comprehension)):
            for names, src in _bind(n.target, n.iter):
                for nm in names:
                    out.setdefault(nm, []).append(src)
    return out


def _len_flow(e: ast.AST, binds: Dict[str, List[ast.AST]], compares: Optional[List[ast.AST]] = None) -> Tuple[Set[str], List[ast.AST]]:
    """(names whose size / elements *e* is made of, arguments of the len() calls met on the way): names are
    followed through their definitions as long as those only regroup sequences (comprehensions, list(),
    sorted(), conditional choice ...); a definition by any other call is where a name's history stops."""
    names: Set[str] = set()
    len_args: List[ast.AST] = []
    todo: List[ast.AST] = [e]
    done: Set[int] = set()
    while todo:
        x = todo.pop()
        if id(x) in done:
            continue
        done.add(id(x))
        if isinstance(x, ast.Name):
            if x.id not in names:
                names.add(x.id)
                todo.extend(binds.get(x.id, []))
        elif isinstance(x, ast.Call):
            cn = call_name(x) or ""
            if cn == "len" and len(x.args) == 1:
                len_args.append(x.args[0])
            if cn in _LEN_TRANSPARENT or (isinstance(x.func, ast.Attribute) and x.func.attr in ("items", "values", "keys", "copy") and not x.args):
                todo.extend(a.value if isinstance(a, ast.Starred) else a for a in x.args)
                if isinstance(x.func, ast.Attribute):
                    todo.append(x.func.value)
        elif isinstance(x, ast.IfExp):
            todo.extend([x.body, x.orelse])
        elif isinstance(x, ast.Compare):
            if compares is not None:
                compares.append(x)
            todo.extend(ast.iter_child_nodes(x))
        elif isinstance(x, (ast.ListComp, ast.SetComp, ast.GeneratorExp, ast.DictComp)):
            todo.extend(gen.iter for gen in x.generators)
            todo.extend([x.key, x.value] if isinstance(x, ast.DictComp) else [x.elt])
        elif isinstance(x, ast.Lambda):
            pass
        else:
            todo.extend(ast.iter_child_nodes(x))
    return names, len_args


def _mismatch_roots(test: ast.AST, binds: Dict[str, List[ast.AST]]) -> Set[str]:
    """Names of the sequences whose lengths *test* compares WITH EACH OTHER: `len(set(<lengths>)) <op> <const>`,
    or a comparison both sides of which are made of lengths (`len(a) != len(b)`, `n != lengths[0]`,
    `min(sizes) != max(sizes)`).  A comparison of a length with something else (a cap, a constant) is not one."""
    compares: List[ast.AST] = []
    _len_flow(test, binds, compares)
    roots: Set[str] = set()
    for c in compares:
        sides = [c.left] + list(c.comparators)
        if len(sides) != 2:
            continue
        flows = [_len_flow(s, binds) for s in sides]
        args: List[ast.AST] = []
        if all(f[1] for f in flows):
            args = flows[0][1] + flows[1][1]
        else:
            for s, other in ((sides[0], sides[1]), (sides[1], sides[0])):
                if isinstance(other, ast.Constant) and isinstance(s, ast.Call) and call_name(s) == "len" and len(s.args) == 1:
                    inner = s.args[0]
                    is_set = isinstance(inner, (ast.SetComp, ast.Set)) or (isinstance(inner, ast.Call) and call_name(inner) in ("set", "frozenset")) or (isinstance(inner, ast.Name) and any(isinstance(d, (ast.SetComp, ast.Set)) or (isinstance(d, ast.Call) and call_name(d) in ("set", "frozenset")) for d in binds.get(inner.id, [])))
                    if is_set:
                        args = _len_flow(inner, binds)[1]
        for a in args:
            roots |= _len_flow(a, binds)[0]
    return roots


def _len_token(e: ast.AST, fn: ast.AST, binds: Dict[str, List[ast.AST]], depth: int = 0) -> str:
    """A canonical text for 'the number of elements of e': equal tokens = equal lengths by construction."""
    if depth > 6:
        return ast.unparse(e)
    if isinstance(e, ast.Name):
        defs = binds.get(e.id, [])
        if len(defs) == 1:
            d = defs[0]
            if isinstance(d, ast.Call) and (call_name(d) or "") in ("itertools.product", "product") and len(d.args) == 1 and isinstance(d.args[0], ast.Starred) and not d.keywords:
                return _len_token(d.args[0].value, fn, binds, depth + 1)  # one element per factor
            is_target = any(isinstance(n, (ast.For, ast.AsyncFor, ast.comprehension)) and e.id in _target_names(n.target) for n in walk_no_nested(fn))
            if not is_target:
                return _len_token(d, fn, binds, depth + 1)
        return e.id
    if isinstance(e, (ast.ListComp, ast.GeneratorExp)) and len(e.generators) == 1 and not e.generators[0].ifs:
        return _len_token(e.generators[0].iter, fn, binds, depth + 1)
    if isinstance(e, ast.Call) and (call_name(e) or "") in _LEN_KEEPING and len(e.args) == 1 and not isinstance(e.args[0], ast.Starred):
        return _len_token(e.args[0], fn, binds, depth + 1)
    if isinstance(e, ast.Call) and isinstance(e.func, ast.Attribute) and e.func.attr in ("keys", "values", "items") and not e.args:
        return _len_token(e.func.value, fn, binds, depth + 1)
    return ast.unparse(e)


def _pairing_sites(fn: ast.AST, binds: Dict[str, List[ast.AST]]) -> List[Tuple[ast.AST, List[ast.AST], str]]:
    """(node, paired sequences, description) for every construct that walks two or more sequences in
    lock-step and stops at the shortest / at a bound taken from one of them."""
    out: List[Tuple[ast.AST, List[ast.AST], str]] = []
    for c in walk_no_nested(fn):
        if isinstance(c, ast.Call) and (call_name(c) or "") in ("zip", "map", "builtins.zip"):
            strict = kwarg(c, "strict")
            if isinstance(strict, ast.Constant) and strict.value is True and any(isinstance(a, ast.Try) and any(isinstance(x, ast.Raise) for h in a.handlers for x in ast.walk(h)) and any(c is y for b in a.body for y in ast.walk(b)) for a in _anc(c)):
                continue  # a mismatch raises ValueError, which the enclosing handler turns into the module's error
            ops = list(c.args[1:] if call_name(c) == "map" else c.args)
            starred = [a for a in ops if isinstance(a, ast.Starred)]
            if len(ops) < 2 and not starred:
                continue
            if not starred and len({_len_token(a, fn, binds) for a in ops}) == 1:
                continue  # equal lengths by construction
            is_strict = isinstance(strict, ast.Constant) and strict.value is True
            out.append((c, [a.value if isinstance(a, ast.Starred) else a for a in ops], f"`{norm(c)[:70]}` raises a bare ValueError on a length mismatch - not the configuration error `_run` maps to EXIT_CONFIG_ERROR (the CLI ends in a traceback)" if is_strict else f"`{norm(c)[:70]}` stops at the shortest operand"))
    loops: List[Tuple[ast.AST, ast.AST, ast.AST, List[ast.AST]]] = []  # (node, target, iter, scope)
    for n in walk_no_nested(fn):
        if isinstance(n, (ast.For, ast.AsyncFor)):
            loops.append((n, n.target, n.iter, list(n.body)))
        elif isinstance(n, (ast.ListComp, ast.SetComp, ast.GeneratorExp, ast.DictComp)):
            for i, gen in enumerate(n.generators):
                scope: List[ast.AST] = [n.key, n.value] if isinstance(n, ast.DictComp) else [n.elt]
                scope += list(gen.ifs)
                for later in n.generators[i + 1:]:
                    scope += [later.iter] + list(later.ifs)
                loops.append((n, gen.target, gen.iter, scope))
    for node, target, it, scope in loops:
        if not isinstance(it, ast.Call):
            continue
        cn = call_name(it) or ""
        extra: List[ast.AST] = []
        if cn == "range" and isinstance(target, ast.Name):
            idx = target.id
        elif cn == "enumerate" and isinstance(target, (ast.Tuple, ast.List)) and len(target.elts) == 2 and isinstance(target.elts[0], ast.Name) and it.args:
            idx = target.elts[0].id
            extra = [it.args[0]]
        else:
            continue
        inner: Set[str] = set()
        bases: List[ast.AST] = []
        for s in scope:
            for x in ast.walk(s):
                if isinstance(x, (ast.For, ast.AsyncFor, ast.comprehension)):
                    inner |= set(_target_names(x.target))
                elif isinstance(x, ast.Subscript) and isinstance(x.ctx, ast.Load) and isinstance(x.slice, ast.Name) and x.slice.id == idx:
                    bases.append(x.value)
        distinct: Dict[str, ast.AST] = {}
        for b in extra + bases:
            distinct.setdefault(ast.unparse(b), b)
        if not bases:
            continue
        varying = [b for b in bases if _loads(b) & (inner - {idx})]
        if len(distinct) >= 2 or varying:
            what = ", ".join(f"`{t}[{idx}]`" for t in list(distinct)[:3])
            out.append((node, list(distinct.values()), f"the loop over `{norm(it)[:40]}` reads {what} position by position"))
    return out


def position_merge_rule(repo: Repo, R: Report) -> None:
    """A run space whose by_position lists / columns / blocks differ in length is documented as invalid;
    `_run` rejects it (EXIT_CONFIG_ERROR, nothing runs) only because `expand_run_space` *raises*.  So
    wherever the expansion pairs two or more sequences position by position, a length test that raises
    has to come first: zip() (or an index bounded by one operand) would otherwise silently cut the run
    space down to the shorter side and `semantiva run` would execute it and exit 0."""
    from ..engine import qualname_of
    from ..normal import nfunc

    r = R.rule("C17-D1-position-merge-length-guarded", "the expansion gate rejects a run space with mismatched lengths instead of truncating it: every place in expand_run_space (and the helpers it calls) that walks two or more sequences in lock-step - zip(...) without strict=True over operands that are not equally long by construction, an index loop reading several sequences at the same position - is dominated by a raising test that compares the lengths of all the sequences it pairs with each other", 2)
    mod = repo.module(RUN_SPACE)
    top = repo.func(RUN_SPACE, "expand_run_space")
    funcs: List[ast.AST] = []
    todo = [top]
    while todo:
        f = todo.pop()
        if any(f is x for x in funcs):
            continue
        funcs.append(f)
        for c in calls_in(f, include_nested=True):
            for m, node in repo.resolve_call(mod, c):
                if m.rel == RUN_SPACE and isinstance(node, FuncNode):
                    todo.append(node)
    reported: Set[Tuple[int, int]] = set()
    for f in funcs:
        qn = qualname_of(f)
        try:
            nf = nfunc(repo, RUN_SPACE, qn, consts=False)
        except Exception:
            nf = f
        binds = _bindings(nf)
        sites = _pairing_sites(nf, binds)
        if not sites:
            continue
        g = CFG(nf)
        raise_ids = {n.id for n in g.nodes if n.kind == "stmt" and isinstance(n.ast, ast.Raise)}
        guards: List[Tuple[object, Set[str], Dict[str, Set[int]]]] = []
        for n in g.nodes:
            if n.kind != "if" or n.part is None:
                continue
            roots = _mismatch_roots(n.part, binds)
            if not roots:
                continue
            branches: Dict[str, Set[int]] = {}
            for lab in ("T", "F"):
                succ = [t for t, l in g.succ[n.id] if l == lab]
                seen = set(g.reach(succ)) if succ else set()
                if succ and g.ret_exit not in seen and seen & raise_ids:
                    branches[lab] = seen
            if branches:
                guards.append((n, roots, branches))
        for node, operands, what in sites:
            key = (getattr(node, "lineno", 0), getattr(node, "col_offset", 0))
            if key in reported:
                continue
            reported.add(key)
            st = node if isinstance(node, ast.stmt) else stmt_of(node)
            ids = g.nodes_for(st)
            if not ids:
                raise AnalysisError(f"{qn}: `{norm(node)[:60]}` not found in the control-flow graph")
            covered: Set[str] = set()
            for gn, roots, branches in guards:
                if gn.id in ids:
                    continue
                if all(g.dominated_by_node(i, gn.id) for i in ids) and any(not (set(ids) & seen) for seen in branches.values()):
                    covered |= roots
            loose = [o for o in operands if not (_len_flow(o, binds)[0] & covered)]
            R.check(not loose, r, RUN_SPACE, qn, norm(node)[:100], (f"{what}, and no raising test that compares lengths with each other covers `{norm(loose[0])[:50]}` before it: a by_position run space whose sides differ in length (documented: 'Mismatched lengths under any zip semantics' is a configuration error) is no longer rejected by expand_run_space - `_run`'s `return EXIT_CONFIG_ERROR` never fires, the run space is cut down to the shorter side and executed (exit 0, sink output, trace files); the dry runs report the invalid plan as valid" if loose else ""), getattr(node, "lineno", 0))


# ---------------------------------------------------------------------------------------------
# D1 (round 5): the configuration is complete when it is parsed - nothing is written into it afterwards
# ---------------------------------------------------------------------------------------------
_CONTAINER_MUTATORS = {"update", "setdefault", "pop", "popitem", "clear", "append", "extend", "insert", "remove", "sort", "reverse", "__setitem__", "__delitem__"}


def _container_root(e: Optional[ast.AST]) -> Optional[str]:
    """The local a (nested) container expression is taken from: `c`, `c[k]`, `c.get(k)`, `c.setdefault(k, d)[j]`, `c.attr` -> `c`."""
    while e is not None:
        if isinstance(e, ast.Name):
            return e.id
        if isinstance(e, (ast.Subscript, ast.Attribute, ast.Starred)):
            e = e.value
        elif isinstance(e, ast.Call) and isinstance(e.func, ast.Attribute) and e.func.attr in ("get", "setdefault") and e.args:
            e = e.func.value
        elif isinstance(e, ast.IfExp):
            a, b = _container_root(e.body), _container_root(e.orelse)
            return a if a is not None else b
        elif isinstance(e, ast.NamedExpr):
            e = e.value
        else:
            return None
    return None


def _parts_of(fn: ast.AST, roots: Set[str]) -> Set[str]:
    """*roots* plus the locals of *fn* that name (a part of) one of them: `x = c`, `x = c[k]`, `x = c.get(k)`,
    `x = c.setdefault(k, {})`, `x = x[k]` ... - a store through such a local is a store into the object."""
    parts = set(roots)
    changed = True
    while changed:
        changed = False
        for n in walk_no_nested(fn):
            tgt, val = None, None
            if isinstance(n, ast.Assign) and len(n.targets) == 1 and isinstance(n.targets[0], ast.Name):
                tgt, val = n.targets[0].id, n.value
            elif isinstance(n, ast.AnnAssign) and isinstance(n.target, ast.Name) and n.value is not None:
                tgt, val = n.target.id, n.value
            elif isinstance(n, ast.NamedExpr):
                tgt, val = n.target.id, n.value
            if tgt is None or tgt in parts:
                continue
            # a fresh copy (`dict(c)`, `c.copy()`, a literal) is not a part: only access chains are followed
            if _container_root(val) in parts:
                parts.add(tgt)
                changed = True
    return parts


def _writes_into(repo: Repo, mod, fn: ast.AST, roots: Set[str], depth: int = 0, _seen: Optional[Set[Tuple[int, Tuple[str, ...]]]] = None) -> List[Tuple[ast.AST, str]]:
    """(node, description) for every construct of *fn* that modifies an object named by *roots* (or a part of
    it): subscript stores / deletes, mutating container methods, and calls that hand it to a function of the
    package which writes into the corresponding parameter (followed three levels)."""
    _seen = _seen if _seen is not None else set()
    key = (id(fn), tuple(sorted(roots)))
    if key in _seen or depth > 3:
        return []
    _seen.add(key)
    parts = _parts_of(fn, roots)
    out: List[Tuple[ast.AST, str]] = []
    for n in walk_no_nested(fn):
        if isinstance(n, (ast.Assign, ast.AugAssign, ast.AnnAssign, ast.Delete)):
            tgts = n.targets if isinstance(n, (ast.Assign, ast.Delete)) else [n.target]
            for t in tgts:
                for x in ([t] if not isinstance(t, (ast.Tuple, ast.List)) else t.elts):
                    if isinstance(x, (ast.Subscript, ast.Attribute)) and _container_root(x) in parts:
                        out.append((n, f"store `{norm(n)[:70]}`"))
        elif isinstance(n, ast.Call):
            f = n.func
            if isinstance(f, ast.Attribute) and f.attr in _CONTAINER_MUTATORS and _container_root(f.value) in parts:
                out.append((n, f"`{norm(n)[:70]}`"))
                continue
            passed = [(i, None, a) for i, a in enumerate(n.args) if _container_root(a) in parts] + [(None, k.arg, k.value) for k in n.keywords if k.arg and _container_root(k.value) in parts]
            if not passed:
                continue
            for m, node in repo.resolve_call(mod, n):
                if not isinstance(node, FuncNode):
                    continue
                params = [a.arg for a in node.args.posonlyargs + node.args.args]
                if params and params[0] in ("self", "cls") and isinstance(f, ast.Attribute):
                    params = params[1:]
                names = {params[i] for i, _k, _a in passed if i is not None and i < len(params)} | {k for _i, k, _a in passed if k}
                if not names:
                    continue
                inner = _writes_into(repo, m, node, names, depth + 1, _seen)
                if inner:
                    out.append((n, f"`{norm(n)[:70]}` ({node.name} writes into its parameter: {inner[0][1]})"))
                    break
    return out


def config_complete_rule(repo: Repo, R: Report, mod, fn: ast.AST, g: CFG, CONFIG: str) -> None:
    """All gates of `_run` look at the *parsed* configuration (`parse_pipeline_config(config)` copies and converts
    the run-space block, the trace / execution sections and each node entry).  What the user asked for - the
    file, `--set` overrides, the flag-driven sections, a run-space file - is therefore only gated if it is in
    `config` when the parser reads it: a write into `config` that can happen after the parse is either lost or
    seen through an accidental alias only, and the gates decide on a configuration the user did not ask for."""
    r = R.rule("C17-D1-config-complete-before-parse", "every statement of _run that writes into the configuration object (directly, through a local naming a part of it, or by handing it to a helper that writes into its parameter: --set overrides, flag-driven sections, run-space file) is executed before parse_pipeline_config(config) reads it - none is reachable after the parse", 2)
    parse_nodes = [n for n in g.nodes if n.part is not None and any(call_attr(c) == "parse_pipeline_config" for c in calls_in(n.part))]
    if not parse_nodes:
        raise AnalysisError("_run: parse_pipeline_config(...) not found in the control-flow graph")
    after: Set[int] = set()
    for pn in parse_nodes:
        after |= set(g.reach([t for t, lab in g.succ[pn.id] if lab not in (EXC, BASE)]))
    sites = _writes_into(repo, mod, fn, {CONFIG})
    seen_stmt: Set[int] = set()
    for node, what in sites:
        st = node if isinstance(node, ast.stmt) else stmt_of(node)
        if id(st) in seen_stmt:
            continue
        seen_stmt.add(id(st))
        ids = g.nodes_for(st)
        if not ids:
            continue
        late = [i for i in ids if i in after]
        if late:
            # the store goes through a local: flow-sensitively, does a definition that makes it (a part of) the
            # configuration reach this statement?  (a name re-used for a fresh mapping later on is not one)
            parts = _parts_of(fn, {CONFIG})
            holders = {_container_root(x) for x in ast.walk(node) if isinstance(x, (ast.Subscript, ast.Attribute, ast.Name))} & parts
            if holders and CONFIG not in holders:
                def reaches_as_part(h: str, at: int) -> bool:
                    defs = reaching_defs(g, h, at)
                    return not defs or any(_container_root(getattr(d.ast, "value", None)) in parts for d in defs if d.kind == "stmt") or any(d.kind != "stmt" for d in defs)
                late = [i for i in late if any(reaches_as_part(h, i) for h in holders)]
        R.check(not late, r, CLI, "_run", norm(st)[:100], f"{what} modifies the configuration after parse_pipeline_config has read it: the parsed configuration (run-space block, cap, dry-run request, trace / execution sections, node entries - all copied or converted by the parser) does not contain this change, so validation, the run-space cap, the dry-run gates and the missing-key check decide on a configuration without it - `--set run_space.dry_run=true` / `--set run_space.max_runs=N` / an override that makes the pipeline invalid are silently ignored and the runs execute" if late else "", getattr(st, "lineno", fn.lineno), g.path_to(g.reach([parse_nodes[0].id]), late[0]) if late else None)
    # every CLI option that carries configuration content reaches the configuration at all: args.overrides
    ov = [n for n in walk_no_nested(fn) if isinstance(n, (ast.For, ast.AsyncFor)) and dotted_name(n.iter) == "args.overrides"]
    if ov:
        applied = any(any(node is x or any(node is y for y in ast.walk(x)) for x in lp.body) for lp in ov for node, _w in sites)
        R.check(applied, r, CLI, "_run", "--set overrides are written into the configuration", "the loop over args.overrides no longer writes into the configuration object that is parsed: the overrides are ignored by every gate", ov[0].lineno)
    else:
        R.ok(r, CLI, "_run", "(no --set loop in _run)", "", fn.lineno)


# ---------------------------------------------------------------------------------------------
# D4 (round 5): "this parameter has no default" survives on its way to the required-key analysis
# ---------------------------------------------------------------------------------------------
BUILDER = "semantiva/inspection/builder.py"
_DEEP_COPIERS = {"deepcopy": "copy.deepcopy", "asdict": "dataclasses.asdict", "astuple": "dataclasses.astuple", "loads": "pickle.loads"}


def _module_constant(repo: Repo, mod, name: str, depth: int = 0) -> Optional[Tuple[object, ast.AST]]:
    """The module-level assignment a global / imported *name* of *mod* refers to."""
    for st in mod.tree.body:
        if isinstance(st, ast.Assign) and any(isinstance(t, ast.Name) and t.id == name for t in st.targets):
            return mod, st
        if isinstance(st, ast.AnnAssign) and isinstance(st.target, ast.Name) and st.target.id == name and st.value is not None:
            return mod, st
    target = mod.imports.get(name)
    if target and depth < 4 and "." in target:
        owner, _, attr = target.rpartition(".")
        m2 = repo.by_dotted.get(owner)
        if m2 is not None and m2 is not mod:
            return _module_constant(repo, m2, attr, depth + 1)
    return None


def _is_plain_object_sentinel(st: ast.AST) -> bool:
    v = getattr(st, "value", None)
    return isinstance(v, ast.Call) and isinstance(v.func, ast.Name) and v.func.id == "object" and not v.args and not v.keywords


def _value_roots(fn: ast.AST) -> List[ast.AST]:
    """Expressions of *fn* whose value can become (part of) what it returns / yields."""
    seeds = [x.value for x in walk_no_nested(fn) if isinstance(x, (ast.Return, ast.Yield, ast.YieldFrom)) and x.value is not None]
    if not seeds:
        return []
    live = _run_flow(fn, seeds)
    roots: List[ast.AST] = list(seeds)
    for n in walk_no_nested(fn):
        if isinstance(n, (ast.Assign, ast.AnnAssign, ast.AugAssign)) and getattr(n, "value", None) is not None:
            tgts = n.targets if isinstance(n, ast.Assign) else [n.target]
            if any((isinstance(t, ast.Name) and t.id in live) or (isinstance(t, (ast.Subscript, ast.Attribute)) and _root_name(t) in live) or (isinstance(t, (ast.Tuple, ast.List)) and set(_target_names(t)) & live) for t in tgts):
                roots.append(n.value)
        elif isinstance(n, ast.Call) and isinstance(n.func, ast.Attribute) and n.func.attr in _LIST_GROW and _root_name(n.func.value) in live:
            roots.extend(n.args)
            roots.extend(k.value for k in n.keywords)
        elif isinstance(n, (ast.For, ast.AsyncFor)) and set(_target_names(n.target)) & live:
            roots.append(n.iter)
    return roots


def _simple_call_name(c: ast.Call) -> Optional[str]:
    f = c.func
    return f.attr if isinstance(f, ast.Attribute) else f.id if isinstance(f, ast.Name) else None


def absence_sentinel_rule(repo: Repo, R: Report) -> None:
    """The required-key set behind the missing-key gate is built from `inspect_origin(...) == "required"`, which
    is decided by an *identity* test against a module-level `object()` sentinel stored in the parameter
    descriptions of the processor's metadata ("no default").  A plain `object()` does not survive a deep copy
    (copy.deepcopy / dataclasses.asdict / a pickle round trip return a *new* object), so a deep copy anywhere on
    the way from the place that writes the sentinel to the identity test turns every default-less parameter
    into one "with a default": the key leaves required_context_keys, `missing` is empty, and the CLI executes a
    configuration whose required key was never supplied."""
    from ..engine import enclosing_class, enclosing_function, parent, qualname_of

    r = R.rule("C17-D4-absence-sentinel-survives-copies", "the 'no default' marker the required-key analysis tests by identity (`is <module-level object() sentinel>`) reaches that test as the same object: no function that hands on values holding it (parameter descriptions, component metadata and whatever is derived from them by returned-value flow) passes them through a deep copy (copy.deepcopy, dataclasses.asdict / astuple, pickle round trip) - a deep copy of a plain object() is a different object, the parameter then counts as defaulted and its key vanishes from inspection.required_context_keys", 1)
    bmod = repo.module(BUILDER)
    clo = _closure(repo, [(bmod, repo.func(BUILDER, "build_pipeline_inspection"))])
    clo_ids = set(clo)
    # 1. identity tests of the analysis against plain object() sentinels
    sentinels: Dict[Tuple[str, str], Tuple[object, ast.AST]] = {}
    tests: List[Tuple[object, ast.AST, ast.AST, Tuple[str, str]]] = []
    for _id, (m, node, _path) in clo.items():
        for c in walk_no_nested(node):
            if isinstance(c, ast.Compare) and len(c.ops) == 1 and isinstance(c.ops[0], (ast.Is, ast.IsNot)):
                for side in (c.left, c.comparators[0]):
                    if isinstance(side, ast.Name):
                        mc = _module_constant(repo, m, side.id)
                        if mc is not None and _is_plain_object_sentinel(mc[1]):
                            key = (mc[0].rel, [t.id for t in (mc[1].targets if isinstance(mc[1], ast.Assign) else [mc[1].target]) if isinstance(t, ast.Name)][0])
                            sentinels[key] = mc
                            tests.append((m, node, c, key))
    if not tests:
        R.ok(r, BUILDER, "build_pipeline_inspection", "(the required-key analysis uses no identity-compared object() sentinel)", "", 0)
        return
    # 2. who hands the sentinel on: by-value uses, then returned-value flow by simple name
    carriers: Dict[str, str] = {}
    funcs = [(m, qn, node) for m, qn, node in repo.all_functions()]
    sentinel_names = {k[1] for k in sentinels}
    for m in repo.modules.values():
        if not any(sn in m.source for sn in sentinel_names):
            continue  # an alias import still spells the original name
        local = {nm for nm in {x.id for x in ast.walk(m.tree) if isinstance(x, ast.Name)} if (mc := _module_constant(repo, m, nm)) is not None and any(mc[1] is s[1] for s in sentinels.values())}
        if not local:
            continue
        for x in ast.walk(m.tree):
            if not (isinstance(x, ast.Name) and x.id in local and isinstance(x.ctx, ast.Load)):
                continue
            p = parent(x)
            if isinstance(p, ast.Compare) and len(p.ops) == 1 and isinstance(p.ops[0], (ast.Is, ast.IsNot)):
                continue
            ef = enclosing_function(x)
            ec = enclosing_class(x)
            if ef is not None:
                carriers.setdefault(ef.name, f"{m.rel}:{qualname_of(ef)} uses the sentinel as a value")
            elif ec is not None:
                carriers.setdefault(ec.name, f"{m.rel}: class {ec.name} has a field defaulting to the sentinel")
    call_names: Dict[int, Set[str]] = {id(node): set() for _m, _qn, node in funcs}
    copier_calls: Dict[int, List[ast.Call]] = {}
    for m in repo.modules.values():  # one pass per module: calls by their (innermost) enclosing function
        for c in ast.walk(m.tree):
            if isinstance(c, ast.Call):
                nm = _simple_call_name(c)
                ef = enclosing_function(c)
                if nm and ef is not None and id(ef) in call_names:
                    call_names[id(ef)].add(nm)
                    if nm in _DEEP_COPIERS and c.args:
                        copier_calls.setdefault(id(ef), []).append(c)
    roots_cache: Dict[int, List[ast.AST]] = {}
    changed = True
    while changed:
        changed = False
        for m, qn, node in funcs:
            if node.name in carriers or not (call_names[id(node)] & set(carriers)):
                continue
            roots = roots_cache.setdefault(id(node), _value_roots(node))
            hit = next((c for rt in roots for c in ast.walk(rt) if isinstance(c, ast.Call) and _simple_call_name(c) in carriers), None)
            if hit is not None:
                carriers[node.name] = f"{m.rel}:{qn} returns what {_simple_call_name(hit)}(...) gives"
                changed = True
    # 3. deep copies of such values
    n_sites = 0
    for m, qn, node in funcs:
        copies = [c for c in copier_calls.get(id(node), []) if (_simple_call_name(c) != "loads" or (isinstance(c.func, ast.Attribute) and (dotted_name(c.func.value) or "").split(".")[-1] in ("pickle", "cPickle", "dill", "cloudpickle")))]
        if not copies:
            continue
        in_flow = node.name in carriers or id(node) in clo_ids
        for c in copies:
            arg = c.args[0]
            live = _run_flow(node, [arg])
            exprs: List[ast.AST] = [arg]
            for n in walk_no_nested(node):
                if isinstance(n, (ast.Assign, ast.AnnAssign)) and n.value is not None:
                    tgts = n.targets if isinstance(n, ast.Assign) else [n.target]
                    if any(set(_target_names(t)) & live for t in tgts):
                        exprs.append(n.value)
                elif isinstance(n, (ast.For, ast.AsyncFor)) and set(_target_names(n.target)) & live:
                    exprs.append(n.iter)
            src = next((k for e in exprs for k in ast.walk(e) if isinstance(k, ast.Call) and k is not c and _simple_call_name(k) in carriers), None)
            if src is None:
                continue
            roots = roots_cache.setdefault(id(node), _value_roots(node))
            returned = any(k is c for rt in roots for k in ast.walk(rt))
            if not (returned or id(node) in clo_ids):
                continue
            n_sites += 1
            sname = sorted(k[1] for k in sentinels)[0]
            t_m, t_fn, t_c, _k = tests[0]
            R.violation(r, m.rel, qn, norm(stmt_of(c))[:110], f"`{norm(c)[:80]}` deep-copies a value that comes from `{_simple_call_name(src)}(...)` ({carriers[_simple_call_name(src)]}) and hands the copy on: the `{sname} = object()` marker inside it ('this parameter has no default') is replaced by a fresh object, so the identity test `{norm(t_c)[:50]}` in {qualname_of(t_fn)} ({t_m.rel}) no longer recognises it - a default-less parameter is classified 'default' instead of 'required', its key is missing from inspection.required_context_keys, `missing` in `_run` stays empty when the key is not supplied, and the configuration is executed (nodes in front run, sink output and trace are written) instead of being rejected with EXIT_CONFIG_ERROR", c.lineno)
    for t_m, t_fn, t_c, key in tests:
        R.ok(r, t_m.rel, qualname_of(t_fn), f"{norm(t_c)[:70]}: the marker arrives uncopied", "", t_c.lineno)


# ---------------------------------------------------------------------------------------------
# D4 (round 5): a template the construction-time check accepts is one str.format can render
# ---------------------------------------------------------------------------------------------
def _regex_source(repo: Repo, mod, e: ast.AST) -> Optional[str]:
    """The pattern text of a compiled-regex expression: `re.compile("...")` or a module-level name bound to one."""
    if isinstance(e, ast.Call) and (call_name(e) or "").split(".")[-1] == "compile" and e.args and isinstance(e.args[0], ast.Constant) and isinstance(e.args[0].value, str):
        return e.args[0].value
    if isinstance(e, ast.Name):
        mc = _module_constant(repo, mod, e.id)
        if mc is not None:
            return _regex_source(repo, mc[0], mc[1].value)
    return None


def _regex_only_identifiers(pattern: str) -> Optional[str]:
    """None when every string the pattern can match is a plain identifier-like word (letters, digits, `_`; not
    starting with a digit); otherwise what else it admits.  Decided on the parsed pattern (alphabet of every atom
    + the set of possible first characters), not by trying strings."""
    try:
        import re._parser as sre  # Python >= 3.11
    except ImportError:  # pragma: no cover
        import sre_parse as sre  # type: ignore
    try:
        tree = sre.parse(pattern)
    except Exception as exc:
        return f"unparsable pattern ({exc})"
    word = set("abcdefghijklmnopqrstuvwxyzABCDEFGHIJKLMNOPQRSTUVWXYZ0123456789_")
    digits = set("0123456789")

    def atom_chars(op, av) -> Optional[Set[str]]:
        """Characters one single-character atom admits (None: something outside the identifier alphabet)."""
        name = str(op)
        if name == "LITERAL":
            return {chr(av)}
        if name == "IN":
            out: Set[str] = set()
            for o, a in av:
                on = str(o)
                if on == "NEGATE":
                    return None
                if on == "LITERAL":
                    out.add(chr(a))
                elif on == "RANGE":
                    if a[1] - a[0] > 512:
                        return None
                    out |= {chr(i) for i in range(a[0], a[1] + 1)}
                elif on == "CATEGORY":
                    cn = str(a)
                    if cn == "CATEGORY_DIGIT":
                        out |= digits
                    elif cn == "CATEGORY_WORD":
                        out |= word
                    else:
                        return None
                else:
                    return None
            return out
        return None

    bad: List[str] = []

    def walk(seq) -> Tuple[Set[str], bool]:
        """(possible first characters, can match the empty string) of a sequence; records foreign characters."""
        first: Set[str] = set()
        nullable = True
        for op, av in seq:
            name = str(op)
            if name == "AT":
                continue
            if name in ("MAX_REPEAT", "MIN_REPEAT", "POSSESSIVE_REPEAT"):
                lo, _hi, sub = av
                f, nl = walk(sub)
                nl = nl or lo == 0
            elif name == "SUBPATTERN":
                f, nl = walk(av[-1])
            elif name == "ATOMIC_GROUP":
                f, nl = walk(av)
            elif name == "BRANCH":
                f, nl = set(), False
                for alt in av[1]:
                    f2, nl2 = walk(alt)
                    f |= f2
                    nl = nl or nl2
            elif name == "CATEGORY":
                cn = str(av)
                if cn == "CATEGORY_DIGIT":
                    f, nl = set(digits), False
                elif cn == "CATEGORY_WORD":
                    f, nl = set(word), False
                else:
                    bad.append(cn.replace("CATEGORY_", "\\").lower())
                    f, nl = set(), False
            else:
                chars = atom_chars(op, av)
                if chars is None:
                    bad.append({"ANY": "any character (`.`)", "NOT_LITERAL": "a negated character", "IN": "a negated / open character class"}.get(name, name.lower()))
                    f, nl = set(), False
                else:
                    foreign = sorted(chars - word)
                    if foreign:
                        bad.append("the character" + ("s " if len(foreign) > 1 else " ") + " ".join(repr(ch) for ch in foreign[:6]))
                    f, nl = chars, False
            if nullable:
                first |= f
            nullable = nullable and nl
        return first, nullable

    first, nullable = walk(tree)
    if bad:
        return "it admits " + ", ".join(dict.fromkeys(bad))
    if first & digits:
        return "a name may start with a digit (str.format reads that as a positional index)"
    if nullable:
        return "it admits the empty name"
    return None


def template_placeholder_rule(repo: Repo, R: Report) -> None:
    """A `template:` node is validated when its class is built (inspection): the placeholder names taken from
    the template become its required context keys, and at run time the node renders `template.format(**values)`
    with exactly those names as keyword arguments.  `str.format` looks a field up as a *keyword* only when the
    field name is a plain identifier: `{a.b}` is attribute `b` of keyword `a`, `{a[0]}` an index, `{0}` a
    positional argument.  So the construction-time check may accept a placeholder only if it is such a plain
    name; otherwise validation (and --validate / --dry-run) accepts a configuration whose node can never
    render, the CLI runs it, the nodes in front execute and the run dies in the template node."""
    from ..engine import enclosing_function, qualname_of
    from ..normal import nfunc

    r = R.rule("C17-D4-template-placeholders-renderable", "what the construction-time check of a template accepts, the render step can resolve: every field name that a function takes from `Formatter().parse(<template>)` and hands on as a placeholder (a required context key of the node, later a keyword of `<template>.format(**values)`) has passed a raising test that admits plain identifier-like names only (a full match against a pattern whose alphabet is letters, digits and `_`, not starting with a digit, or str.isidentifier) - `.` / `[` in a field name mean attribute / index access to str.format, a leading digit a positional argument", 1)
    n_sites = 0
    for mod in repo.modules.values():
        if "Formatter" not in mod.source or ".parse(" not in mod.source:
            continue
        for qn, raw_node in list(mod.defs.items()):
            if not isinstance(raw_node, FuncNode):
                continue
            if not any(isinstance(c.func, ast.Attribute) and c.func.attr == "parse" for c in calls_in(raw_node)):
                continue
            try:
                node = nfunc(repo, mod.rel, qn, consts=False)  # a name test moved into a private helper is inlined
            except Exception:
                node = raw_node
            loops = []
            for lp in walk_no_nested(node):
                if not isinstance(lp, (ast.For, ast.AsyncFor)):
                    continue
                it = lp.iter
                if not (isinstance(it, ast.Call) and isinstance(it.func, ast.Attribute) and it.func.attr == "parse" and len(it.args) == 1):
                    continue
                recv = it.func.value
                recv_defs = [recv] if not isinstance(recv, ast.Name) else assigned_value(node, recv.id)
                if not any(isinstance(d, ast.Call) and (call_name(d) or "").split(".")[-1] == "Formatter" for d in recv_defs):
                    continue
                if isinstance(lp.target, (ast.Tuple, ast.List)) and len(lp.target.elts) == 4 and isinstance(lp.target.elts[1], ast.Name):
                    loops.append((lp, lp.target.elts[1].id, it.args[0]))
            if not loops:
                continue
            # is the template rendered with str.format at all?  (callers of this function, anywhere in the package: a
            # `.format(**...)` / `.format_map(...)` on the very expression whose placeholders were extracted)
            callers = [f for m2 in repo.modules.values() if raw_node.name in m2.source for _q, f in m2.defs.items() if isinstance(f, FuncNode) and f is not raw_node and any(_simple_call_name(c) == raw_node.name for c in calls_in(f))]
            rendered = False
            for f in callers + [node]:
                for c in calls_in(f, include_nested=True):
                    if isinstance(c.func, ast.Attribute) and c.func.attr in ("format", "format_map") and (any(k.arg is None for k in c.keywords) or c.func.attr == "format_map") and not isinstance(c.func.value, ast.Constant):
                        rendered = True
            repo.consulted.add(mod.rel)
            g = CFG(node, may_raise=lambda part: set())
            for lp, FN, tmpl in loops:
                heads = g.nodes_for(lp)
                if len(heads) != 1:
                    raise AnalysisError(f"{qn}: the loop over Formatter().parse(...) was not found in the control-flow graph")
                # statements that hand the field name on: container growth / yield with the name as (part of) the value
                sinks = []
                for n in walk_no_nested(lp):
                    if isinstance(n, ast.Call) and isinstance(n.func, ast.Attribute) and n.func.attr in ("append", "add", "extend", "insert", "setdefault") and any(FN in _loads(a) for a in n.args):
                        # `seen.add(name)` only feeds the duplicate test; a sink is what reaches the result
                        sinks.append(n)
                    elif isinstance(n, (ast.Yield,)) and n.value is not None and FN in _loads(n.value):
                        sinks.append(n)
                    elif isinstance(n, ast.Assign) and any(isinstance(t, ast.Subscript) for t in n.targets) and FN in (_loads(n.value) | {x for t in n.targets for x in _loads(t.slice) if isinstance(t, ast.Subscript)}):
                        sinks.append(n)
                ret_live = _run_flow(node, [x.value for x in walk_no_nested(node) if isinstance(x, ast.Return) and x.value is not None])
                sinks = [s for s in sinks if isinstance(s, ast.Yield) or (isinstance(s, ast.Call) and _root_name(s.func.value) in ret_live) or (isinstance(s, ast.Assign) and any(_root_name(t) in ret_live for t in s.targets))]
                if not sinks:
                    continue
                why_not: List[str] = []

                def safe(e: ast.AST) -> Optional[bool]:
                    if isinstance(e, ast.Call) and isinstance(e.func, ast.Attribute):
                        a = e.func.attr
                        if a == "isidentifier" and dotted_name(e.func.value) == FN and not e.args:
                            return True
                        if a in ("fullmatch", "match") and e.args:
                            # <compiled>.fullmatch(name) / re.fullmatch(<pattern>, name)
                            if dotted_name(e.args[-1]) != FN:
                                return None
                            if len(e.args) == 2 and isinstance(e.args[0], ast.Constant) and isinstance(e.args[0].value, str):
                                src = e.args[0].value
                            elif len(e.args) == 2:
                                src = _regex_source(repo, mod, e.args[0])
                            else:
                                src = _regex_source(repo, mod, e.func.value)
                            if src is None:
                                return None
                            if a == "match" and not src.rstrip().endswith(("$", "\\Z")):
                                why_not.append(f"`{norm(e)[:60]}` matches a prefix only")
                                return None
                            problem = _regex_only_identifiers(src)
                            if problem is None:
                                return True
                            why_not.append(f"the pattern {src!r} of `{norm(e)[:50]}` is wider than a plain name: {problem}")
                            return None
                    if isinstance(e, ast.Compare) and len(e.ops) == 1 and isinstance(e.ops[0], (ast.IsNot, ast.NotEq)) and isinstance(e.comparators[0], ast.Constant) and e.comparators[0].value is None:
                        return safe(e.left)  # `<pattern>.fullmatch(name) is not None`
                    if isinstance(e, ast.Compare) and len(e.ops) == 1 and isinstance(e.ops[0], (ast.Is, ast.Eq)) and isinstance(e.comparators[0], ast.Constant) and e.comparators[0].value is None:
                        v = safe(e.left)
                        return None if v is None else (not v)
                    return None

                blocked_edges = {(n.id, lab) for n in g.nodes if n.kind in ("if", "while") and n.part is not None for lab in edges_guaranteeing(n.part, safe)}
                body_entry = [t for t, lab in g.succ[heads[0]] if lab == "T"]
                seen = g.reach(body_entry, blocked_edges=blocked_edges, blocked={heads[0]})
                for s in sinks:
                    st = stmt_of(s)
                    ids = g.nodes_for(st)
                    hit = [i for i in ids if i in seen]
                    n_sites += 1
                    if not rendered:
                        R.ok(r, mod.rel, qn, norm(st)[:100] + " (not rendered with str.format)", "", st.lineno)
                        continue
                    detail = ("; " + "; ".join(dict.fromkeys(why_not))) if why_not else ""
                    R.check(not hit, r, mod.rel, qn, norm(st)[:100], (f"the field name `{FN}` taken from `{norm(lp.iter)[:50]}` is handed on as a placeholder without having passed a test that admits plain identifier-like names only{detail}: the construction-time check (inspection / validate_pipeline, --validate, --dry-run) then accepts a template such as 'run_{{run.id}}.txt', `run.id` becomes an ordinary required context key that --context / the run space can supply, the missing-key gate passes and the CLI executes the pipeline - but `{norm(tmpl)[:30]}.format(**values)` reads `run.id` as attribute `id` of keyword `run` and raises, after the nodes in front of the template node already ran (sink output, trace file; exit 4 instead of the configuration error exit 3)" if hit else ""), st.lineno, g.path_to(seen, hit[0]) if hit else None)
    if n_sites == 0:
        R.ok(r, "semantiva", "<package>", "(no function extracts placeholders with string.Formatter().parse)", "", 0)


# ---------------------------------------------------------------------------------------------
# D4 (round 6): what runs is what was inspected; inspection sees every parameter run time resolves
# ---------------------------------------------------------------------------------------------
def _canon_local(fn: ast.AST, e: ast.AST, depth: int = 0) -> ast.AST:
    """*e* with a local that only names another expression (bound exactly once in *fn*, by a plain assignment)
    replaced by that expression: `nodes = cfg.nodes; f(nodes)` is `f(cfg.nodes)`."""
    while isinstance(e, ast.Name) and depth < 4:
        vals = assigned_value(fn, e.id)
        n_binds = sum(1 for x in walk_no_nested(fn) if isinstance(x, ast.Name) and x.id == e.id and isinstance(x.ctx, (ast.Store, ast.Del)))
        if len(vals) != 1 or n_binds != 1 or not isinstance(vals[0], (ast.Name, ast.Attribute, ast.Subscript)):
            break
        e, depth = vals[0], depth + 1
    return e


def _access_chain_has(e: Optional[ast.AST], xdump: str) -> bool:
    """*e* is the expression dumped as *xdump* or an access chain through it (`X[k]`, `X.attr`, `X.get(k)` ...)."""
    while e is not None:
        if ast.dump(e) == xdump:
            return True
        if isinstance(e, (ast.Subscript, ast.Attribute, ast.Starred)):
            e = e.value
        elif isinstance(e, ast.Call) and isinstance(e.func, ast.Attribute) and e.func.attr in ("get", "setdefault") and e.args:
            e = e.func.value
        else:
            return False
    return False


def inspected_is_executed_rule(repo: Repo, R: Report, fn: ast.AST, g: CFG, PCFG: str) -> None:
    """Every gate of `_run` that looks at the nodes (inspection, validation, the required-key pre-flight) decides on
    the object handed to `build_pipeline_inspection`; the run executes the object handed to the constructor of what
    `.process(...)` is called on.  The gates say something about the run only if (a) `_run` hands the same object to
    both and does not rebind / modify it in between, (b) building the nodes for inspection leaves the caller's node
    configuration as it was and the run side hands the declared parameters on unchanged (C02's value-flow rules
    D7 / D8, re-applied: the interface between inspection/builder.py, pipeline.py and the node factory), and
    (c) the parameter names inspection classifies are the ones the node resolves at run time, for every processor
    family incl. generated adapter classes (C02-D6 re-applied: the interface between the `parameters` metadata the
    builder reads and get_processing_parameter_names the node reads)."""
    r = R.rule("C17-D4-executed-config-is-inspected-config", "the object _run executes (first argument of the constructor of what `.process(...)` is called on) is the very expression build_pipeline_inspection received, the local it is taken from is not rebound between the two, and no statement of _run reachable after the inspection stores into it, deletes from it or calls a mutating container method on it: what was validated and checked for missing keys is what runs", 2)
    insp_nodes = [n for n in g.nodes if n.kind == "stmt" and n.ast is not None and any(call_attr(c) == "build_pipeline_inspection" and c.args for c in calls_in(n.ast))]
    if not insp_nodes:
        raise AnalysisError("_run: build_pipeline_inspection(<nodes>) not found in the control-flow graph")
    insp_node = insp_nodes[0]
    X = _canon_local(fn, next(c for c in calls_in(insp_node.ast) if call_attr(c) == "build_pipeline_inspection" and c.args).args[0])
    xdump = ast.dump(X)
    root = _container_root(X)
    procs = [(n, c) for n in g.nodes if n.kind == "stmt" and n.ast is not None for c in calls_in(n.ast) if isinstance(c.func, ast.Attribute) and c.func.attr == "process"]
    if not procs or not isinstance(procs[0][1].func.value, ast.Name):
        raise AnalysisError("_run: receiver of .process(...) is not a local")
    pn, pc = procs[0]
    P = pc.func.value.id
    ctor_defs = [d for d in reaching_defs(g, P, pn.id)]
    if not ctor_defs:
        raise AnalysisError(f"_run: no definition of `{P}` reaches `{norm(pn.ast)[:60]}`")
    for d in ctor_defs:
        v = getattr(d.ast, "value", None)
        given = None
        if isinstance(v, ast.Call):
            given = v.args[0] if v.args else next((k.value for k in v.keywords if k.arg in ("pipeline_configuration", "nodes", "configuration")), None)
        same = given is not None and ast.dump(_canon_local(fn, given)) == xdump
        ok = same
        what = ""
        if same and root is not None:
            a, b = {x.id for x in reaching_defs(g, root, insp_node.id)}, {x.id for x in reaching_defs(g, root, d.id)}
            if a != b:
                ok, what = False, f"`{root}` is rebound between build_pipeline_inspection({norm(X)}) and `{norm(d.ast)[:60]}`: the pipeline is built from another configuration object than the one that was inspected, validated and checked for missing context keys"
        elif not same:
            what = f"`{norm(d.ast)[:80]}` builds the pipeline that runs from `{norm(given)[:50] if given is not None else '?'}`, not from `{norm(X)}`, the object build_pipeline_inspection / validate_pipeline / the missing-key pre-flight looked at: a configuration the gates would reject (or whose required context keys differ) is executed"
        R.check(ok, r, CLI, "_run", f"{P} = <constructor>({norm(X)}, ...)", what, getattr(d.ast, "lineno", fn.lineno))
    # no modification of the inspected object after the inspection
    after = set(g.reach([t for t, lab in g.succ[insp_node.id] if lab not in (EXC, BASE)]))
    aliases = {n.targets[0].id for n in walk_no_nested(fn) if isinstance(n, ast.Assign) and len(n.targets) == 1 and isinstance(n.targets[0], ast.Name) and _access_chain_has(n.value, xdump)}
    bad: List[Tuple[ast.AST, str]] = []

    def touches(e: Optional[ast.AST]) -> bool:
        return _access_chain_has(e, xdump) or (_container_root(e) in aliases if e is not None else False)

    for n in walk_no_nested(fn):
        if isinstance(n, (ast.Assign, ast.AugAssign, ast.AnnAssign, ast.Delete)):
            tgts = n.targets if isinstance(n, (ast.Assign, ast.Delete)) else [n.target]
            for t in tgts:
                for x in ([t] if not isinstance(t, (ast.Tuple, ast.List)) else t.elts):
                    if isinstance(x, (ast.Subscript, ast.Attribute)) and (touches(x.value) or ast.dump(x).replace("Store()", "Load()").replace("Del()", "Load()") == xdump):
                        bad.append((n, f"`{norm(n)[:70]}`"))
        elif isinstance(n, ast.Call) and isinstance(n.func, ast.Attribute) and n.func.attr in _CONTAINER_MUTATORS and touches(n.func.value):
            bad.append((n, f"`{norm(n)[:70]}`"))
    late = []
    for node, what in bad:
        st = node if isinstance(node, ast.stmt) else stmt_of(node)
        if any(i in after for i in g.nodes_for(st)):
            late.append((st, what))
    for st, what in late:
        R.violation(r, CLI, "_run", norm(st)[:100], f"{what} modifies `{norm(X)}` after build_pipeline_inspection has looked at it: validation and the missing-key pre-flight describe the node list as it was, the pipeline that runs is built from the modified one", getattr(st, "lineno", fn.lineno))
    if not late:
        R.ok(r, CLI, "_run", f"no store into `{norm(X)}` reachable after the inspection", "", insp_node.line)
    # (b), (c): the module-boundary conditions, decided by C02's rules
    from . import c02_rest

    R.rule_prefix = "C17-D4/"
    try:
        c02_rest._same_node_config(repo, R)
        c02_rest._parameter_universe(repo, R)
    finally:
        R.rule_prefix = ""


# ---------------------------------------------------------------------------------------------
# D1 (round 6): the expansion gate rejects two columns re-keyed onto one name
# ---------------------------------------------------------------------------------------------
_EMPTY_MAP_CALLS = ("dict", "OrderedDict", "defaultdict")


def _is_empty_map(v: Optional[ast.AST]) -> bool:
    if isinstance(v, ast.Dict) and not v.keys:
        return True
    return isinstance(v, ast.Call) and (call_attr(v) or "") in _EMPTY_MAP_CALLS and not v.keywords and (not v.args or (call_attr(v) == "defaultdict" and len(v.args) == 1))


def _loop_key(lp: ast.AST) -> Tuple[Optional[str], Optional[ast.AST]]:
    """(name bound to the entry's key, the mapping walked) of `for k, v in M.items()` / `for k in M` / `for k in M.keys()`
    / `for k in sorted(M)`; also for a comprehension generator."""
    it, tgt = lp.iter, lp.target
    while isinstance(it, ast.Call) and isinstance(it.func, ast.Name) and it.func.id in ("sorted", "list", "tuple", "iter") and it.args:
        it = it.args[0]
    if isinstance(it, ast.Call) and isinstance(it.func, ast.Attribute) and it.func.attr == "items" and not it.args:
        if isinstance(tgt, ast.Tuple) and len(tgt.elts) == 2 and isinstance(tgt.elts[0], ast.Name):
            return tgt.elts[0].id, it.func.value
        return None, None
    if isinstance(it, ast.Call) and isinstance(it.func, ast.Attribute) and it.func.attr == "keys" and not it.args:
        it = it.func.value
    if isinstance(tgt, ast.Name) and isinstance(it, (ast.Name, ast.Attribute, ast.Subscript)):
        return tgt.id, it
    return None, None


def _lookups_keyed_by(e: ast.AST, key: str, not_in: Set[str]) -> List[ast.AST]:
    """Sub-expressions of *e* that look the name *key* up in a mapping other than those dumped in *not_in*:
    `M.get(key, ..)`, `M[key]`, `M.pop(key, ..)`."""
    out = []
    for x in ast.walk(e):
        if isinstance(x, ast.Call) and isinstance(x.func, ast.Attribute) and x.func.attr in ("get", "pop", "setdefault") and x.args and isinstance(x.args[0], ast.Name) and x.args[0].id == key:
            if ast.dump(x.func.value) not in not_in:
                out.append(x)
        elif isinstance(x, ast.Subscript) and isinstance(x.ctx, ast.Load) and isinstance(x.slice, ast.Name) and x.slice.id == key and ast.dump(x.value) not in not_in:
            out.append(x)
    return out


def rekeying_collision_rule(repo: Repo, R: Report) -> None:
    """A source block may rename columns (`rename: {a: b}`).  The entries of one mapping have distinct keys, their
    images under a user-supplied table need not: two columns that end under one name make the run space invalid
    (documented as a configuration error; `_run` maps it to EXIT_CONFIG_ERROR, nothing runs).  `_run` can only
    reject what `expand_run_space` *raises* for, so wherever the expansion re-files the entries of a mapping into a
    fresh one under a key looked up in another mapping, the store must be reachable only over the edge of a test
    that established `new key not in <what has been filed so far>` and whose other side raises - whatever the order
    of the columns and whether or not the colliding column is itself renamed.  A test that is conjoined with another
    condition lets the later column overwrite the earlier one silently; the plan is expanded and executed."""
    from ..engine import qualname_of
    from ..normal import nfunc

    r = R.rule("C17-D1-rekeyed-entries-collision-rejected", "the expansion gate rejects a run space in which two columns end under one name instead of letting one overwrite the other: wherever expand_run_space (and what it calls) files the entries of a mapping into a fresh mapping under a key looked up in another mapping (rename table), every such store is reachable only over a branch edge that guarantees `new key not in <the mapping being filled / the record of keys filed so far>` and whose other side ends in a raise (or, for a comprehension, a raising comparison of the result's size with the source's follows)", 1)
    top = repo.func(RUN_SPACE, "expand_run_space")
    n_sites = 0
    for _fid, (mod, f, _path) in sorted(_closure(repo, [(repo.module(RUN_SPACE), top)]).items(), key=lambda kv: (kv[1][0].rel, getattr(kv[1][1], "lineno", 0))):
        if not isinstance(f, FuncNode):
            continue
        qn = qualname_of(f)
        try:
            nf = nfunc(repo, mod.rel, qn, consts=False)
        except Exception:
            nf = f
        fresh = {n.targets[0].id for n in ast.walk(nf) if isinstance(n, ast.Assign) and len(n.targets) == 1 and isinstance(n.targets[0], ast.Name) and _is_empty_map(n.value)}
        fresh |= {n.target.id for n in ast.walk(nf) if isinstance(n, ast.AnnAssign) and isinstance(n.target, ast.Name) and _is_empty_map(n.value)}
        g: Optional[CFG] = None
        for lp in [n for n in walk_no_nested(nf) if isinstance(n, ast.For)]:
            K, M = _loop_key(lp)
            if K is None:
                continue
            body_nodes = list({id(x): x for st in lp.body for x in [st, *walk_no_nested(st)]}.values())
            single: Dict[str, List[ast.AST]] = {}
            for x in body_nodes:
                if isinstance(x, ast.Assign) and len(x.targets) == 1 and isinstance(x.targets[0], ast.Name):
                    single.setdefault(x.targets[0].id, []).append(x.value)

            def resolved(e: ast.AST) -> ast.AST:
                if isinstance(e, ast.Name) and len(single.get(e.id, [])) == 1:
                    return single[e.id][0]
                return e

            for st in body_nodes:
                if not (isinstance(st, ast.Assign) and len(st.targets) == 1 and isinstance(st.targets[0], ast.Subscript) and isinstance(st.targets[0].value, ast.Name)):
                    continue
                D = st.targets[0].value.id
                T = st.targets[0].slice
                if D not in fresh:
                    continue
                looked = _lookups_keyed_by(resolved(T), K, {ast.dump(M), ast.dump(ast.Name(id=D, ctx=ast.Load()))})
                if not looked:
                    continue
                n_sites += 1
                if g is None:
                    g = CFG(nf)
                heads = g.nodes_for(lp)
                ids = g.nodes_for(st)
                if len(heads) != 1 or not ids:
                    raise AnalysisError(f"{qn}: `{norm(st)[:60]}` not found in the control-flow graph")
                tdump = ast.dump(resolved(T))
                # what records the keys filed so far: the mapping itself, or a collection that receives the same key in the loop
                records = {D}
                for x in body_nodes:
                    if isinstance(x, ast.Call) and isinstance(x.func, ast.Attribute) and x.func.attr in ("add", "append") and isinstance(x.func.value, ast.Name) and len(x.args) == 1 and ast.dump(resolved(x.args[0])) == tdump:
                        records.add(x.func.value.id)
                    if isinstance(x, ast.Assign) and len(x.targets) == 1 and isinstance(x.targets[0], ast.Subscript) and isinstance(x.targets[0].value, ast.Name) and ast.dump(resolved(x.targets[0].slice)) == tdump:
                        records.add(x.targets[0].value.id)

                def is_record(e: ast.AST) -> bool:
                    if isinstance(e, ast.Call) and isinstance(e.func, ast.Attribute) and e.func.attr == "keys" and not e.args:
                        e = e.func.value
                    if isinstance(e, ast.Call) and isinstance(e.func, ast.Name) and e.func.id in ("set", "list", "tuple", "frozenset") and len(e.args) == 1:
                        e = e.args[0]
                    return isinstance(e, ast.Name) and e.id in records

                def free(e: ast.AST) -> Optional[bool]:
                    # the atom: "the new key is not among the keys filed so far"
                    if isinstance(e, ast.Compare) and len(e.ops) == 1 and isinstance(e.ops[0], (ast.In, ast.NotIn)) and ast.dump(resolved(e.left)) == tdump and is_record(e.comparators[0]):
                        return isinstance(e.ops[0], ast.NotIn)
                    return None

                head = heads[0]
                blocked_edges: Set[Tuple[int, str]] = set()
                weak: List[str] = []
                for n in g.nodes:
                    if n.kind not in ("if", "while") or n.part is None:
                        continue
                    labs = edges_guaranteeing(n.part, free)
                    mentions = any(free(x) is not None for x in ast.walk(n.part))
                    if not labs:
                        if mentions:
                            weak.append(f"`{norm(n.part)[:70]}` (line {n.line}) tests it only together with another condition: on the edge that leads to the store the key may already be present")
                        continue
                    for lab in labs:
                        other = [t for t, l in g.succ[n.id] if l in ("T", "F") and l != lab]
                        seen_o = g.reach(other)
                        rejecting = bool(other) and head not in seen_o and g.ret_exit not in seen_o and not any(i in seen_o for i in ids) and (g.exc_exit in seen_o or any(m.kind == "stmt" and isinstance(m.ast, ast.Raise) and m.id in seen_o for m in g.nodes))
                        if rejecting:
                            blocked_edges.add((n.id, lab))
                        else:
                            weak.append(f"`{norm(n.part)[:70]}` (line {n.line}) does not end in a raise when the key is already present")
                body_entry = [t for t, lab in g.succ[head] if lab == "T"]
                seen = g.reach(body_entry, blocked_edges=blocked_edges, blocked={head})
                hit = [i for i in ids if i in seen]
                detail = ("; " + "; ".join(dict.fromkeys(weak))) if weak else ""
                R.check(not hit, r, mod.rel, qn, norm(st)[:100], (f"`{norm(st)[:60]}` files each entry of `{norm(M)[:40]}` under a key looked up in `{norm(looked[0].func.value if isinstance(looked[0], ast.Call) else looked[0].value)[:40]}` and can be reached without a raising test having established that this key is not among the keys filed so far{detail}: two columns that end under one name (a renamed column and a column that already carries that name, in either order) are no longer a configuration error - the later one silently overwrites the earlier one, expand_run_space succeeds, `_run`'s `return EXIT_CONFIG_ERROR` for an invalid run space never fires and every run of the invalid plan is executed (sink output, trace file, exit 0); --run-space-dry-run prints the plan as valid" if hit else ""), st.lineno, g.path_to(seen, hit[0]) if hit else None)
        # comprehension form: {M2.get(k, k): v for k, v in M.items()}
        for dc in [n for n in ast.walk(nf) if isinstance(n, ast.DictComp) and len(n.generators) == 1]:
            K, M = _loop_key(dc.generators[0])
            if K is None or not _lookups_keyed_by(dc.key, K, {ast.dump(M)}):
                continue
            n_sites += 1
            st = stmt_of(dc)
            res = st.targets[0].id if isinstance(st, ast.Assign) and len(st.targets) == 1 and isinstance(st.targets[0], ast.Name) and st.value is dc else None
            ok = False
            if res is not None:
                gg = CFG(nf)
                for n in gg.nodes:
                    if n.kind != "if" or n.part is None or not isinstance(n.part, ast.Compare) or len(n.part.ops) != 1 or not isinstance(n.part.ops[0], (ast.NotEq, ast.Lt, ast.Gt)):
                        continue
                    sides = [n.part.left, n.part.comparators[0]]
                    lens = [s.args[0] for s in sides if isinstance(s, ast.Call) and isinstance(s.func, ast.Name) and s.func.id == "len" and len(s.args) == 1]
                    if len(lens) == 2 and any(isinstance(x, ast.Name) and x.id == res for x in lens) and any(ast.dump(x) == ast.dump(M) for x in lens):
                        tb = gg.reach([t for t, l in gg.succ[n.id] if l == "T"])
                        if gg.ret_exit not in tb and any(m.kind == "stmt" and isinstance(m.ast, ast.Raise) and m.id in tb for m in gg.nodes) and all(gg.dominated_by_node(n.id, i) for i in gg.nodes_for(st)):
                            ok = True
            R.check(ok, r, mod.rel, qn, norm(st)[:100], f"`{norm(dc)[:70]}` re-keys the entries of `{norm(M)[:40]}` through a lookup table and nothing raises when two of them end under one name (no raising comparison of len(result) with len(source) follows): the later column silently overwrites the earlier one and the invalid run space is expanded and executed", getattr(st, "lineno", 0))
    if n_sites == 0:
        raise AnalysisError("expand_run_space: no place where source columns are re-filed under renamed keys was recognised (rename handling moved out of the expansion?)")


# ---------------------------------------------------------------------------------------------
# D4 (round 7): the classifier behind the missing-key gate and the run-time resolver are one decision
# ---------------------------------------------------------------------------------------------
_CHANNEL_PARAMS = {"config": "processor_config", "context": "context", "default": "processor_cls"}


def _param_names(f: ast.AST) -> Set[str]:
    a = f.args
    return {x.arg for x in list(a.posonlyargs) + list(a.args) + list(a.kwonlyargs)}


def gate_classifier_rule(repo: Repo, R: Report) -> None:
    """`missing = required_external - supplied` is only as good as `required_context_keys`, which the builder fills from
    the per-parameter classifier (config / context / default / required, a first-match chain over the node's
    configuration, the keys produced so far and the declared default).  At run time a node obtains the same parameter
    from the resolver, another first-match chain over (configuration, context, default, KeyError).  The gate stands
    for the run only if the two are ONE decision: position by position the same channel, consulted under the same
    condition (the plain presence test), with 'required' where the resolver raises.  If the resolver goes to the
    context in a case the classifier files under 'config' or 'default' (a configured null, a falsy value ...), the key
    is not in required_context_keys, `missing` is empty without it being supplied, the CLI starts the run, the nodes
    in front execute (sink output, trace file) and the node dies with the resolver's KeyError - exit 4 instead of the
    configuration-error exit with nothing executed.  Both functions are found by their role: the classifier is the
    function in the call graph of build_pipeline_inspection whose parameters name the node configuration and the
    key-origin state, resolvers are the functions of the package whose parameters name the node configuration and
    the live context next to the parameter's name."""
    from ..engine import qualname_of
    from ._chains import extract_chain

    r = R.rule("C17-D4-gate-classifier-agrees-with-resolver", "the parameter classifier the required-key analysis uses (reachable from build_pipeline_inspection; parameters name, processor_config, key_origin) and every run-time resolver (parameters name, processor_config, context) are the same first-match decision: position by position the same channel under the plain presence test (name in processor_config / name in context resp. name in key_origin and not deleted / a declared default), the classifier answering 'required' exactly where the resolver raises - so a parameter the node will look up in the context at run time is one the missing-key gate asked for", 1)
    bmod = repo.module(BUILDER)
    clo = _closure(repo, [(bmod, repo.func(BUILDER, "build_pipeline_inspection"))])
    classifiers = [(m, f) for _i, (m, f, _p) in clo.items() if isinstance(f, FuncNode) and {"name", "processor_config", "key_origin"} <= _param_names(f)]
    resolvers = [(m, f) for m, _qn, f in repo.all_functions() if {"name", "processor_config", "context"} <= _param_names(f) and "key_origin" not in _param_names(f)]
    # a resolver counts when it decides something: it reads both channels
    resolvers = [(m, f) for m, f in resolvers if {"processor_config", "context"} <= {x.id for x in ast.walk(f) if isinstance(x, ast.Name) and isinstance(x.ctx, ast.Load)}]
    # ... in a test of its own (a wrapper that only hands the channels on to the resolver decides nothing)
    def _decides(f: ast.AST) -> bool:
        tests = [n.test for n in walk_no_nested(f) if isinstance(n, (ast.If, ast.IfExp, ast.While))] + [n for n in walk_no_nested(f) if isinstance(n, (ast.Compare, ast.BoolOp))]
        return any(isinstance(x, ast.Name) and x.id in ("processor_config", "context") for t in tests for x in ast.walk(t))
    resolvers = [(m, f) for m, f in resolvers if _decides(f)]
    if not classifiers:
        raise AnalysisError("build_pipeline_inspection: no parameter classifier (name, processor_config, key_origin) in its call graph")
    if not resolvers:
        raise AnalysisError("no run-time parameter resolver (name, processor_config, context) found in the package")
    classifiers.sort(key=lambda t: (t[0].rel, t[1].lineno))
    resolvers.sort(key=lambda t: (t[0].rel, t[1].lineno))
    result_of = {"config": "config", "context": "context", "default": "default"}

    def first_reader(f: ast.AST, label: str) -> int:
        chan = _CHANNEL_PARAMS.get(label.rstrip("?~").split(":")[0])
        for st in walk_no_nested(f):
            if isinstance(st, ast.stmt) and st is not f and chan and chan in {x.id for x in ast.walk(st) if isinstance(x, ast.Name)}:
                return st.lineno
        return f.lineno

    for cm, cf in classifiers:
        ci = extract_chain(cf)
        repo.consulted.add(cm.rel)
        for rm, rf in resolvers:
            cr = extract_chain(rf)
            repo.consulted.add(rm.rel)
            cq, rq = qualname_of(cf), qualname_of(rf)
            what, line = "", rf.lineno
            for i in range(max(len(ci), len(cr))):
                a = ci[i] if i < len(ci) else None
                b = cr[i] if i < len(cr) else None
                if a is None or b is None:
                    what = f"the classifier {cq} decides in {len(ci)} steps {ci}, the resolver {rq} in {len(cr)} {cr}: one of them consults a channel the other does not know"
                    break
                plain = a[0] in ("config", "context", "default", "always") and b[0] in ("config", "context", "default", "always")
                if a[0] != b[0] or not plain:
                    odd = b if (b[0] not in ("config", "context", "default", "always") or a[0] in ("config", "context", "default", "always")) else a
                    whose, of = (rq, rf) if odd is b else (cq, cf)
                    line = first_reader(of, odd[0])
                    what = f"step {i + 1}: the classifier {cq} decides on `{a[0]}` (-> '{a[1]}'), the resolver {rq} on `{b[0]}` (-> {b[1]}); `{odd[0]}` in {whose} is not the plain presence test of that channel ('?': the channel is read, but under another condition - the value, its truthiness, `.get(..) is not None`): for a parameter where the two tests differ (e.g. configured as null) the classifier says '{a[1]}' - not required from the context - while the resolver goes on to the next channel and looks the name up in the context; the key is absent from inspection.required_context_keys, `missing` in cli._run stays empty although nobody supplies it, the run starts, the nodes in front execute (sink output, trace file) and the node fails with the resolver's error (exit 4) instead of the pre-flight rejection (exit 3, nothing executed)"
                    break
                want = "raise" if a[1] == "required" else result_of.get(a[1], a[1])
                got = "raise" if b[1].startswith("raise:") else b[1]
                if want != got:
                    line = first_reader(rf, b[0])
                    what = f"step {i + 1} (`{a[0]}`): the classifier {cq} answers '{a[1]}', the resolver {rq} yields {b[1]}: " + ("a parameter the resolver cannot obtain is not reported as required, so the missing-key gate does not ask for it" if got == "raise" else "the value the node receives does not come from the channel the gate accounted for")
                    break
            R.check(not what, r, rm.rel, f"{cq} ~ {rq}", f"first-match chains agree: {[x[0] for x in ci]} / {[x[0] for x in cr]}", what, line)


# ---------------------------------------------------------------------------------------------
# D1 (round 7): the expansion gate rejects a key that two blocks supply
# ---------------------------------------------------------------------------------------------
_SET_WRAPPERS = {"set", "frozenset", "list", "tuple", "sorted", "bool", "len"}


def _empty_set_value(v: Optional[ast.AST]) -> bool:
    return isinstance(v, ast.Call) and isinstance(v.func, ast.Name) and v.func.id in ("set", "frozenset") and not v.args and not v.keywords


def _over_blocks(fn: ast.AST, lp: ast.AST) -> bool:
    """`for .. in <spec>.blocks` (also through enumerate / list / a local naming it): `blocks` is a field of the
    run-space specification dataclass, part of the configuration schema."""
    def reads_blocks(e: ast.AST, depth: int = 0) -> bool:
        if any(isinstance(x, ast.Attribute) and x.attr == "blocks" for x in ast.walk(e)):
            return True
        if depth > 2:
            return False
        return any(reads_blocks(v, depth + 1) for x in ast.walk(e) if isinstance(x, ast.Name) for v in assigned_value(fn, x.id))
    return isinstance(lp, ast.For) and reads_blocks(lp.iter)


def cross_block_keys_rule(repo: Repo, R: Report) -> None:
    """The runs of the blocks of a run space are merged by overwriting (`merged.update(part)`): a key that two blocks
    supply would silently take the later block's values.  Such a run space is invalid (configuration error, exit 3,
    nothing executed) - and `_run` can only reject what `expand_run_space` raises for.  So in the loop that collects
    the per-block run lists, the record of keys seen so far may only grow by key sets that a raising overlap test has
    compared with it: every mapping whose keys are remembered at the end of an iteration (inline context entries and
    the columns loaded from the block's source) has to be covered by the test, *as it is when it is remembered* -
    a test that runs before the source is loaded, or that looks at the inline keys only, lets a source column
    re-define a key of an earlier block: the expansion succeeds and every run executes with the later value."""
    from ..engine import mutation_sites, qualname_of
    from ..normal import nfunc

    r = R.rule("C17-D1-cross-block-keys-rejected", "the expansion gate rejects a run space in which two blocks supply the same key instead of letting the later block overwrite the earlier one: in the loop of expand_run_space that collects the per-block run lists which are merged afterwards, a record of the keys seen so far exists, and every key set it grows by (`seen.update(K)`) is reachable only over the passing edge of a raising overlap test (`seen & K'`, intersection, isdisjoint, `any(k in seen ...)`, a loop of membership tests) whose K' covers every mapping K takes its keys from, in the state it has when it is remembered (same reaching definitions, no store in between)", 1)
    top = repo.func(RUN_SPACE, "expand_run_space")

    def analyse(nf: ast.AST, qn: str) -> List[tuple]:
        results: List[tuple] = []
        g = CFG(nf)
        raise_ids = {n.id for n in g.nodes if n.kind == "stmt" and isinstance(n.ast, ast.Raise)}

        def single_def(name: str, at: int):
            defs = reaching_defs(g, name, at)
            if len(defs) == 1 and defs[0].kind == "stmt" and isinstance(defs[0].ast, (ast.Assign, ast.AnnAssign)):
                a = defs[0].ast
                tgts = a.targets if isinstance(a, ast.Assign) else [a.target]
                if len(tgts) == 1 and isinstance(tgts[0], ast.Name) and a.value is not None:
                    return defs[0]
            return None

        mutated: Dict[str, bool] = {}

        def is_mutated(name: str) -> bool:
            if name not in mutated:
                mutated[name] = bool(mutation_sites(nf, {name}))
            return mutated[name]

        def leaves_at(e: Optional[ast.AST], at: int, depth: int = 0) -> Optional[Set[Tuple[str, frozenset]]]:
            """The mappings *e* takes its keys from, each with the definitions of it that reach node *at*."""
            rs = _key_roots(e)
            if rs is None:
                return None
            out: Set[Tuple[str, frozenset]] = set()
            for x in rs:
                if not isinstance(x, ast.Name):
                    out.add((ast.unparse(x), frozenset()))
                    continue
                d = single_def(x.id, at) if depth < 6 and not is_mutated(x.id) else None
                sub = leaves_at(d.ast.value, d.id, depth + 1) if d is not None and not isinstance(d.ast.value, (ast.DictComp,)) else None
                if sub is not None and d is not None and (_key_roots(d.ast.value) or isinstance(d.ast.value, (ast.Dict, ast.Set, ast.Call))):
                    out |= sub
                else:
                    out.add((x.id, frozenset(n.id for n in reaching_defs(g, x.id, at))))
            return out

        n_loops = 0
        for lp in [n for n in walk_no_nested(nf) if isinstance(n, ast.For)]:
            heads = g.nodes_for(lp)
            if len(heads) != 1:
                continue
            head = heads[0]
            inside = {id(x) for x in ast.walk(lp)}
            if not _over_blocks(nf, lp):
                continue
            n_loops += 1
            body_entry = [t for t, lab in g.succ[head] if lab == "T"]
            # records of keys seen so far: empty sets created outside the loop that grow inside it
            grows: List[Tuple[str, ast.AST, ast.AST]] = []  # (record, statement, key-set expression)
            for n in walk_no_nested(lp):
                S, E = None, None
                if isinstance(n, ast.Call) and isinstance(n.func, ast.Attribute) and n.func.attr in ("update", "add") and isinstance(n.func.value, ast.Name) and len(n.args) == 1:
                    S, E = n.func.value.id, n.args[0]
                    if n.func.attr == "add":
                        inner = next((a for a in _anc(n) if isinstance(a, ast.For)), None)
                        if inner is None or inner is lp or not (isinstance(inner.target, ast.Name) and isinstance(E, ast.Name) and E.id == inner.target.id):
                            continue
                        E = inner.iter
                        n = inner
                elif isinstance(n, ast.AugAssign) and isinstance(n.op, ast.BitOr) and isinstance(n.target, ast.Name):
                    S, E = n.target.id, n.value
                elif isinstance(n, ast.Assign) and len(n.targets) == 1 and isinstance(n.targets[0], ast.Name) and isinstance(n.value, ast.BinOp) and isinstance(n.value.op, ast.BitOr) and isinstance(n.value.left, ast.Name) and n.value.left.id == n.targets[0].id:
                    S, E = n.targets[0].id, n.value.right
                elif isinstance(n, ast.Assign) and len(n.targets) == 1 and isinstance(n.targets[0], ast.Name) and isinstance(n.value, ast.Call) and isinstance(n.value.func, ast.Attribute) and n.value.func.attr == "union" and isinstance(n.value.func.value, ast.Name) and n.value.func.value.id == n.targets[0].id and len(n.value.args) == 1:
                    S, E = n.targets[0].id, n.value.args[0]
                if S is None:
                    continue
                outer_defs = [a for a in walk_no_nested(nf) if id(a) not in inside and isinstance(a, (ast.Assign, ast.AnnAssign)) and any(isinstance(t, ast.Name) and t.id == S for t in (a.targets if isinstance(a, ast.Assign) else [a.target]))]
                if outer_defs and all(_empty_set_value(a.value) or (isinstance(a.value, ast.Set) and not a.value.elts) for a in outer_defs):
                    grows.append((S, n if isinstance(n, ast.stmt) else stmt_of(n), E))
            if not grows:
                results.append((False, RUN_SPACE, qn, f"for {norm(lp.target)} in {norm(lp.iter)[:60]}: <record of the keys seen so far>", f"the loop expands the blocks of the run space one by one and the per-block run lists are merged afterwards by overwriting (`.update(...)` / product), but no record of the keys of earlier blocks (an empty set created before the loop that grows by each block's keys) is kept and compared: a key that two blocks supply is not a configuration error any more - the later block's value silently wins, expand_run_space succeeds, `_run` never reaches its `return EXIT_CONFIG_ERROR` for the invalid run space and every run executes (sink output, trace files, exit 0)", lp.lineno, None))
                continue
            for S, ust, E in grows:
                uids = g.nodes_for(ust)
                if not uids:
                    raise AnalysisError(f"{qn}: `{norm(ust)[:60]}` not found in the control-flow graph")
                uid = uids[0]
                need = leaves_at(E, uid)
                if need is None:
                    raise AnalysisError(f"{qn}: which mappings `{norm(E)[:60]}` takes its keys from was not recognised")

                def is_S(e: ast.AST) -> bool:
                    if isinstance(e, ast.Call) and isinstance(e.func, ast.Name) and e.func.id in ("set", "frozenset") and len(e.args) == 1 and not e.keywords:
                        e = e.args[0]
                    return isinstance(e, ast.Name) and e.id == S

                def overlap_of(e: ast.AST, at: int, depth: int = 0) -> Optional[Tuple[bool, List[Tuple[ast.AST, int]]]]:
                    """(a truthy value means 'some key is already recorded', [(compared key set, where it is evaluated)])."""
                    if depth > 5:
                        return None
                    if isinstance(e, ast.Call) and isinstance(e.func, ast.Name) and e.func.id in _SET_WRAPPERS and len(e.args) == 1 and not e.keywords:
                        return overlap_of(e.args[0], at, depth + 1)
                    if isinstance(e, ast.Compare) and len(e.ops) == 1 and isinstance(e.comparators[0], ast.Constant) and isinstance(e.comparators[0].value, int) and isinstance(e.left, ast.Call) and call_name(e.left) == "len":
                        c, op = e.comparators[0].value, e.ops[0]
                        pos = (isinstance(op, ast.Gt) and c == 0) or (isinstance(op, ast.NotEq) and c == 0) or (isinstance(op, ast.GtE) and c == 1)
                        neg = (isinstance(op, ast.Eq) and c == 0) or (isinstance(op, ast.Lt) and c == 1) or (isinstance(op, ast.LtE) and c == 0)
                        sub = overlap_of(e.left, at, depth + 1) if (pos or neg) else None
                        return None if sub is None else (sub[0] if pos else not sub[0], sub[1])
                    if isinstance(e, ast.Name):
                        d = single_def(e.id, at)
                        return overlap_of(d.ast.value, d.id, depth + 1) if d is not None else None
                    if isinstance(e, ast.Call) and isinstance(e.func, ast.Attribute) and e.func.attr in ("intersection", "isdisjoint") and len(e.args) == 1 and not e.keywords:
                        a, b = e.func.value, e.args[0]
                        X = b if is_S(a) else a if is_S(b) else None
                        return None if X is None else (e.func.attr == "intersection", [(X, at)])
                    if isinstance(e, ast.BinOp) and isinstance(e.op, ast.BitAnd):
                        X = e.right if is_S(e.left) else e.left if is_S(e.right) else None
                        return None if X is None else (True, [(X, at)])
                    parts = [e.left, e.right] if isinstance(e, ast.BinOp) and isinstance(e.op, (ast.BitOr, ast.Add)) else [e.func.value, *e.args] if isinstance(e, ast.Call) and isinstance(e.func, ast.Attribute) and e.func.attr == "union" and e.args and not e.keywords else None
                    if parts is not None:
                        # the found duplicates of several key sets put together: empty iff none of them overlaps
                        subs = [overlap_of(x, at, depth + 1) for x in parts]
                        if all(x is not None and x[0] for x in subs):
                            return (True, [y for x in subs for y in x[1]])
                        return None
                    comp = e.args[0] if isinstance(e, ast.Call) and call_name(e) == "any" and len(e.args) == 1 else e
                    if isinstance(comp, (ast.ListComp, ast.SetComp, ast.GeneratorExp)) and len(comp.generators) == 1 and isinstance(comp.generators[0].target, ast.Name):
                        gen, k = comp.generators[0], comp.generators[0].target.id
                        def member(t: ast.AST) -> bool:
                            return isinstance(t, ast.Compare) and len(t.ops) == 1 and isinstance(t.ops[0], ast.In) and isinstance(t.left, ast.Name) and t.left.id == k and is_S(t.comparators[0])
                        if comp is not e and not gen.ifs and member(comp.elt):
                            return (True, [(gen.iter, at)])  # any(k in S for k in X)
                        if len(gen.ifs) == 1 and member(gen.ifs[0]) and (comp is not e or (isinstance(comp.elt, ast.Name) and comp.elt.id == k)):
                            return (True, [(gen.iter, at)])  # [k for k in X if k in S]
                    return None

                def covered_by(ov: Tuple[bool, List[Tuple[ast.AST, int]]]) -> Set[Tuple[str, frozenset]]:
                    out: Set[Tuple[str, frozenset]] = set()
                    for X, at in ov[1]:
                        lv = leaves_at(X, at)
                        if lv is not None:
                            out |= lv
                    return out

                guards: List[Tuple[int, str, Set[Tuple[str, frozenset]], Set[int]]] = []  # (node, passing edge, covered leaves, nodes after it)
                loop_guards: List[Tuple[int, Set[Tuple[str, frozenset]]]] = []
                weak: List[str] = []
                seen_tested: Set[str] = set()
                tested_all: Set[Tuple[str, frozenset]] = set()
                for n in g.nodes:
                    if n.kind not in ("if", "while") or n.part is None or n.ast is None or id(n.ast) not in inside:
                        continue
                    any_ov: List[Set[Tuple[str, frozenset]]] = []

                    def atom_any(e: ast.AST, n=n, any_ov=any_ov) -> Optional[bool]:
                        ov = overlap_of(e, n.id)
                        if ov is None:
                            return None
                        any_ov.append(covered_by(ov))
                        return not ov[0]

                    if not edges_guaranteeing(n.part, atom_any) or not any_ov:
                        # membership test inside a loop over the key set: for k in X: if k in S: raise
                        t = n.part
                        neg = isinstance(t, ast.UnaryOp) and isinstance(t.op, ast.Not)
                        t = t.operand if neg else t
                        inner = next((a for a in _anc(n.ast) if isinstance(a, ast.For)), None)
                        if inner is not None and inner is not lp and isinstance(inner.target, ast.Name) and isinstance(t, ast.Compare) and len(t.ops) == 1 and isinstance(t.ops[0], (ast.In, ast.NotIn)) and isinstance(t.left, ast.Name) and t.left.id == inner.target.id and is_S(t.comparators[0]) and inner.body and inner.body[0] is n.ast and not any(isinstance(b, ast.Break) for b in walk_no_nested(inner)):
                            hit_lab = "T" if (isinstance(t.ops[0], ast.In) != neg) else "F"
                            side = g.reach([x for x, l in g.succ[n.id] if l == hit_lab])
                            ih = g.nodes_for(inner)
                            if ih and g.ret_exit not in side and ih[0] not in side and uid not in side and (side.keys() & raise_ids or g.exc_exit in side):
                                lv = leaves_at(inner.iter, ih[0])
                                if lv is not None:
                                    loop_guards.append((ih[0], lv))
                                    if g.dominated_by_node(uid, ih[0]):
                                        tested_all |= lv
                        continue
                    for lv in any_ov:
                        seen_tested |= {l[0] for l in lv}
                    n_before = len(guards)
                    sides: Dict[str, Tuple[bool, Set[int]]] = {}
                    for leaf in need:
                        # the proposition "no key of THIS mapping is recorded yet", decided per mapping: a test that is
                        # false whenever this mapping overlaps establishes it on its other edge
                        def atom(e: ast.AST, n=n, leaf=leaf) -> Optional[bool]:
                            ov = overlap_of(e, n.id)
                            if ov is None or leaf not in covered_by(ov):
                                return None
                            return not ov[0]

                        for lab in edges_guaranteeing(n.part, atom):
                            if lab not in sides:
                                other = [x for x, l in g.succ[n.id] if l in ("T", "F") and l != lab]
                                side = g.reach(other)
                                rejecting = bool(other) and head not in side and g.ret_exit not in side and uid not in side and bool(side.keys() & raise_ids or g.exc_exit in side)
                                sides[lab] = (rejecting, set(g.reach([x for x, l in g.succ[n.id] if l == lab], blocked={uid, head})) if rejecting else set())
                                if not rejecting:
                                    weak.append(f"`{norm(n.part)[:60]}` (line {n.line}) does not end in a raise when a key is already recorded")
                            if sides[lab][0]:
                                guards.append((n.id, lab, {leaf}, sides[lab][1]))
                    if len(guards) > n_before:
                        for lv in any_ov:
                            tested_all |= lv
                # stores into a covered mapping between the test and the moment it is remembered un-cover it
                def stored_after(name: str, after: Set[int]) -> bool:
                    for site, _root in mutation_sites(nf, {name}):
                        st = site if isinstance(site, ast.stmt) else stmt_of(site)
                        if any(i in after for i in g.nodes_for(st)):
                            return True
                    return False

                loose: List[str] = []
                path = None
                for leaf in sorted(need, key=lambda l: l[0]):
                    name = leaf[0]
                    if any(leaf in lv and g.dominated_by_node(uid, ih) and not stored_after(name, set(g.reach([ih], blocked={uid, head}))) for ih, lv in loop_guards):
                        continue
                    blocked_edges = {(nid, lab) for nid, lab, lv, after in guards if leaf in lv and not stored_after(name, after)}
                    seen = g.reach(body_entry, blocked_edges=blocked_edges, blocked={head})
                    if uid in seen:
                        loose.append(name)
                        path = path or g.path_to(seen, uid)
                if loose:
                    tested = sorted(seen_tested | {l[0] for _h, lv in loop_guards for l in lv})
                    detail = (f"; the overlap test(s) on `{S}` cover {tested}" + (" - the same name, but with other definitions reaching the test than reach the statement that remembers the keys (the test runs before the mapping has its final value)" if set(loose) & set(tested) else "")) if tested else f"; no raising overlap test on `{S}` was found" + ("; " + "; ".join(dict.fromkeys(weak)) if weak else "")
                    results.append((False, RUN_SPACE, qn, norm(ust)[:100], f"`{norm(ust)[:60]}` remembers the keys of {sorted(l[0] for l in need)} as supplied by this block, but the keys of `{'`, `'.join(loose)}` reach it without a raising test having compared them with the keys of the earlier blocks (`{S}`){detail}: a later block that re-defines, through `{loose[0]}`, a key an earlier block already supplies is no longer a configuration error - the block run lists are merged by overwriting, the later value silently wins, expand_run_space succeeds, `_run` never reaches its `return EXIT_CONFIG_ERROR` for the invalid run space and every run executes (sink output, trace files, exit 0); --run-space-dry-run prints the plan as valid", getattr(ust, "lineno", lp.lineno), path))
                else:
                    results.append((True, RUN_SPACE, qn, norm(ust)[:100], "", getattr(ust, "lineno", lp.lineno)))
                # what is compared is what the block supplies - all of it has to be remembered for the blocks that follow
                forgotten = sorted({l[0] for l in tested_all if l not in need} - {l[0] for l in need})
                if forgotten and not loose:
                    results.append((False, RUN_SPACE, qn, norm(ust)[:100] + " (complete)", f"the raising overlap test compares the keys of {sorted(seen_tested)} with the keys of the earlier blocks, but `{norm(ust)[:60]}` records only those of {sorted(l[0] for l in need)}: the keys this block takes from `{'`, `'.join(forgotten)}` are never remembered, so a LATER block that supplies one of them again passes its own test - the run space with a key defined by two blocks is expanded (later block wins), `_run` never reaches `return EXIT_CONFIG_ERROR` and every run executes", getattr(ust, "lineno", lp.lineno), None))
        return results

    # every function of the module that expand_run_space reaches and that walks the blocks of the specification
    mod = repo.module(RUN_SPACE)
    funcs: List[ast.AST] = []
    todo = [top]
    while todo:
        f = todo.pop()
        if any(f is x for x in funcs):
            continue
        funcs.append(f)
        for c in calls_in(f, include_nested=True):
            for m, node in repo.resolve_call(mod, c):
                if m.rel == RUN_SPACE and isinstance(node, FuncNode):
                    todo.append(node)
    n_sites = 0
    for f in sorted(funcs, key=lambda x: x.lineno):
        if not any(isinstance(lp, ast.For) and _over_blocks(f, lp) for lp in walk_no_nested(f)):
            continue
        qn = qualname_of(f)
        # the function as written first; its normal form (private helpers inlined: a test moved into a helper) when
        # that does not discharge everything
        try:
            results = analyse(f, qn)
        except AnalysisError:
            results = [(False,)]
        if not all(x[0] for x in results):
            try:
                nf = nfunc(repo, RUN_SPACE, qn, consts=False)
            except Exception:
                nf = None
            if nf is not None:
                results = analyse(nf, qn)
            elif results == [(False,)]:
                results = analyse(f, qn)
        for ok, *rest in results:
            n_sites += 1
            if ok:
                R.ok(r, *rest)
            else:
                R.violation(r, *rest)
    if n_sites == 0:
        raise AnalysisError("expand_run_space: no loop over the blocks of the run-space specification (`for .. in <spec>.blocks`) found in it or in the functions of its module it calls")


# ---------------------------------------------------------------------------------------------
# round 8: parser and CLI prefer the same run-space block; --set replaces existing entries only;
#          the `parameters` metadata lists a parameter whatever its annotation / default
# ---------------------------------------------------------------------------------------------
def _cfg_node_of(g: CFG, sub: ast.AST) -> Optional[int]:
    """The CFG node whose evaluated part contains the expression / statement *sub*."""
    for n in g.nodes:
        ev = n.part if n.part is not None else (n.ast if n.kind == "stmt" else None)
        if ev is not None and any(x is sub for x in ast.walk(ev)):
            return n.id
    return None


def _is_copy_of(e: ast.AST) -> Optional[ast.AST]:
    """`dict(x)`, `x.copy()`, `copy.copy(x)`, `copy.deepcopy(x)`, `cast(T, x)`: the operand - the same keys under the same paths."""
    if not isinstance(e, ast.Call) or e.keywords:
        return None
    d = (call_name(e) or "").split(".")[-1]
    if d in ("dict", "OrderedDict") and len(e.args) == 1 and isinstance(e.func, ast.Name):
        return e.args[0]
    if d in ("copy", "deepcopy") and len(e.args) == 1 and not (isinstance(e.func, ast.Attribute) and isinstance(e.func.value, ast.Name) and e.func.value.id != "copy"):
        return e.args[0]
    if d == "copy" and not e.args and isinstance(e.func, ast.Attribute):
        return e.func.value
    if d == "cast" and len(e.args) == 2:
        return e.args[1]
    return None


class _BlockChain:
    """Where a value is looked up in a (nested) mapping rooted at the local *root*, as an ordered first-match list of
    ((key, ...), "read" | "create"): `c.get(k)` / `c[k]` -> one location; `c.get(k, D)`, `A or B`,
    `A if <test on A> else B` -> the locations of A, then those of the fallback; a local -> its reaching definitions (one,
    or a first definition followed by re-definitions each of which is reachable only over an edge that established that
    the local was None / falsy); `c.setdefault(k, ..)` -> read, else create."""

    def __init__(self, fn: ast.AST, g: CFG, root: str):
        self.fn, self.g, self.root = fn, g, root

    def _plain_value(self, d, name: str) -> Optional[ast.AST]:
        a = d.ast
        if d.kind != "stmt":
            return None
        if isinstance(a, ast.Assign) and len(a.targets) == 1 and isinstance(a.targets[0], ast.Name) and a.targets[0].id == name:
            return a.value
        if isinstance(a, ast.AnnAssign) and isinstance(a.target, ast.Name) and a.target.id == name and a.value is not None:
            return a.value
        return None

    def path(self, e: Optional[ast.AST], at: int, depth: int = 0) -> Optional[Tuple[str, ...]]:
        if e is None or depth > 8:
            return None
        if isinstance(e, ast.Name):
            if e.id == self.root:
                return ()
            defs = reaching_defs(self.g, e.id, at)
            if len(defs) != 1:
                return None
            v = self._plain_value(defs[0], e.id)
            return None if v is None else self.path(v, defs[0].id, depth + 1)
        if isinstance(e, ast.Subscript) and isinstance(e.slice, ast.Constant) and isinstance(e.slice.value, str):
            b = self.path(e.value, at, depth + 1)
            return None if b is None else b + (e.slice.value,)
        if isinstance(e, ast.Call) and isinstance(e.func, ast.Attribute) and e.func.attr in ("get", "setdefault") and e.args and isinstance(e.args[0], ast.Constant) and isinstance(e.args[0].value, str):
            b = self.path(e.func.value, at, depth + 1)
            return None if b is None else b + (e.args[0].value,)
        inner = _is_copy_of(e)
        if inner is not None:
            return self.path(inner, at, depth + 1)
        if isinstance(e, ast.BoolOp) and isinstance(e.op, ast.Or) and len(e.values) == 2 and isinstance(e.values[1], ast.Dict) and not e.values[1].keys:
            return self.path(e.values[0], at, depth + 1)  # `c.get(k) or {}`
        return None

    def _test_paths(self, test: ast.AST, at: int) -> Set[Tuple[str, ...]]:
        out: Set[Tuple[str, ...]] = set()
        for x in ast.walk(test):
            if isinstance(x, (ast.Name, ast.Subscript, ast.Call)):
                p = self.path(x, at)
                if p:
                    out.add(p)
            if isinstance(x, ast.Compare) and len(x.ops) == 1 and isinstance(x.ops[0], (ast.In, ast.NotIn)) and isinstance(x.left, ast.Constant) and isinstance(x.left.value, str):
                c = x.comparators[0]
                if isinstance(c, ast.Call) and isinstance(c.func, ast.Attribute) and c.func.attr == "keys" and not c.args:
                    c = c.func.value
                p = self.path(c, at)
                if p is not None:
                    out.add(p + (x.left.value,))
        return out

    def chain(self, e: Optional[ast.AST], at: int, depth: int = 0) -> Optional[List[Tuple[Tuple[str, ...], str]]]:
        if e is None or depth > 8:
            return None
        if isinstance(e, ast.Constant) and e.value is None:
            return []
        if isinstance(e, ast.Dict) and not e.keys:
            return []
        if isinstance(e, ast.IfExp):
            cb, co = self.chain(e.body, at, depth + 1), self.chain(e.orelse, at, depth + 1)
            if cb is None or co is None:
                return None
            if not cb or not co:
                return cb + co
            if _reads_in_order(cb + co) == _reads_in_order(co + cb):
                return cb + co  # the same place(s) either way
            tp = self._test_paths(e.test, at)
            b_in, o_in = cb[0][0] in tp, co[0][0] in tp
            if b_in and not o_in:
                return cb + co
            if o_in and not b_in:
                return co + cb
            return None
        if isinstance(e, ast.BoolOp) and isinstance(e.op, ast.Or):
            out: List[Tuple[Tuple[str, ...], str]] = []
            for v in e.values:
                c = self.chain(v, at, depth + 1)
                if c is None:
                    return None
                out += c
            return out
        if isinstance(e, ast.Name):
            defs = reaching_defs(self.g, e.id, at)
            if not defs:
                return None
            vals = [(d, self._plain_value(d, e.id)) for d in defs]
            if any(v is None for _d, v in vals):
                return None
            if len(vals) > 1:
                # a first definition, then re-definitions that happen only when the local was None / falsy
                after = {d.id: set(self.g.reach([t for t, lab in self.g.succ[d.id] if lab not in (EXC, BASE)])) for d, _v in vals}
                rank = {d.id: sum(1 for o, _v in vals if o.id != d.id and d.id in after[o.id]) for d, _v in vals}
                if sorted(rank.values()) != list(range(len(vals))):
                    return None
                vals.sort(key=lambda dv: rank[dv[0].id])
                name = e.id

                def atom(t: ast.AST) -> Optional[bool]:
                    if isinstance(t, ast.Name) and t.id == name:
                        return False  # truthy: not None
                    if isinstance(t, ast.Compare) and len(t.ops) == 1:
                        # `x is None` / `None is x` (and ==, is not, !=): identity and equality with None are symmetric
                        sides = [t.left, t.comparators[0]]
                        if sum(1 for s_ in sides if isinstance(s_, ast.Name) and s_.id == name) == 1 and sum(1 for s_ in sides if isinstance(s_, ast.Constant) and s_.value is None) == 1:
                            if isinstance(t.ops[0], (ast.Is, ast.Eq)):
                                return True
                            if isinstance(t.ops[0], (ast.IsNot, ast.NotEq)):
                                return False
                    return None
                for d, _v in vals[1:]:
                    prior = [self._plain_value(o, name) for o in reaching_defs(self.g, name, d.id)]
                    if prior and all(isinstance(pv, ast.Constant) and pv.value is None for pv in prior):
                        continue  # the local is None here whatever the guard says
                    holds, _path, guards = returns_only_through(self.g, atom, targets=[d.id])
                    if not holds or not guards:
                        return None
            out = []
            for d, v in vals:
                c = self.chain(v, d.id, depth + 1)
                if c is None:
                    return None
                out += c
            return out
        if isinstance(e, ast.Call) and isinstance(e.func, ast.Attribute) and e.func.attr in ("get", "setdefault"):
            p = self.path(e, at)
            if p is None:
                return None
            if e.func.attr == "setdefault":
                return [(p, "read"), (p, "create")]
            dflt = e.args[1] if len(e.args) > 1 else kwarg(e, "default")
            if dflt is None:
                return [(p, "read")]
            rest = self.chain(dflt, at, depth + 1)
            return None if rest is None else [(p, "read")] + rest
        if isinstance(e, ast.Subscript):
            p = self.path(e, at)
            return None if p is None else [(p, "read")]
        inner = _is_copy_of(e)
        if inner is not None:
            return self.chain(inner, at, depth + 1)
        return None


def _reads_in_order(chain: List[Tuple[Tuple[str, ...], str]]) -> List[Tuple[str, ...]]:
    out: List[Tuple[str, ...]] = []
    for p, _k in chain:
        if p not in out:
            out.append(p)
    return out


def _parser_block_chain(repo: Repo, mod, run_fn: ast.AST):
    """The configuration parser `_run` calls, and where it takes the run-space block from: the block is the first argument
    of the call whose result the parser stores as the `run_space` of the parsed configuration (found by that role, not by
    the name of the block parser).  Returns (ordered locations, (module rel, qualname, block expression))."""
    from ..engine import qualname_of
    from ..normal import nfunc

    targets = [(m, f) for c in calls_in(run_fn) if call_attr(c) == "parse_pipeline_config" for m, f in repo.resolve_call(mod, c) if isinstance(f, FuncNode)]
    if not targets:
        raise AnalysisError("_run: the configuration parser it calls could not be resolved")
    pmod, ppc = targets[0]
    qn = qualname_of(ppc)

    def block_calls(f: ast.AST) -> List[ast.Call]:
        out: List[ast.Call] = []
        vals: List[ast.AST] = []
        for n in walk_no_nested(f):
            if isinstance(n, ast.Call):
                vals += [k.value for k in n.keywords if k.arg == "run_space"]
            elif isinstance(n, ast.Assign) and any(isinstance(t, ast.Attribute) and t.attr == "run_space" for t in n.targets):
                vals.append(n.value)
        for v in vals:
            cands = assigned_value(f, v.id) if isinstance(v, ast.Name) else [v]
            for c in cands:
                if isinstance(c, ast.Call) and c.args and any(isinstance(t, FuncNode) for _m, t in repo.resolve_call(pmod, c)):
                    out.append(c)
        return out

    raw_calls = block_calls(ppc)
    if not raw_calls:
        raise AnalysisError(f"{qn}: the call that converts the run-space block (its result is stored as `run_space` of the parsed configuration) was not found")
    keep = tuple(sorted({call_attr(c) or "" for c in raw_calls}))
    try:
        nf = nfunc(repo, pmod.rel, qn, keep=keep, consts=False)
        calls = block_calls(nf)
        if not calls:
            nf, calls = ppc, raw_calls
    except AnalysisError:
        nf, calls = ppc, raw_calls
    root = ([a.arg for a in ppc.args.posonlyargs + ppc.args.args] or [None])[0]
    if root is None:
        raise AnalysisError(f"{qn}: no configuration parameter")
    g = CFG(nf, may_raise=lambda part: set())
    bc = _BlockChain(nf, g, root)
    chains = []
    for c in calls:
        at = _cfg_node_of(g, c)
        ch = bc.chain(c.args[0], at) if at is not None else None
        if ch is None:
            raise AnalysisError(f"{qn}: where the run-space block `{norm(c.args[0])[:60]}` is read from was not recognised")
        chains.append((ch, c))
    first = chains[0][0]
    if any(_reads_in_order(ch) != _reads_in_order(first) for ch, _c in chains[1:]):
        raise AnalysisError(f"{qn}: several conversions of the run-space block read it from different places")
    bexpr = chains[0][1].args[0]
    if isinstance(bexpr, ast.Name):
        dv = assigned_value(nf, bexpr.id)
        if dv and hasattr(dv[-1], "lineno"):
            bexpr = dv[-1]
    return first, (pmod.rel, qn, bexpr)


def block_precedence_rule(repo: Repo, R: Report, fn: ast.AST, g: CFG, CONFIG: str, parser_chain, block_site, assigns) -> None:
    """A configuration can carry a run-space block in more than one place (top level, nested under `pipeline`), and the
    CLI adds one of its own (`--run-space-file`).  The parser hands exactly one of them to the expansion gate.  The
    run-space flags (`--run-space-dry-run`, `--run-space-max-runs`) and the override file are gated only if they end up
    in *that* block: the CLI has to look the block up in the same order of preference as the parser, and has to
    put a block it creates / replaces at the place the parser looks at first."""
    r = R.rule("C17-D1-run-space-block-precedence-agrees", "the parser (parse_pipeline_config) and _run prefer the same run-space block when a configuration carries more than one (top level / nested under `pipeline` / --run-space-file): the places _run consults, in order, to find the block it writes --run-space-dry-run / --run-space-max-runs into are the places the parser consults, in the same order, and every block _run itself creates or replaces (--run-space-file, a fresh block for the flags) is stored at the place the parser looks at first - otherwise the flags and the override file land in a block the parser never reads, the dry-run gate and the cap stay open and the runs of the other block execute", 2)
    prel, pqn, bexpr = block_site
    want = _reads_in_order(parser_chain)
    show = lambda ps: " -> ".join(".".join(p) for p in ps) or "(nothing)"
    bc = _BlockChain(fn, g, CONFIG)
    seen_holder_chains: Set[Tuple[str, Tuple]] = set()
    n_sites = 0
    for a in assigns:
        t = a.targets[0]
        if not (isinstance(t, ast.Subscript) and isinstance(t.value, ast.Name) and isinstance(t.slice, ast.Constant) and t.slice.value in ("max_runs", "dry_run") and _feeds_config(fn, t.value.id, CONFIG)):
            continue
        ids = g.nodes_for(a)
        if not ids:
            continue
        ch = bc.chain(t.value, ids[0])
        if ch is None:
            raise AnalysisError(f"_run: how `{t.value.id}` (receives `{norm(a)[:50]}`) is looked up in the configuration was not recognised")
        got = _reads_in_order(ch)
        key = (t.value.id, tuple(got))
        n_sites += 1
        if key in seen_holder_chains and got == want:
            R.ok(r, CLI, "_run", norm(a)[:100], "", a.lineno)
            continue
        seen_holder_chains.add(key)
        if got != want:
            R.violation(r, prel, pqn, f"run-space block `{norm(bexpr)[:90]}`", f"the parser takes the run-space block from {show(want)} (first one present wins), but _run writes `{norm(a)[:60]}` into the block it finds by looking at {show(got)}: in a configuration that carries a block at both places (a nested `pipeline.run_space` plus --run-space-file / a top-level block) the flag lands in the block the parser does not read - `--run-space-dry-run` executes the other block's runs, `--run-space-max-runs` does not cap them", getattr(bexpr, "lineno", 0))
        else:
            R.ok(r, CLI, "_run", norm(a)[:100], "", a.lineno)
        for p, k in ch:
            if k == "create":
                R.check(p == want[0], r, CLI, "_run", f"fresh run-space block for the flags at `{'.'.join(p)}`", f"_run creates the block for the run-space flags at `{'.'.join(p)}`, but the parser looks at `{'.'.join(want[0])}` first", a.lineno)
    if n_sites == 0:
        raise AnalysisError("_run: no store of a run-space flag (max_runs / dry_run) into a section of the configuration found")
    # blocks _run stores itself (the override file)
    for a in assigns:
        t = a.targets[0]
        if not (isinstance(t, ast.Subscript) and isinstance(t.slice, ast.Constant) and isinstance(t.slice.value, str)):
            continue
        ids = g.nodes_for(a)
        if not ids:
            continue
        base = bc.path(t.value, ids[0])
        if base is None:
            continue
        p = base + (t.slice.value,)
        if p not in want:
            continue
        R.check(p == want[0], r, CLI, "_run", norm(a)[:100], f"_run stores a run-space block at `{'.'.join(p)}`, but the parser prefers the block at `{'.'.join(want[0])}` ({show(want)}): when both exist the stored block (--run-space-file) and the flags written into it are ignored and the other block's runs execute", a.lineno)


def _flows_from(fn: ast.AST, e: ast.AST, sources: Set[str], depth: int = 0) -> bool:
    """Does the expression read one of *sources* (parameters), directly or through locals of *fn* (for-targets included)?"""
    if depth > 5:
        return False
    for x in ast.walk(e):
        if not isinstance(x, ast.Name):
            continue
        if x.id in sources:
            return True
        for v in assigned_value(fn, x.id):
            if v is not e and _flows_from(fn, v, sources, depth + 1):
                return True
        for lp in walk_no_nested(fn):
            if isinstance(lp, (ast.For, ast.AsyncFor)) and any(isinstance(t, ast.Name) and t.id == x.id for t in ast.walk(lp.target)) and _flows_from(fn, lp.iter, sources, depth + 1):
                return True
    return False


def override_replaces_existing_rule(repo: Repo, R: Report, mod, fn: ast.AST, CONFIG: str) -> None:
    """`--set a.b.c=value` replaces a value the configuration contains; a path that does not exist is rejected
    ("Unknown override key", EXIT_CONFIG_ERROR) before anything is parsed or run.  A helper that stores under a
    caller-supplied key without having established that the key is there *creates* entries instead: a mistyped
    `--set run_space.dry-run=true` / `run_space.max_run=1` is swallowed by the block parsers (they ignore unknown keys),
    the invocation that had to be rejected is executed."""
    r = R.rule("C17-D1-override-replaces-existing-only", "every store `<part of the configuration>[<key computed from the caller's key path>] = value` in a helper that _run hands the configuration to (the --set override) is reachable only over a branch edge that established that the entry exists - `key in target` (other side raises) for a mapping, `index < len(target)` for a list: an override naming a key the configuration does not contain is rejected with the configuration-error exit, it never creates an entry (a mistyped run_space.dry_run / max_runs override would otherwise be ignored by the parser and the runs execute)", 1)
    helpers: List[Tuple[object, ast.AST, str, Set[str]]] = []

    def collect(cmod, caller: ast.AST, roots: Set[str], depth: int) -> None:
        """helpers (followed three levels: `_apply_overrides(config, items)` -> `_apply_override(config, key, value)`) that
        receive (a part of) the configuration"""
        if depth > 3:
            return
        parts = _parts_of(caller, roots)
        for c in calls_in(caller):
            passed = [(i, None) for i, a in enumerate(c.args) if _container_root(a) in parts] + [(None, k.arg) for k in c.keywords if k.arg and _container_root(k.value) in parts]
            if not passed:
                continue
            for m, node in repo.resolve_call(cmod, c):
                if not isinstance(node, FuncNode) or node is fn:
                    continue
                params = [a.arg for a in node.args.posonlyargs + node.args.args]
                if params and params[0] in ("self", "cls") and isinstance(c.func, ast.Attribute):
                    params = params[1:]
                # parameters that receive something computed at run time (a constant key chosen by the caller itself names
                # an entry it decides to create - the flag-driven sections; that is not an override of the user's)
                dyn = {params[i] for i, a in enumerate(c.args) if i < len(params) and not isinstance(a, ast.Constant)} | {k.arg for k in c.keywords if k.arg and not isinstance(k.value, ast.Constant)}
                if any(isinstance(a, ast.Starred) for a in c.args) or any(k.arg is None for k in c.keywords):
                    dyn = set(params) | {a.arg for a in node.args.kwonlyargs}
                for i, k in passed:
                    pname = k if k is not None else (params[i] if i is not None and i < len(params) else None)
                    if not pname:
                        continue
                    prev = next((x for x in helpers if x[1] is node and x[2] == pname), None)
                    if prev is None:
                        helpers.append((m, node, pname, set(dyn)))
                        collect(m, node, {pname}, depth + 1)
                    else:
                        prev[3].update(dyn)

    collect(mod, fn, {CONFIG}, 1)
    n = 0
    for m, h, pname, dyn in helpers:
        others = dyn - {pname, "self", "cls"}
        hparts = _parts_of(h, {pname})
        stores = []
        for st in walk_no_nested(h):
            if isinstance(st, ast.Assign):
                for t in st.targets:
                    if isinstance(t, ast.Subscript) and _container_root(t.value) in hparts and not isinstance(t.slice, (ast.Constant, ast.Slice)) and _flows_from(h, t.slice, others):
                        stores.append((st, t))
            elif isinstance(st, ast.Call) and isinstance(st.func, ast.Attribute) and st.func.attr in ("setdefault", "__setitem__", "update") and _container_root(st.func.value) in hparts and st.args and not isinstance(st.args[0], ast.Constant) and _flows_from(h, st.args[0], others):
                stores.append((st, None))
        if not stores:
            continue
        g = CFG(h, may_raise=lambda part: set())
        from ..engine import qualname_of
        hq = qualname_of(h)
        for st, t in stores:
            n += 1
            if t is None:
                R.violation(r, m.rel, hq, norm(st)[:100], "the entry is written with a method that creates it when it is absent (setdefault / update / __setitem__) under a key taken from the caller's key path: an override of a key the configuration does not contain is not rejected", st.lineno)
                continue
            K, T = norm(t.slice), norm(t.value)

            def atom(e: ast.AST, K=K, T=T) -> Optional[bool]:
                if not (isinstance(e, ast.Compare) and len(e.ops) == 1):
                    return None
                op, l, c = e.ops[0], e.left, e.comparators[0]
                if isinstance(op, (ast.In, ast.NotIn)) and norm(l) == K:
                    if isinstance(c, ast.Call) and isinstance(c.func, ast.Attribute) and c.func.attr == "keys" and not c.args:
                        c = c.func.value
                    if norm(c) == T:
                        return isinstance(op, ast.In)
                    return None

                def is_len(x: ast.AST) -> bool:
                    return isinstance(x, ast.Call) and call_name(x) == "len" and len(x.args) == 1 and norm(x.args[0]) == T
                if norm(l) == K and is_len(c):
                    if isinstance(op, ast.Lt):
                        return True
                    if isinstance(op, ast.GtE):
                        return False
                if is_len(l) and norm(c) == K:
                    if isinstance(op, ast.Gt):
                        return True
                    if isinstance(op, ast.LtE):
                        return False
                return None
            ids = g.nodes_for(st)
            holds, path, guards = returns_only_through(g, atom, targets=ids)
            R.check(holds and guards > 0, r, m.rel, hq, norm(st)[:100], f"`{norm(st)[:60]}` stores under the key `{K}` taken from the caller's key path and can be reached without a test that `{K}` is an entry of `{T}` (`{K} in {T}` / `{K} < len({T})`, other side raising): for a mapping a store under an absent key creates it, so `--set` with an unknown last segment (run_space.dry-run, run_space.max_run, a parameter the file does not spell out) is no longer rejected with the configuration-error exit - the block parsers ignore the stray key and the invocation is executed", st.lineno, path)
    if n == 0:
        raise AnalysisError("_run: no helper that stores into the configuration under a caller-supplied key (the --set override) was found")


_GROW_METHODS = {"append", "add", "update", "setdefault", "extend", "insert", "appendleft", "__setitem__"}
_DROPPING_ATTRS = {"annotation", "default"}


def _is_signature_enumeration(f: ast.AST, it: ast.AST, depth: int = 0) -> bool:
    """`<sig>.parameters`, `.parameters.values()` / `.items()`, `list(...)` of them, or a local bound to one."""
    if depth > 3:
        return False
    if any(isinstance(x, ast.Attribute) and x.attr == "parameters" for x in ast.walk(it)):
        return True
    if isinstance(it, ast.Name):
        return any(_is_signature_enumeration(f, v, depth + 1) for v in assigned_value(f, it.id))
    return False


def _element_attrs(f: ast.AST, e: ast.AST, evars: Set[str], depth: int = 0) -> Set[str]:
    """Attributes of the enumerated element (`<evar>.<attr>`) the expression reads, directly or through locals."""
    out: Set[str] = set()
    if depth > 4:
        return out
    for x in ast.walk(e):
        if isinstance(x, ast.Attribute) and isinstance(x.value, ast.Name) and x.value.id in evars:
            out.add(x.attr)
        elif isinstance(x, ast.Call) and call_name(x) == "getattr" and len(x.args) >= 2 and isinstance(x.args[0], ast.Name) and x.args[0].id in evars and isinstance(x.args[1], ast.Constant):
            out.add(str(x.args[1].value))
        elif isinstance(x, ast.Name) and x.id not in evars:
            for v in assigned_value(f, x.id):
                if v is not e:
                    out |= _element_attrs(f, v, evars, depth + 1)
    return out


def _enumeration_findings(repo: Repo, mod, f: ast.AST, sinks: Optional[Set[str]], seen: Set[int], depth: int = 0) -> List[Tuple[bool, object, ast.AST, ast.AST, str]]:
    """For every enumeration of signature parameters that feeds the value *f* returns (or the containers named by
    *sinks*) - in *f* itself or in a function of the package whose result *f* walks to fill that value: the tests that
    decide whether an enumerated parameter is listed at all.  (ok, module, function, construct, what) per enumeration /
    per offending test."""
    out: List[Tuple[bool, object, ast.AST, ast.AST, str]] = []
    if id(f) in seen or depth > 3:
        return out
    seen.add(id(f))
    fed: Set[str] = set(sinks or ())
    ret_exprs: List[ast.AST] = []
    for n in walk_no_nested(f):
        if sinks is None and isinstance(n, ast.Return) and n.value is not None:
            ret_exprs.append(n.value)
            fed |= {x.id for x in ast.walk(n.value) if isinstance(x, ast.Name)}
    # locals the fed containers are built from (`details = OrderedDict(pairs)`, `return dict(items)`)
    for _ in range(3):
        for name in list(fed):
            for v in assigned_value(f, name):
                if not isinstance(v, (ast.ListComp, ast.SetComp, ast.DictComp, ast.GeneratorExp)):
                    fed |= {x.id for x in ast.walk(v) if isinstance(x, ast.Name) and isinstance(v, (ast.Call, ast.Name, ast.BinOp, ast.Dict, ast.List, ast.Tuple)) and not (isinstance(v, ast.Call) and x is v.func)}

    def callee_funcs(it: ast.AST) -> List[Tuple[object, ast.AST]]:
        cands = [it] + (assigned_value(f, it.id) if isinstance(it, ast.Name) else [])
        res: List[Tuple[object, ast.AST]] = []
        for c in cands:
            inner = c
            while isinstance(inner, ast.Call) and call_name(inner) in ("list", "tuple", "sorted", "reversed", "enumerate", "iter", "dict", "OrderedDict") and inner.args:
                inner = inner.args[0]
            if isinstance(inner, ast.Call) and isinstance(inner.func, ast.Attribute) and inner.func.attr in ("items", "keys", "values") and not inner.args:
                v = inner.func.value
                inner = v if isinstance(v, ast.Call) else (next((a for a in assigned_value(f, v.id) if isinstance(a, ast.Call)), inner) if isinstance(v, ast.Name) else inner)
            if isinstance(inner, ast.Call):
                res += [(m, t) for m, t in repo.resolve_call(mod, inner) if isinstance(t, FuncNode)]
        return res

    def judge(test: ast.AST, evars: Set[str], where: ast.AST, label: str) -> None:
        attrs = _element_attrs(f, test, evars) & _DROPPING_ATTRS
        if attrs:
            out.append((False, mod, f, test, f"whether an enumerated parameter is listed depends on its {' / '.join(sorted(attrs))} (`{norm(test)[:70]}`, {label})"))

    g: Optional[CFG] = None
    for n in walk_no_nested(f):
        if isinstance(n, (ast.For, ast.AsyncFor)):
            growth = []
            for st in ast.walk(n):
                if isinstance(st, ast.Assign) and any(isinstance(t, ast.Subscript) and _container_root(t.value) in fed for t in st.targets):
                    growth.append(st)
                elif isinstance(st, ast.Expr) and isinstance(st.value, ast.Call) and isinstance(st.value.func, ast.Attribute) and st.value.func.attr in _GROW_METHODS and _container_root(st.value.func.value) in fed:
                    growth.append(st)
                elif isinstance(st, (ast.Yield,)) and sinks is None:
                    growth.append(stmt_of(st) or st)
            if not growth:
                continue
            evars = {x.id for x in ast.walk(n.target) if isinstance(x, ast.Name)}
            if _is_signature_enumeration(f, n.iter):
                if g is None:
                    g = CFG(f, may_raise=lambda part: set())
                heads = [i for i in g.nodes_for(n) if g.nodes[i].kind == "for"]
                gids = {i for st in growth for i in g.nodes_for(st)}
                if not heads or not gids:
                    continue
                head = heads[0]
                body = set(g.reach([t for t, lab in g.succ[head] if lab == "T"], blocked={head}))
                n_bad = len(out)
                for nid in body:
                    nd = g.nodes[nid]
                    if nd.kind != "if" or nd.part is None:
                        continue
                    fates = {}
                    for t, lab in g.succ[nid]:
                        if lab not in ("T", "F"):
                            continue
                        lists = t in gids or bool(gids & set(g.reach([t], blocked={head})))
                        if t in gids:
                            drops = False
                        else:
                            drops = t == head or head in g.reach([t], blocked=gids)
                        fates[lab] = (lists, drops)
                    if any(l for l, _d in fates.values()) and any(d and not l for l, d in fates.values()):
                        judge(nd.part, evars, nd.ast, "one branch goes on to the next parameter without listing this one")
                if len(out) == n_bad:
                    out.append((True, mod, f, n, ""))
            else:
                for m2, t2 in callee_funcs(n.iter):
                    out += _enumeration_findings(repo, m2, t2, None, seen, depth + 1)
        elif isinstance(n, (ast.ListComp, ast.SetComp, ast.DictComp, ast.GeneratorExp)):
            feeds = any(any(x is n for x in ast.walk(rv)) for rv in ret_exprs) or any(any(x is n for x in ast.walk(v)) for name in fed for v in assigned_value(f, name))
            if not feeds:
                continue
            for gen in n.generators:
                evars = {x.id for x in ast.walk(gen.target) if isinstance(x, ast.Name)}
                if _is_signature_enumeration(f, gen.iter):
                    n_bad = len(out)
                    for t in gen.ifs:
                        judge(t, evars, n, "comprehension filter")
                    if len(out) == n_bad:
                        out.append((True, mod, f, n, ""))
                else:
                    for m2, t2 in callee_funcs(gen.iter):
                        out += _enumeration_findings(repo, m2, t2, None, seen, depth + 1)
    return out


def metadata_lists_every_parameter_rule(repo: Repo, R: Report) -> None:
    """The missing-key gate asks for the context keys of the parameters listed in a component's `parameters` metadata
    (build_pipeline_inspection walks exactly that mapping); at run time the node resolves every parameter of the
    processing signature - selected by name and kind only.  A parameter that the metadata drops because of its
    annotation (un-annotated) or its default (required) is resolved at run time but never asked for: the pre-flight
    check passes, the node fails after its predecessors ran."""
    from ..engine import qualname_of

    r = R.rule("C17-D4-parameter-metadata-lists-every-parameter", "whether a parameter of the processing signature appears in the `parameters` metadata of a component (what build_pipeline_inspection classifies and the missing-key gate asks for) is decided by its name and kind only, as at run time: in every function that produces the value stored under \"parameters\" - followed into the functions of the package whose result it walks to fill that value - no test that makes the enumeration of `inspect.signature(..).parameters` skip an element reads the parameter's annotation or default; an un-annotated / default-less parameter dropped there is still resolved from the context at run time but never reported as a required key, so the pre-flight check lets a configuration through that fails after nodes have executed", 2)
    builders: List[Tuple[object, ast.AST, Optional[Set[str]]]] = []

    def add(m, f, sinks):
        if not any(b[1] is f and b[2] == sinks for b in builders):
            builders.append((m, f, sinks))

    for mod in repo.modules.values():
        for f in [x for x in ast.walk(mod.tree) if isinstance(x, FuncNode)]:
            vals: List[ast.AST] = []
            for n in walk_no_nested(f):
                if isinstance(n, ast.Dict):
                    vals += [v for k, v in zip(n.keys, n.values) if isinstance(k, ast.Constant) and k.value == "parameters"]
                elif isinstance(n, ast.Assign) and any(isinstance(t, ast.Subscript) and isinstance(t.slice, ast.Constant) and t.slice.value == "parameters" for t in n.targets):
                    vals.append(n.value)
            for v in vals:
                scope, cands = f, [v]
                if isinstance(v, ast.Name):
                    cands = assigned_value(f, v.id)
                    if not cands:
                        # a closure variable: built in an enclosing function
                        for a in _anc(f):
                            if isinstance(a, FuncNode) and assigned_value(a, v.id):
                                scope, cands = a, assigned_value(a, v.id)
                                break
                for c in cands:
                    if isinstance(c, ast.Call):
                        targets = [(m, t) for m, t in repo.resolve_call(mod, c) if isinstance(t, FuncNode)]
                        for m, t in targets:
                            add(m, t, None)
                        if not targets and isinstance(v, ast.Name) and not c.args and (call_name(c) or "").split(".")[-1] in ("OrderedDict", "dict"):
                            add(mod, scope, frozenset({v.id}))
                    elif isinstance(c, (ast.Dict, ast.DictComp)) and isinstance(v, ast.Name):
                        add(mod, scope, frozenset({v.id}))
    n = 0
    seen: Set[int] = set()
    for m, f, sinks in builders:
        for ok, fm, ff, node, what in _enumeration_findings(repo, m, f, set(sinks) if sinks is not None else None, seen if sinks is None else set()):
            n += 1
            qn = qualname_of(ff)
            if ok:
                R.ok(r, fm.rel, qn, norm(node)[:80], "", getattr(node, "lineno", ff.lineno))
            else:
                R.violation(r, fm.rel, qn, norm(node)[:100], f"{what}: the value ends up as the `parameters` metadata of a component ({qualname_of(f)} in {m.rel}); a parameter without a type hint / without a default is then missing from it although the node resolves it at run time (the run-time enumeration selects by name and kind only) - inspection never reports its context key as required, the missing-key gate of `semantiva run` passes and the run fails with the run-time exit code after earlier nodes have written their output", getattr(node, "lineno", ff.lineno))
    if n == 0:
        raise AnalysisError("no enumeration of signature parameters feeding a `parameters` metadata entry was found")
