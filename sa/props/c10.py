"""C10 - tracing is purely observational and traces are reproducible.

D1 trace-only code has no effect on the run (no rebinding / mutation of run state, live user
   objects are only handed to overridable code inside a containing try, never consumed),
D1b uncontained serialisation sinks of the trace path receive JSON-safe values only,
D2 no accumulating per-object / module state feeds the stream,
D3 driver calls are gated on the trace being present.
"""
from __future__ import annotations

import ast
from typing import Dict, List, Optional, Set, Tuple

from ..cfg import CFG, returns_only_through
from ..engine import (
    GROWERS,
    AnalysisError,
    FuncNode,
    Repo,
    ancestors,
    assigned_value,
    call_attr,
    call_name,
    calls_in,
    dotted_name,
    kwarg,
    mutation_sites,
    names_stored,
    norm,
    qualname_of,
    stmt_of,
    walk_no_nested,
)
from ..report import Report
from . import _orch
from ._orch import ORCH, EXECUTE

UTILS = "semantiva/trace/_utils.py"
DELTA = "semantiva/trace/delta_collector.py"
O = "SemantivaOrchestrator."
RUN_STATE = {"data", "context", "payload", "result", "node", "nodes", "node_defs", "transport", "resolved_spec", "pipeline_spec"}
TRACE_HELPERS = ["_start_timing", "_end_timing", "_iso_now", "_init_summaries", "_augment_output_summaries", "_data_summary", "_context_summary", "_make_ser_record", "_trace_options", "_collect_env_pins"]
HOOK_CALLS = {"len", "repr", "str", "serialize", "safe_repr", "canonical_json_bytes", "context_to_kv_repr", "sha256_bytes"}
HOOK_METHODS = {"to_bytes", "to_json", "dumps", "json", "get_metadata", "get_options", "fingerprint"}
CONSUMERS = {"list", "tuple", "sorted", "set", "frozenset", "iter", "next", "sum", "max", "min", "enumerate", "zip", "any", "all", "reversed", "join", "dict"}
REITERABLE = {"list", "tuple", "dict", "set", "frozenset", "str", "bytes", "bytearray", "Mapping", "Sequence", "Set", "MutableMapping", "MutableSequence", "range"}
LIVE_PARAMS = {"data", "obj", "o", "v", "value", "context_view", "mapping", "a", "b"}


def contained(node: ast.AST) -> bool:
    """Is *node* lexically inside a try whose handler catches Exception (or everything) and does not re-raise?"""
    child = node
    for a in ancestors(node):
        if isinstance(a, FuncNode + (ast.Lambda,)):
            return False
        if isinstance(a, ast.Try) and any(child is s or any(child is x for x in ast.walk(s)) for s in a.body):
            for h in a.handlers:
                t = ast.unparse(h.type) if h.type is not None else "BaseException"
                if t in ("Exception", "BaseException") or h.type is None:
                    if not any(isinstance(x, ast.Raise) for st in h.body for x in ast.walk(st)):
                        return True
        child = a
    return False


def run(repo: Repo, R: Report) -> None:
    ex = repo.func(ORCH, EXECUTE)
    R.assume(
        "payload classes whose hooks (__len__, __repr__, to_json) have side effects of their own are outside static reach: the rules show the framework does not cause a difference",
        "assertions.environment (incl. registry.fingerprint) is an environment snapshot by documentation, not a function of (config, payload)",
        "time/clock reads and uuid4 feed only the documented volatile fields",
    )
    R.undecided("equality of returned values traced vs untraced for payload classes with side-effecting hooks", "byte equality of two traces (only the structural sources of non-volatile differences are decided)")
    tainted = _orch.trace_tainted(ex)
    drivers = _orch.driver_vars(ex)
    fold = _orch.make_fold(tainted)

    # ------------------------------------------------------------------ D3 gating
    r_gate = R.rule("C10-D3-gating", "every trace driver call in execute is reachable only through a test that the trace/driver is present", 6)
    g = CFG(ex, may_raise=lambda p: set())

    def present_atom(e: ast.AST) -> Optional[bool]:
        if isinstance(e, ast.Name) and e.id in tainted:
            return True
        if isinstance(e, ast.Compare) and len(e.ops) == 1 and isinstance(e.left, ast.Name) and e.left.id in tainted and isinstance(e.comparators[0], ast.Constant) and e.comparators[0].value is None:
            return isinstance(e.ops[0], ast.IsNot)
        return None

    dnodes = [n for n in g.nodes if n.ast is not None and n.kind == "stmt" and any(_orch.is_driver_call(c, drivers) for c in calls_in(n.ast))]
    if len(dnodes) < 5:
        raise AnalysisError(f"execute(): only {len(dnodes)} driver call statements found")
    for n in dnodes:
        holds, path, guards = returns_only_through(g, present_atom, targets=[n.id])
        R.check(holds and guards > 0, r_gate, ORCH, EXECUTE, norm(n.ast)[:90], "a driver method can be invoked without the trace being present (trace=None executes driver code / raises)", n.line, path)

    # ------------------------------------------------------------------ D1 effects in trace-only blocks
    r_eff = R.rule("C10-D1-no-effect-on-run", "statements executed only when a trace is attached neither rebind nor mutate the run's data/context/payload/nodes, and the trace helpers do not mutate the live objects they are given", 10)
    trace_blocks: List[ast.If] = []
    for n in ast.walk(ex):
        if isinstance(n, ast.If) and fold(n.test) is True:
            trace_blocks.append(n)
    if len(trace_blocks) < 4:
        raise AnalysisError("execute(): trace-guarded blocks not recognised")
    for blk in trace_blocks:
        body_mod = ast.Module(body=blk.body, type_ignores=[])
        stored = set()
        for st in blk.body:
            for x in ast.walk(st):
                if isinstance(x, ast.Name) and isinstance(x.ctx, (ast.Store, ast.Del)):
                    stored.add(x.id)
        bad_rebind = stored & RUN_STATE
        muts = []
        for st in blk.body:
            muts.extend(mutation_sites(st, RUN_STATE, include_nested=True))
        what = ""
        if bad_rebind:
            what = f"run state `{sorted(bad_rebind)[0]}` is rebound inside code that only runs with a trace attached"
        elif muts:
            what = f"`{norm(muts[0][0])[:60]}` mutates run state inside code that only runs with a trace attached"
        R.check(not bad_rebind and not muts, r_eff, ORCH, EXECUTE, f"trace-only block at `{norm(blk)[:50]}` (line {blk.lineno})", what + ": traced and untraced runs diverge", blk.lineno)
    helper_fns: List[Tuple[str, str, ast.FunctionDef]] = []
    for h in TRACE_HELPERS:
        f = repo.maybe_func(ORCH, O + h)
        if f is not None:
            helper_fns.append((ORCH, O + h, f))
    umod = repo.module(UTILS)
    for qn, f in [(q, n) for q, n in umod.defs.items() if isinstance(n, FuncNode) and "." not in q]:
        helper_fns.append((UTILS, qn, f))
    dmod = repo.module(DELTA)
    for qn, f in [(q, n) for q, n in dmod.defs.items() if isinstance(n, FuncNode)]:
        helper_fns.append((DELTA, qn, f))
    for rel, qn, f in helper_fns:
        params = {a.arg for a in f.args.args + f.args.kwonlyargs} - {"self", "cls", "trace_opts", "summaries", "maxlen", "max_pairs"}
        live = params & (LIVE_PARAMS | {"node", "pre_ctx", "post_ctx", "context_delta", "params", "param_sources", "pre_checks", "post_checks", "env_pins", "timing", "error"})
        muts = mutation_sites(f, live)
        # building a fresh local from a param and mutating the local is fine: mutation_sites is rooted at the param name only
        R.check(not muts, r_eff, rel, qn, f"{qn} does not mutate its live arguments {sorted(live)}", f"`{norm(muts[0][0])[:70]}` mutates an object handed to trace code (the run sees the change)" if muts else "", f.lineno)

    # ------------------------------------------------------------------ D1 containment of hooks on live objects
    r_cont = R.rule("C10-D1-hook-containment", "trace code hands live payload/context values to user-overridable code (len, repr, to_bytes, to_json, serialisation) only inside a try that contains Exception; it never consumes them (list/iter/sorted/for over an object not known to be re-iterable)", 10)
    for rel, qn, f in helper_fns:
        params = {a.arg for a in f.args.args}
        live = params & LIVE_PARAMS
        if not live:
            continue
        for c in calls_in(f):
            name = call_attr(c)
            args_live = [a for a in c.args if isinstance(a, ast.Name) and a.id in live]
            recv_live = isinstance(c.func, ast.Attribute) and isinstance(c.func.value, ast.Name) and c.func.value.id in live
            if (name in HOOK_CALLS and args_live and isinstance(c.func, ast.Name)) or (recv_live and name in HOOK_METHODS):
                if name in ("sha256_bytes",):
                    continue
                # helpers that contain internally are themselves checked; a call to them is safe
                internal = name in ("safe_repr", "serialize", "canonical_json_bytes", "context_to_kv_repr") and rel != UTILS
                ok = contained(c) or _callee_contains(repo, umod, name) or _all_callers_contained(repo, f, 0)
                R.check(ok, r_cont, rel, qn, norm(c)[:80], "a live user object is handed to overridable code outside any containing try: an exception there changes what the traced run raises", c.lineno)
            # consumption
            if name in CONSUMERS and args_live and (isinstance(c.func, ast.Name) or name == "join"):
                a = args_live[0]
                if not _guarded_reiterable(c, a.id):
                    R.violation(r_cont, rel, qn, norm(stmt_of(c))[:90], f"`{name}({a.id})` consumes an arbitrary live object (a one-shot iterator in the payload is drained by tracing before/after the node sees it)", c.lineno)
        for n in walk_no_nested(f):
            if isinstance(n, (ast.For, ast.comprehension)) and isinstance(n.iter, ast.Name) and n.iter.id in live and n.iter.id in ("o", "obj", "data", "value", "v"):
                if not _guarded_reiterable(n if isinstance(n, ast.For) else n.iter, n.iter.id):
                    R.violation(r_cont, rel, qn, norm(n if isinstance(n, ast.For) else n.iter)[:90], "iteration over an arbitrary live object inside trace code", getattr(n, "lineno", f.lineno))

    # ------------------------------------------------------------------ D1b serialisation sinks on SAFE data
    from . import c06

    R.rule_prefix = "C10-D1b/"
    try:
        c06._json_safety_rules(repo, R, [])
    finally:
        R.rule_prefix = ""
    r_sink = R.rule("C10-D1b-sinks", "uncontained json/deepcopy/asdict sinks in SER construction are applied only to the sanitised preprocessor metadata", 2)
    mk = repo.func(ORCH, O + "_make_ser_record")
    for c in calls_in(mk):
        d = call_name(c) or ""
        if d in ("json.dumps", "json.loads", "copy.deepcopy", "asdict", "compute_node_semantic_id") and not contained(c):
            names = {x.id for a in list(c.args) + [k.value for k in c.keywords] for x in ast.walk(a) if isinstance(x, ast.Name)} - {"json", "copy"}
            src_ok = names <= {"pre", "prov"} or all(any("preprocessor" in ast.unparse(v) or "json." in ast.unparse(v) for v in assigned_value(mk, nm)) for nm in names)
            R.check(src_ok, r_sink, ORCH, O + "_make_ser_record", norm(c)[:80], "an uncontained serialisation sink is applied to a value that is not the sanitised preprocessor metadata: a non-JSON configuration value makes the traced run raise", c.lineno)

    # ------------------------------------------------------------------ D2 no accumulating state feeds the stream
    r_hist = R.rule("C10-D2-no-history", "orchestrator and driver keep no accumulating per-object or module-level state that the records of a later run are computed from; stable record fields derive from this call's arguments", 3)
    omod = repo.module(ORCH)
    for cls_name in ("SemantivaOrchestrator", "LocalSemantivaOrchestrator"):
        cls = omod.defs.get(cls_name)
        if not isinstance(cls, ast.ClassDef):
            continue
        grown: Dict[str, ast.AST] = {}
        for f in [n for n in cls.body if isinstance(n, FuncNode)]:
            for n in ast.walk(f):
                if isinstance(n, ast.Assign):
                    for t in n.targets:
                        if isinstance(t, ast.Subscript) and (dotted_name(t.value) or "").startswith("self.") and not isinstance(t.slice, ast.Constant):
                            grown.setdefault(dotted_name(t.value), n)
                if isinstance(n, ast.Call) and isinstance(n.func, ast.Attribute) and n.func.attr in GROWERS and (dotted_name(n.func.value) or "").startswith("self."):
                    grown.setdefault(dotted_name(n.func.value), n)
        for attr, site in grown.items():
            readers = [qualname_of(f) for f in [n for n in cls.body if isinstance(n, FuncNode)] if any(isinstance(x, ast.Attribute) and dotted_name(x) == attr and isinstance(x.ctx, ast.Load) for x in ast.walk(f))]
            R.violation(r_hist, ORCH, cls_name, norm(site)[:90], f"`{attr}` accumulates across execute() calls and is read in {sorted(set(readers))[:3]}: what a run records (or retains) depends on what the same orchestrator ran before", site.lineno)
        R.ok(r_hist, ORCH, cls_name, f"accumulating instance attributes: {len(grown)}", "none" if not grown else "")
    # module-level mutable state in the orchestrator module
    mod_state = [st for st in omod.tree.body if isinstance(st, (ast.Assign, ast.AnnAssign)) and isinstance(getattr(st, "value", None), (ast.Dict, ast.List, ast.Set, ast.Call)) and not (isinstance(st.value, ast.Call) and call_attr(st.value) in ("TypeVar", "getLogger", "frozenset", "tuple"))]
    for st in mod_state:
        nm = dotted_name(st.targets[0] if isinstance(st, ast.Assign) else st.target)
        used = [f for _m, qn, f in repo.all_functions() if _m.rel == ORCH and any(isinstance(x, ast.Name) and x.id == nm for x in ast.walk(f))]
        R.check(not used, r_hist, ORCH, "<module>", norm(st)[:80], f"module-level mutable `{nm}` is used by the orchestrator: records can depend on earlier runs in the process", st.lineno)
    # ids of SER / pipeline_end come from this call (shared with C06-D3): _make_ser_record reads no self attribute
    self_reads = sorted({dotted_name(x) for x in ast.walk(mk) if isinstance(x, ast.Attribute) and isinstance(x.value, ast.Name) and x.value.id == "self" and isinstance(x.ctx, ast.Load) and not isinstance(getattr(x, "_parent", None), ast.Call)} - {None})
    self_reads = [a for a in self_reads if not any(isinstance(c.func, ast.Attribute) and dotted_name(c.func) == a for c in calls_in(mk))]
    R.check(not self_reads, r_hist, ORCH, O + "_make_ser_record", "SER construction reads no instance state", f"SER fields are computed from persistent instance state {self_reads}", mk.lineno)
    # the caller-owned canonical spec is not mutated (pipeline_id would depend on history)
    from . import c04

    R.rule_prefix = "C10-D2/"
    try:
        c04.no_mutation_of_hashed_input(repo, R)
    finally:
        R.rule_prefix = ""


def _callee_contains(repo: Repo, umod, name: Optional[str]) -> bool:
    """Does trace/_utils.<name> contain its own hooks (every hook call on its parameter inside a containing try)?"""
    f = umod.defs.get(name or "")
    if not isinstance(f, FuncNode):
        return False
    params = {a.arg for a in f.args.args}
    for c in calls_in(f):
        a = call_attr(c)
        touches = any(isinstance(x, ast.Name) and x.id in params for x in ast.walk(c))
        if touches and (a in HOOK_CALLS or a in HOOK_METHODS or (call_name(c) or "").startswith("json.")) and a not in ("sha256_bytes", "len"):
            if not contained(c):
                return False
    return True


def _all_callers_contained(repo: Repo, f: ast.AST, depth: int) -> bool:
    """Every call site of function *f* inside the trace path (orchestrator, trace package) is contained,
    directly or through its own callers (two levels)."""
    name = getattr(f, "name", None)
    if name is None or depth > 2:
        return False
    sites = []
    for m in repo.modules.values():
        if not (m.rel.startswith("semantiva/trace/") or m.rel == ORCH):
            continue
        for qn, g in [(q, n) for q, n in m.defs.items() if isinstance(n, FuncNode)]:
            for c in calls_in(g):
                if call_attr(c) == name and g is not f:
                    sites.append((g, c))
    if not sites:
        return False
    return all(contained(c) or _all_callers_contained(repo, g, depth + 1) for g, c in sites)


def _guarded_reiterable(node: ast.AST, var: str) -> bool:
    child = node
    for a in ancestors(node):
        if isinstance(a, FuncNode):
            return False
        if isinstance(a, ast.If) and any(child is s or any(child is x for x in ast.walk(s)) for s in a.body):
            for c in ast.walk(a.test):
                if isinstance(c, ast.Call) and call_attr(c) == "isinstance" and len(c.args) == 2 and dotted_name(c.args[0]) == var:
                    t = c.args[1]
                    names = [dotted_name(e) for e in (t.elts if isinstance(t, ast.Tuple) else [t])]
                    if names and all(n is not None and n.split(".")[-1] in REITERABLE for n in names):
                        return True
        child = a
    return False
